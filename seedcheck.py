#!/usr/bin/env python3
"""seedcheck.py [seed-id ...] - apply every kept seeded change (/verif/seeded/<id>/patch.diff) to a scratch
worktree at /repo's HEAD and run the check of its property; every one must report a VIOLATION (exit 1)."""
import json, os, subprocess, sys, tempfile, shutil
from concurrent.futures import ThreadPoolExecutor

def sh(cmd, **kw):
    return subprocess.run(cmd, shell=True, capture_output=True, text=True, **kw)

def one(sid):
    d = f"/verif/seeded/{sid}"
    meta = json.load(open(f"{d}/meta.json"))
    pid = meta["property"]
    w = tempfile.mkdtemp(prefix="seedchk-")
    os.rmdir(w)
    head = sh("git -C /repo rev-parse HEAD").stdout.strip()
    r = sh(f"git -C /repo worktree add --detach {w} {head}")
    try:
        a = sh(f"git -C {w} apply --3way {d}/patch.diff || git -C {w} apply {d}/patch.diff")
        if not sh(f"git -C {w} status --porcelain compiler lib").stdout.strip():
            return sid, pid, "NOT-APPLIED", a.stderr[-200:]
        ev = tempfile.mkdtemp(prefix="seedchk-ev-")
        c = sh(f"VERIF_EVIDENCE_DIR={ev} VERIF_REPO={w} python3 /verif/check {pid}", cwd="/tmp")
        shutil.rmtree(ev, ignore_errors=True)
        rules = sorted({l.split("[")[1].split("]")[0] for l in c.stdout.splitlines() if l.startswith(("compiler", "lib")) and "[" in l[:200]})
        return sid, pid, {0: "HOLDS", 1: "VIOLATION", 2: "INCONCLUSIVE"}.get(c.returncode, str(c.returncode)), ",".join(rules)
    finally:
        sh(f"git -C /repo worktree remove --force {w}")

if __name__ == "__main__":
    ids = sys.argv[1:] or sorted(os.listdir("/verif/seeded"))
    with ThreadPoolExecutor(8) as ex:
        for sid, pid, status, info in ex.map(one, ids):
            print(f"{status:13} {pid} {sid:50} {info}")
