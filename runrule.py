#!/usr/bin/env python3
"""runrule.py <RULE> [repo]  - run one rule and print instances / findings / inconclusive (debug aid)."""
import sys
sys.path.insert(0, "/verif")
from sa import registry  # noqa
from sa.core import Repo, get_rule
rid = sys.argv[1]
args = [a for a in sys.argv[2:] if not a.startswith("-")]
r = get_rule(rid)(Repo(args[0] if args else None))
print(rid, "instances", len(r.instances))
for f in r.findings:
    print("  FINDING", f.text()[:400])
for u in r.inconclusive:
    print("  UNSURE", u[:400])
if "-v" in sys.argv:
    for i in r.instances:
        print("  ", str(i)[:300])
