#!/usr/bin/env python3
"""
benigntool.py run [B1 B2 ...]   - apply every behaviour-preserving refactoring produced by the
                                  independent refactor agents (/tmp/benign/<B>/_out/refactor<k>.diff)
                                  to a scratch worktree and run all 20 checks against it.  Every
                                  VIOLATION / ANALYSIS-ERROR here is a false alarm of the machinery.
benigntool.py one <B> <k> [props...]
Evidence of these runs goes to a temp dir (VERIF_EVIDENCE_DIR), never to /verif/evidence.
"""
import json, os, subprocess, sys, tempfile, shutil
from concurrent.futures import ThreadPoolExecutor

PROPS = [f"C{n:02d}" for n in range(1, 21)]


def sh(cmd, **kw):
    return subprocess.run(cmd, shell=True, capture_output=True, text=True, **kw)


def run_checks(root, props, evdir):
    def one(p):
        r = sh(f"VERIF_EVIDENCE_DIR={evdir} VERIF_REPO={root} python3 /verif/check {p}", cwd="/tmp")
        lines = [l for l in r.stdout.splitlines() if l.startswith(("ANALYSIS-ERROR",)) or (l.startswith(("compiler", "lib")) and "] " in l[:160])]
        return p, r.returncode, lines
    with ThreadPoolExecutor(16) as ex:
        return list(ex.map(one, props))


def one(b, k, props=PROPS):
    w = f"/tmp/benign/{b}"
    patch = f"{w}/_out/refactor{k}.diff"
    head = sh("git -C /repo rev-parse HEAD").stdout.strip()
    sh(f"git -C {w} checkout -- compiler lib; git -C {w} checkout --detach {head}")
    r = sh(f"git -C {w} apply --3way {patch} || git -C {w} apply {patch}")
    st = sh(f"git -C {w} status --porcelain compiler lib").stdout
    if not st.strip():
        return {"applied": False, "err": r.stderr[-300:]}
    evdir = tempfile.mkdtemp(prefix="benign-ev-")
    try:
        res = run_checks(w, props, evdir)
    finally:
        shutil.rmtree(evdir, ignore_errors=True)
        sh(f"git -C {w} reset -q --hard {head}")
    out = {}
    for p, rc, lines in res:
        if rc != 0:
            out[p] = {"exit": rc, "lines": lines[:6]}
    return {"applied": True, "alarms": out}


if __name__ == "__main__":
    if sys.argv[1] == "one":
        print(json.dumps(one(sys.argv[2], sys.argv[3], sys.argv[4:] or PROPS), indent=1))
    else:
        bs = sys.argv[2:] or ["B1", "B2", "B3", "B4", "B5"]
        summary = {}
        for b in bs:
            for k in range(1, 9):
                if not os.path.exists(f"/tmp/benign/{b}/_out/refactor{k}.diff"):
                    continue
                r = one(b, k)
                summary[f"{b}/{k}"] = r
                desc = open(f"/tmp/benign/{b}/_out/refactor{k}.txt").read().strip()[:100] if os.path.exists(f"/tmp/benign/{b}/_out/refactor{k}.txt") else ""
                print(f"== {b}/{k} {desc}")
                if not r["applied"]:
                    print("   NOT APPLIED", r["err"])
                    continue
                for p, a in r["alarms"].items():
                    print(f"   {p} exit={a['exit']}")
                    for l in a["lines"]:
                        print("      ", l[:400])
                sys.stdout.flush()
        json.dump(summary, open("/tmp/benign/summary.json", "w"), indent=1)
