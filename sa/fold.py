"""
Constant folding of path conditions: which paths of a summarised function are
feasible when some of its symbolic quantities are fixed to integers.  The
quantities are identified by atoms of the normal form (a variable, or a call
such as `t.nbits()`), the fixed values come from a finite table the rule
enumerates (e.g. widths 1..64).  Folding a comparison of constants is compile
time evaluation, not a run of the function.
"""

from __future__ import annotations

from typing import Any, Callable, Dict, List, Optional, Sequence, Tuple

from .normal import C, Poly
from .pyflow import Path, single_atom


def _single(p: Any) -> Optional[Tuple[Any, ...]]:
    if not isinstance(p, Poly) or len(p.terms) != 1:
        return None
    (m, c), = p.terms.items()
    if c == 1 and len(m) == 1 and m[0][1] == 1:
        return m[0][0]
    return None


def replace_atoms(p: Poly, repl: Callable[[Tuple[Any, ...]], Optional[Poly]]) -> Poly:
    from .normal import rebuild

    out = Poly.const(0)
    for m, c in p.terms.items():
        term = Poly.const(c)
        for a, e in m:
            by = repl(a)
            if by is None:
                new: List[Any] = [a[0]]
                for x in a[1:]:
                    if isinstance(x, Poly):
                        new.append(replace_atoms(x, repl))
                    elif isinstance(x, tuple):
                        new.append(tuple(replace_atoms(y, repl) if isinstance(y, Poly) else y for y in x))
                    else:
                        new.append(x)
                by = rebuild(tuple(new))
                # {k1: v1, ...}.get(key[, default]) / {..}[key] with a key that folded to a constant
                nt = tuple(new)
                if nt[0] == "mcall" and nt[1] == "get" and len(nt[2]) in (2, 3):
                    da = _single(nt[2][0])
                    kv = nt[2][1].const_value() if isinstance(nt[2][1], Poly) else None
                    if da is not None and da[0] == "dict" and kv is not None and all(k_.const_value() is not None for k_ in da[1]):
                        hit = [v_ for k_, v_ in zip(da[1], da[2]) if k_.const_value() == kv]
                        if hit:
                            by = hit[0]
                        elif len(nt[2]) == 3:
                            by = nt[2][2]
            for _ in range(e):
                term = term * by
        out = out + term
    return out


def lit_value(key: Any, truth: bool, repl: Callable[[Tuple[Any, ...]], Optional[Poly]]) -> Optional[bool]:
    """Truth of one path literal under the replacement; None if it does not fold."""
    if key[0] == "cmp":
        d = replace_atoms(key[2], repl).const_value()
        if d is None:
            return None
        v = {"<": d < 0, "<=": d <= 0, "==": d == 0}[key[1]]
        return v == truth
    if key[0] == "in":
        x = replace_atoms(key[1], repl).const_value()
        if x is None:
            return None
        return (x in key[2]) == truth
    if key[0] == "truthy":
        x = replace_atoms(key[1], repl).const_value()
        if x is None:
            return None
        return bool(x) == truth
    if key[0] == "contains":
        # item in <literal collection>: (1, 2), {1, 2}, frozenset((1, 2)), set([..]) with constant members
        x = replace_atoms(key[2], repl).const_value()
        ca = _single(key[1])
        while ca is not None and ca[0] == "call" and ca[1] in ("frozenset", "set", "tuple", "list") and len(ca[2]) == 1:
            ca = _single(ca[2][0])
        if x is None or ca is None or ca[0] != "tuple":
            return None
        members = [m_.const_value() if isinstance(m_, Poly) else None for m_ in ca[1]]
        if any(m_ is None for m_ in members):
            return None
        return (x in members) == truth
    if key[0] in ("eq", "is"):
        a, b = replace_atoms(key[1], repl).const_value(), replace_atoms(key[2], repl).const_value()
        if a is not None and b is not None:
            return (a == b) == truth
        sa_, sb_ = _as_text(key[1], repl), _as_text(key[2], repl)
        if sa_ is not None and sb_ is not None:
            return (sa_ == sb_) == truth
        return None
    return None


def _as_text(p: Poly, repl: Callable[[Tuple[Any, ...]], Optional[Poly]]) -> Optional[str]:
    """A string / template value whose holes all fold to constants."""
    from .pyflow import tpl_shape

    bad = []

    def hole(h: Poly) -> str:
        v = replace_atoms(h, repl).const_value()
        if v is None:
            inner = _as_text(h, repl)
            if inner is None:
                bad.append(h)
                return "?"
            return inner
        return str(v)

    t = tpl_shape(p, hole)
    if t is None and not bad:
        # a variable the replacement turns into a string
        q = replace_atoms(p, repl)
        if q != p:
            t = tpl_shape(q, hole)
    if t is None or bad:
        return None
    return t


def feasible(paths: Sequence[Path], repl: Callable[[Tuple[Any, ...]], Optional[Poly]], ignore: Callable[[Any], bool] = lambda k: False) -> Tuple[List[Path], List[Any]]:
    """Paths all of whose literals fold to true; second result: literals that
    did not fold (the caller decides whether that is acceptable)."""
    out: List[Path] = []
    unfolded: List[Any] = []
    for p in paths:
        ok = True
        for k, t in p.guards:
            if ignore(k):
                continue
            v = lit_value(k, t, repl)
            if v is None:
                unfolded.append(k)
            elif not v:
                ok = False
                break
        if ok:
            out.append(p)
    return out, unfolded


def by_name(values: Dict[str, int], calls: Optional[Dict[str, int]] = None) -> Callable[[Tuple[Any, ...]], Optional[Poly]]:
    """Replacement: variables by name, zero-argument method calls by method name."""
    calls = calls or {}

    def repl(a: Tuple[Any, ...]) -> Optional[Poly]:
        if a[0] == "var" and a[1] in values:
            return C(values[a[1]])
        if a[0] == "mcall" and a[2]:
            from .normal import show as _sh

            q = f"{_sh(a[2][0])}.{a[1]}"
            if q in calls:
                return C(calls[q])
        if a[0] in ("call", "mcall") and a[1] in calls:
            return C(calls[a[1]])
        return None

    return repl
