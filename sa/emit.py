"""
Generator-side emission analysis: what a render method of a block class pushes
for a given *type shape* of its field.

The block's render() is summarised by the path engine with its own methods and
the formatter's methods inlined.  A scenario fixes the classes found along the
field's type (`self.d.type`, `.element_type`, `.type`, ...), so every class test
is decided from the class table of _ast.py; integer quantities the output
depends on (a width) are folded from a finite table.  The result is the list
of pushed lines as text with named holes - the generated accessor for that
shape - which the rules compare with what the layout rule prescribes.
"""

from __future__ import annotations

import ast
from typing import Any, Callable, Dict, List, Optional, Sequence, Tuple

from .core import Inconclusive, Repo, src_of
from .fold import by_name, feasible, replace_atoms
from .normal import C, Poly, V, show
from .pyflow import Path, PyFlow, single_atom, tpl_shape
from .pymodel import get_model, super_targets

Shape = Tuple[Any, ...]  # ("Int",) | ("Array", inner) | ("Alias", inner) | ("Enum",) ...


def subjects_of(shape: Shape, root: str = "self.d.type") -> Tuple[Dict[str, str], str, List[str], int]:
    """class per attribute path, path of the leaf, paths of aliases crossed, array depth"""
    subj: Dict[str, str] = {}
    aliases: List[str] = []
    depth = 0
    path = root
    cur: Any = shape
    while True:
        subj[path] = cur[0]
        if cur[0] == "Array":
            depth += 1
            path += ".element_type"
            cur = cur[1]
        elif cur[0] == "Alias":
            aliases.append(path)
            path += ".type"
            cur = cur[1]
        else:
            if cur[0] == "Enum":
                subj[path + ".type"] = "Uint"
            break
    return subj, path, aliases, depth


def shape_name(shape: Shape) -> str:
    if shape[0] == "Array":
        return f"{shape_name(shape[1])}[]"
    if shape[0] == "Alias":
        return f"alias({shape_name(shape[1])})"
    return shape[0]


LEAVES = ("Bool", "Byte", "Uint", "Int", "Enum")


def all_shapes(leaves: Sequence[str] = LEAVES) -> List[Shape]:
    out: List[Shape] = []
    for l in leaves:
        leaf: Shape = (l,)
        out.append(leaf)
        out.append(("Array", leaf))
        out.append(("Array", ("Array", leaf)) if False else ("Array", ("Alias", ("Array", leaf))) if l != "Enum" else ("Array", leaf))
        if l != "Enum":  # an alias cannot name an enum
            out.append(("Alias", leaf))
            out.append(("Alias", ("Array", leaf)))
            out.append(("Array", ("Alias", leaf)))
    # de-duplicate, keep order
    seen, res = set(), []
    for s in out:
        if s not in seen:
            seen.add(s)
            res.append(s)
    return res


def class_decider(repo: Repo, subjects: Dict[str, str], flags: Optional[Dict[str, bool]] = None) -> Callable[[Any], Optional[bool]]:
    m = get_model(repo)
    flags = flags or {}
    cache: Dict[str, Any] = {}

    def cls(n: str) -> Any:
        if n not in cache:
            try:
                cache[n] = m.cls(n, "_ast.py")
            except Inconclusive:
                cache[n] = None
        return cache[n]

    def decide(key: Any) -> Optional[bool]:
        if key[0] == "isinstance":
            a = single_atom(key[1])
            sn = a[1] if a is not None and a[0] == "var" else show(key[1])
            if sn in subjects:
                k = cls(subjects[sn])
                if k is None:
                    return None
                hit = False
                for n in key[2]:
                    c = cls(n)
                    if c is None:
                        return None
                    if m.is_subclass(k, c):
                        hit = True
                return hit
        if key[0] in ("truthy", "isnone"):
            nm = show(key[1])
            if nm in flags:
                return flags[nm] if key[0] == "truthy" else (not flags[nm])
            a = single_atom(key[1])
            if a is not None and a[0] == "var" and a[1] in subjects:
                return key[0] == "truthy"
        return None

    return decide


def class_methods_mro(repo: Repo, cls_name: str, rel_hint: Optional[str]) -> Tuple[Dict[str, ast.FunctionDef], Dict[str, ast.AST]]:
    m = get_model(repo)
    c = m.cls(cls_name, rel_hint)
    methods: Dict[str, ast.FunctionDef] = {}
    consts: Dict[str, ast.AST] = {}
    for k in m.mro(c):
        for name, fi in k.methods.items():
            methods.setdefault(name, fi.node)
        is_dc = any("dataclass" in d for d in k.deco_names())
        for name, v in k.attrs_val.items():
            if is_dc and name in k.attrs_ann and "ClassVar" not in ast.unparse(k.attrs_ann[name]):
                continue  # a dataclass field default is per-instance state, not a constant
            consts.setdefault(name, v)
        mod = m.mods.get(k.rel)
        if mod is not None:
            for name, v in mod.assigns.items():
                consts.setdefault(name, v)
    for k in m.mro(c):
        for fi in k.methods.values():
            for n in ast.walk(fi.node):
                if isinstance(n, ast.Attribute) and isinstance(n.ctx, ast.Store) and isinstance(n.value, ast.Name) and n.value.id in ("self", "cls"):
                    consts.pop(n.attr, None)
    return methods, consts


def block_flow(repo: Repo, block_cls: str, rel: str, fmt_cls: str, fmt_rel: str, subjects: Dict[str, str], flags: Optional[Dict[str, bool]] = None, primitives: Sequence[str] = (), pure: Sequence[str] = (), keep: Sequence[str] = (), inline_props: Any = False) -> PyFlow:
    bm, bc = class_methods_mro(repo, block_cls, rel)
    fm, fc = class_methods_mro(repo, fmt_cls, fmt_rel)
    consts = dict(fc)
    consts.update(bc)

    def flt(name: str, fn: ast.FunctionDef) -> bool:
        if name in keep:
            return False
        body = [s for s in fn.body if not (isinstance(s, ast.Expr) and isinstance(s.value, ast.Constant))]
        if len(body) == 1 and isinstance(body[0], ast.Raise) and "NotImplementedError" in src_of(body[0]):
            return False
        return True

    m = get_model(repo)
    funcs: Dict[str, ast.FunctionDef] = {}
    for cn_, rl_ in ((block_cls, rel), (fmt_cls, fmt_rel)):
        for k in m.mro(m.cls(cn_, rl_)):
            mod = m.mods.get(k.rel)
            if mod is not None:
                for name, fi in mod.funcs.items():
                    if name not in keep:
                        funcs.setdefault(name, fi.node)
    prims = tuple(primitives) + ("push", "push_string", "push_empty_line", "push_comment", "push_docstring", "push_definition_comments", "push_definition_docstring", "push_location_doc")
    return PyFlow(
        funcs=funcs, methods=bm, typed={"self": bm, "self.formatter": fm}, consts=consts, inline_filter=flt, primitives=prims, pure=tuple(pure),
        decide=class_decider(repo, subjects, flags), names={}, max_depth=8, havoc_on=(), max_paths=2000, super_targets=super_targets(m, m.cls(block_cls, rel)), inline_props=inline_props,
    )


def render_hole(h: Poly, repl: Callable[[Tuple[Any, ...]], Optional[Poly]]) -> str:
    v = replace_atoms(h, repl)
    cv = v.const_value()
    if cv is not None:
        return str(cv)
    a = single_atom(v)
    if a is not None and a[0] in ("str", "tpl"):
        inner = tpl_shape(v, lambda x: render_hole(x, repl))
        if inner is not None:
            return inner
    return "{" + show(v) + "}"


def pushed(p: Path, repl: Optional[Callable[[Tuple[Any, ...]], Optional[Poly]]] = None, base_indent: str = "self.indent") -> List[Tuple[Optional[int], str]]:
    """(indent relative to the block's own indent, text) of every push on the path"""
    repl = repl or (lambda a: None)
    out: List[Tuple[Optional[int], str]] = []
    for e in p.effects:
        if e.kind != "call" or e.name not in ("push", "push_string"):
            continue
        if not e.args:
            continue
        text = tpl_shape(e.args[0], lambda x: render_hole(x, repl))
        if text is None:
            text = "{" + show(e.args[0]) + "}"
        if e.name == "push_string":
            # appended to the line pushed last
            sep = e.kw.get("separator", e.args[1] if len(e.args) > 1 else None)
            sep_s = " " if sep is None else tpl_shape(sep, lambda x: render_hole(x, repl))
            if sep_s is None:
                sep_s = " "
            if out:
                out[-1] = (out[-1][0], out[-1][1] + sep_s + text)
            else:
                out.append((0, text))
            continue
        ind = e.kw.get("indent", e.args[1] if len(e.args) > 1 and e.name == "push" else None)
        rel: Optional[int]
        if ind is None or (single_atom(ind) is not None and single_atom(ind)[0] == "none"):
            rel = 0
        else:
            d = replace_atoms(ind - V(base_indent), repl).const_value()
            rel = d
        out.append((rel, text))
    return out


def emitted(flow: PyFlow, fn: ast.FunctionDef, init: Optional[Dict[str, Poly]] = None, args: Optional[Dict[str, Poly]] = None, repl: Optional[Callable[[Tuple[Any, ...]], Optional[Poly]]] = None) -> Tuple[List[List[Tuple[Optional[int], str]]], List[Any], List[Path]]:
    """All feasible emissions of fn (one list of lines per feasible path) under
    the folding `repl`; literals that did not fold; the feasible paths."""
    env = {"self": V("self")}
    env.update(init or {})
    env.update(args or {})
    paths = flow.run(fn, env)
    ok, unfolded = feasible(paths, repl or (lambda a: None))
    ok = [p for p in ok if p.done != "raise"]
    return [pushed(p, repl) for p in ok], unfolded, ok


FORMATTERS = {
    "impls/py/renderer.py": ("PyFormatter", "impls/py/formatter.py"),
    "impls/go/renderer.py": ("GoFormatter", "impls/go/formatter.py"),
    "impls/c/renderer_c.py": ("CFormatter", "impls/c/formatter.py"),
    "impls/c/renderer_h.py": ("CFormatter", "impls/c/formatter.py"),
}

HOLE = "\x00"


def class_emissions(repo: Repo, relsfx: str, method: str = "render", named: Any = False) -> Dict[str, List[str]]:
    """For every class of a renderer module that defines `method` itself:
    the text of every line the method can push on any path (holes are HOLE;
    leading spaces include the indent= keyword relative to the block's own
    indent).  A class the engine cannot walk is absent from the result."""
    key = ("class_emissions", relsfx, method, named)
    cache = repo.cache if hasattr(repo, "cache") else None
    if cache is not None and key in cache:
        return cache[key]
    m = get_model(repo)
    mod = m.mod(relsfx)
    fcn, frel = FORMATTERS[relsfx]
    out: Dict[str, List[str]] = {}
    for ci in mod.classes.values():
        fi = ci.methods.get(method)
        if fi is None:
            continue
        try:
            flow = block_flow(repo, ci.name, relsfx, fcn, frel, {}, keep=tuple(sorted({n for k_ in m.mro(m.cls(fcn, frel)) for n in k_.methods if n.startswith(("format_", "formart_"))} | set(m.cls(fcn, frel).methods))) + ("message_field_name", "message_field_type", "message_field_default_value"))
            paths = flow.run(fi.node, {"self": V("self")})
        except Inconclusive:
            continue
        lines: List[str] = []
        hole_fn = (lambda x: show(x)) if named == "plain" else (lambda x: "{" + show(x) + "}") if named else (lambda x: HOLE)
        for p_ in paths:
            if p_.done == "raise":
                continue
            cur: List[str] = []
            for e in p_.effects:
                if e.kind != "call" or e.name not in ("push", "push_string") or not e.args:
                    continue
                t = tpl_shape(e.args[0], hole_fn)
                if t is None:
                    t = hole_fn(e.args[0])
                if e.name == "push_string":
                    sep = e.kw.get("separator", e.args[1] if len(e.args) > 1 else None)
                    sep_s = " " if sep is None else tpl_shape(sep, hole_fn)
                    if sep_s is None:
                        sep_s = " "
                    if cur:
                        cur[-1] = cur[-1] + sep_s + t
                    else:
                        cur.append(t)
                    continue
                ind = e.kw.get("indent", e.args[1] if len(e.args) > 1 else None)
                if ind is not None and not (single_atom(ind) is not None and single_atom(ind)[0] == "none"):
                    d = (ind - V("self.indent")).const_value()
                    if d is not None and d > 0:
                        t = " " * int(d) + t
                cur.append(t)
            for t in cur:
                if t not in lines:
                    lines.append(t)
        out[ci.name] = lines
    if cache is not None:
        cache[key] = out
    return out


def _string_template_helper(fn: ast.FunctionDef) -> bool:
    """A formatter helper that only arranges strings it is given: every parameter (also *args) is annotated
    `str`, at least one exists, and the body is a single return."""
    params = list(fn.args.args[1:]) + ([fn.args.vararg] if fn.args.vararg is not None else [])
    if not params or fn.args.kwarg is not None:
        return False
    if not all(a_.annotation is not None and src_of(a_.annotation) == "str" for a_ in params):
        return False
    body = [b_ for b_ in fn.body if not (isinstance(b_, ast.Expr) and isinstance(b_.value, ast.Constant))]
    return len(body) == 1 and isinstance(body[0], ast.Return)


def formatter_returns(repo: Repo, relsfx: str, cls: str, meth: str, braces: bool = False, inline: Optional[Callable[[str], bool]] = None, string_helpers: bool = False) -> List[str]:
    """Texts a formatter method can return (one per path), holes replaced by
    the source-like rendering of their values; `format_*` methods stay
    opaque (they are the vocabulary provenance is judged in), private helpers
    and module functions are inlined."""
    from .flows import compiler_flow

    m = get_model(repo)
    c = m.cls(cls, relsfx)
    fi = m.lookup(c, meth)
    if fi is None:
        raise Inconclusive(f"{cls}.{meth} vanished")
    flow = compiler_flow(repo, cls, relsfx, module_funcs=True, inline=(lambda name, fn: inline(name)) if inline is not None else (lambda name, fn: not name.startswith("format_") or (string_helpers and _string_template_helper(fn))), max_depth=8)
    out: List[str] = []
    for p_ in flow.run(fi.node, {"self": V("self")}):
        if p_.done != "return" or p_.ret is None:
            continue
        t = tpl_shape(p_.ret, (lambda x: "{" + show(x) + "}") if braces else (lambda x: show(x)))
        if t is None:
            raise Inconclusive(f"{cls}.{meth} returns `{show(p_.ret)}`: not a text")
        if t not in out:
            out.append(t)
    return out
