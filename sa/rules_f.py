"""
C4 positional agreement generator <-> runtime constructors (py, go, c),
G1 Go helper functions pairwise with Python's.
"""

from __future__ import annotations

import ast
import re
from typing import Any, Dict, List, Optional, Tuple

from .core import Finding, Inconclusive, Repo, RuleResult, rule, short, src_of
from .pymodel import get_model
from .rules_b import _fstring_shape

BP = "lib/py/bitprotolib/bp.py"

ROLE_PATTERNS = [
    (r"^(self\.formatter|self)\.format_bool_value\((t|self\.d)\.extensible\)$", "extensible"),
    (r"^(self\.formatter|self)\.format_int_value\((t|self\.d)\.cap\)$", "capacity"),
    (r"^(self\.formatter|self)\.format_int_value\((t|self\.d)\.nbits\(\)\)$", "nbits"),
    (r"^(self\.formatter|self)\.format_int_value\((t|self\.d)\.nfields\(\)\)$", "nfields"),
    (r"^(self\.formatter|self)\.format_int_value\((t|self\.d)\.nbytes\(\)\)$", "nbytes"),
    (r"^(self\.formatter|self)\.format_int_value\((t|self\.d)\.number\)$", "field_number"),
    (r"^(self\.formatter|self)\.format_processor\((t|self\.d)\.element_type\)$", "element_processor"),
    (r"^(self\.formatter|self)\.format_processor\((t|self\.d)\.type\)$", "type_processor"),
    (r"^(self\.formatter|self)\.format_processor_uint\((t|self\.d)\.type\)$", "ut"),
    (r"^(self\.formatter|self)\.format_bp_type\((t|self\.d)\.element_type\)$", "element_type"),
    (r"^(self\.formatter|self)\.format_bp_type\((t|self\.d)\.type, (t|self\.d)\)$", "type"),
    (r"^(self\.formatter|self)\.format_str_value\((t|self\.d)\.name\)$", "name"),
]
ROLE_EQUIV = {
    "extensible": {"extensible"},
    "capacity": {"capacity", "cap"},
    "nbits": {"nbits"},
    "nfields": {"nfields"},
    "field_number": {"field_number", "fieldNumber", "fnumber"},
    "element_processor": {"element_processor", "elementProcessor"},
    "type_processor": {"type_processor", "typeProcessor", "to"},
    "ut": {"ut"},
    "field_processors": {"field_processors", "fieldDescriptors", "field_descriptors"},
    "element_type": {"element_type"},
    "type": {"type", "to"},
    "name": {"name"},
    "data": {"data"},
}


def role_of(expr_src: str) -> Optional[str]:
    for pat, role in ROLE_PATTERNS:
        if re.match(pat, expr_src):
            return role
    return None


def split_args(s: str) -> List[str]:
    out, cur, depth = [], "", 0
    for ch in s:
        if ch in "([{":
            depth += 1
        elif ch in ")]}":
            depth -= 1
        if ch == "," and depth == 0:
            out.append(cur.strip())
            cur = ""
        else:
            cur += ch
    if cur.strip():
        out.append(cur.strip())
    return out


def ctor_calls_in_templates(fn: ast.AST, prefix: str) -> List[Tuple[str, List[str], ast.AST]]:
    """(constructor name, argument texts with {holes}, node) for every
    `prefix.Name(` found in an f-string of fn."""
    out = []
    for n in ast.walk(fn):
        if isinstance(n, ast.JoinedStr):
            s = _fstring_shape(n)
            for mm in re.finditer(re.escape(prefix) + r"([A-Za-z_][A-Za-z0-9_]*)\(", s):
                start = mm.end()
                depth, i = 1, start
                while i < len(s) and depth:
                    if s[i] == "(":
                        depth += 1
                    elif s[i] == ")":
                        depth -= 1
                    i += 1
                out.append((mm.group(1), split_args(s[start : i - 1]), n))
    return out


def ctor_calls_in_text(text: str, prefix: str) -> List[Tuple[str, List[str]]]:
    """(constructor name, argument texts) for every `prefix.Name(` in text"""
    out = []
    for mm in re.finditer(r"(?<![A-Za-z0-9_.])" + re.escape(prefix) + r"([A-Za-z_][A-Za-z0-9_]*)\(", text):
        start = mm.end()
        depth, i = 1, start
        while i < len(text) and depth:
            if text[i] == "(":
                depth += 1
            elif text[i] == ")":
                depth -= 1
            i += 1
        if depth == 0:
            out.append((mm.group(1), split_args(text[start : i - 1])))
    return out


def site_texts(repo: Repo, relsfx: str, qual: str) -> List[str]:
    """Emitted / returned texts of a template site, from the path engine:
    formatter methods -> returned texts; block methods -> pushed lines (joined)."""
    from .emit import class_emissions, formatter_returns

    cls, meth = qual.split(".", 1)
    if "formatter.py" in relsfx:
        # helpers that only arrange the strings they are given (a constructor-call builder) are seen through
        # in the Python and Go formatters; the C role patterns name the C helpers themselves
        return formatter_returns(repo, relsfx, cls, meth, string_helpers="/c/" not in relsfx)
    em = class_emissions(repo, relsfx, method=meth, named="plain")
    if cls not in em:
        raise Inconclusive(f"{qual}: emission not computable")
    return ["\n".join(em[cls])]


def local_value(fn: ast.AST, name: str) -> Optional[str]:
    vals = [src_of(n.value) for n in ast.walk(fn) if isinstance(n, ast.Assign) and len(n.targets) == 1 and isinstance(n.targets[0], ast.Name) and n.targets[0].id == name]
    return vals[0] if len(vals) == 1 else None


def py_runtime_ctor_params(repo: Repo) -> Dict[str, List[str]]:
    m = get_model(repo)
    bp = m.mod("bitprotolib/bp.py")
    out: Dict[str, List[str]] = {}
    for c in bp.classes.values():
        if "dataclass" in c.deco_names():
            out[c.name] = [st.target.id for st in c.node.body if isinstance(st, ast.AnnAssign) and isinstance(st.target, ast.Name)]
    return out


def go_runtime_ctor_params(repo: Repo) -> Dict[str, Tuple[List[str], List[str], Optional[List[str]]]]:
    """New* function -> (param names, struct field order of the returned type,
    positional elements of the composite literal)."""
    from .gomodel import get_go, go_src

    g = get_go(repo)
    out: Dict[str, Tuple[List[str], List[str], Optional[List[str]]]] = {}
    for name, fn in g.funcs.items():
        if not name.startswith("New") or fn.recv is not None:
            continue
        params = [p.name for p in fn.params]
        lit = None
        tname = None
        for st in fn.body.stmts:
            if st.k == "return" and st.vals and st.vals[0].k == "un" and st.vals[0].op == "&" and st.vals[0].x.k == "complit":
                cl = st.vals[0].x
                lit = [go_src(e) for e in cl.elts]
                tname = go_src(cl.type)
        fields: List[str] = []
        if tname and tname in g.types and g.types[tname].type.k == "struct":
            fields = [f.name for f in g.types[tname].type.fields]
        out[name] = (params, fields, lit)
    return out


@rule("C4", "the k-th argument a generator template passes to a runtime constructor is what the runtime's k-th parameter means")
def c4(repo: Repo) -> RuleResult:
    res = RuleResult("C4", floor=12)
    m = get_model(repo)

    def check_site(lang: str, fi, ctor: str, args: List[str], params: List[str], fixed: Dict[str, str]) -> None:
        roles = []
        for a in args:
            r = role_of(a)
            if r is not None:
                roles.append(r)
            elif a in fixed:
                roles.append(fixed[a])
            elif "self." in a or "(" in a:
                roles.append(f"?{a}")
            else:
                roles.append(f"lit:{a}")
        res.inst(part=lang, site=fi.qual, ctor=ctor, roles=roles, runtime_params=params)
        if len(roles) != len(params):
            f = Finding("C4", fi.rel, fi.node.lineno, fi.qual, f"{ctor}({', '.join(args)})", f"the template passes {len(roles)} arguments, the runtime constructor takes {params}", tag=f"{lang}:{fi.qual}:{ctor}:arity")
            f.part = lang
            res.bad(f)
            return
        for k, (r, p) in enumerate(zip(roles, params)):
            if r.startswith("?"):
                res.unsure(f"C4: {fi.qual}: argument {k} of {ctor} (`{args[k]}`) has no recognised provenance ({r})")
                return
            if r.startswith("lit:"):
                # a property of the definition cannot be a constant of the template
                if p in ("extensible", "capacity", "cap", "nbits", "nfields", "field_number", "fieldNumber", "fnumber", "nbytes"):
                    f = Finding("C4", fi.rel, fi.node.lineno, fi.qual, f"{ctor}({', '.join(args)})", f"argument {k + 1} is the constant `{r[4:]}` where the runtime's parameter `{p}` is a property of the definition: every definition this template is used for gets the same value", witness="an extensible message without fields inside another message: its 16-bit prefix is not written", tag=f"{lang}:{fi.qual}:{ctor}:{k}:constant")
                    f.part = lang
                    res.bad(f)
                continue
            if p not in ROLE_EQUIV.get(r, {r}):
                f = Finding("C4", fi.rel, fi.node.lineno, fi.qual, f"{ctor}({', '.join(args)})", f"argument {k + 1} carries `{r}` but the runtime's parameter {k + 1} means `{p}`", witness="the processor tree is built with swapped extensible/capacity/nbits: wrong layout", tag=f"{lang}:{fi.qual}:{ctor}:{k}")
                f.part = lang
                res.bad(f)

    def runtime_roles(lang: str, L, cls: str) -> Optional[List[str]]:
        """what each constructor position of the runtime class means: the role
        the field it is stored in plays in the processors (those are judged
        by D3 / C3 / D7 under exactly this positional naming)"""
        from .rules_d2 import ROLE_AT, ctor_fields

        fields = ctor_fields(L, cls)
        roles_ = ROLE_AT[cls]
        res.inst(part=lang, site=cls, constructor_fields=fields, roles=roles_)
        if len(fields) != len(roles_) or any(f_ is None for f_ in fields):
            f = Finding("C4", L.rel, 0, cls, str(fields), f"the constructor of {cls} takes / stores {fields}; the generators pass {roles_}", tag=f"{lang}:{cls}:ctor")
            f.part = lang
            res.bad(f)
            return None
        return list(roles_)

    # ---- Python
    from .flows import go_runtime, py_runtime
    from .rules_d2 import ROLE_AT

    pparams = py_runtime_ctor_params(repo)
    PL = py_runtime(repo)
    sites = [
        ("impls/py/formatter.py", "PyFormatter.format_processor_array"),
        ("impls/py/formatter.py", "PyFormatter.format_processor_int"),
        ("impls/py/formatter.py", "PyFormatter.format_processor_uint"),
        ("impls/py/renderer.py", "BlockMessageMethodProcessorFieldItem.render"),
        ("impls/py/renderer.py", "BlockMessageMethodProcessor.after"),
        ("impls/py/renderer.py", "BlockEnumMethodProcessor.render"),
        ("impls/py/renderer.py", "BlockAliasMethodProcessor.render"),
    ]
    for relsfx, qual in sites:
        try:
            fi = m.func(relsfx, qual)
        except Inconclusive as e:
            res.unsure(f"C4: {e}")
            continue
        try:
            calls = [c for t_ in site_texts(repo, relsfx, qual) for c in ctor_calls_in_text(t_, "bp.") if c[0] in pparams and c[0] not in ("Processor",)]
        except Inconclusive as e:
            res.unsure(f"C4: {e}")
            continue
        if not calls:
            res.unsure(f"C4: {qual}: no bp.<Constructor>( template found")
            continue
        for ctor, args in calls:
            if ctor not in ROLE_AT:
                continue
            try:
                params = runtime_roles("py", PL, ctor)
            except Inconclusive as e:
                res.unsure(f"C4: {e}")
                continue
            if params is not None:
                check_site("py", fi, ctor, args, params, {"field_processors": "field_processors"})
    # every other format_processor* method of the formatter that spells a runtime constructor itself
    try:
        pf_cls = m.cls("PyFormatter", "impls/py/formatter.py")
        listed = {q_.split(".")[1] for _r, q_ in sites}
        for mname_, fi_x in sorted(pf_cls.methods.items()):
            if not mname_.startswith("format_processor") or mname_ in listed:
                continue
            try:
                texts_x = site_texts(repo, "impls/py/formatter.py", f"PyFormatter.{mname_}")
            except Inconclusive:
                continue
            for t_x in texts_x:
                for ctor, args in ctor_calls_in_text(t_x, "bp."):
                    if ctor not in pparams or ctor not in ROLE_AT:
                        continue
                    params = runtime_roles("py", PL, ctor)
                    if params is not None:
                        check_site("py", fi_x, ctor, args, params, {"field_processors": "field_processors"})
    except Inconclusive as e:
        res.unsure(f"C4: {e}")
    # encode/decode contexts
    for qual, flag in (("BlockMessageMethodEncode.render", "True"), ("BlockMessageMethodDecode.render", "False")):
        fi = m.func("impls/py/renderer.py", qual)
        try:
            t = "\n".join(site_texts(repo, "impls/py/renderer.py", qual))
        except Inconclusive as e:
            res.unsure(f"C4: {e}")
            continue
        calls = [c for c in ctor_calls_in_text(t, "bp.") if c[0] == "ProcessContext"]
        res.inst(part="py", site=qual, ctor="ProcessContext", args=[c[1] for c in calls])
        ctx_var = None
        mm_ = re.search(r"^\s*(\w+) = bp\.ProcessContext\(", t, re.M)
        if mm_:
            ctx_var = mm_.group(1)
        buf = calls[0][1][1] if len(calls) == 1 and len(calls[0][1]) == 2 else None
        if len(calls) != 1 or calls[0][1][:1] != [flag] or buf is None or not re.fullmatch(r"\w+", buf) or pparams.get("ProcessContext", [])[:2] != ["is_encode", "s"]:
            f = Finding("C4", fi.rel, fi.node.lineno, qual, str(calls), f"the process context is not constructed as ProcessContext({flag}, s) against fields {pparams.get('ProcessContext')}", witness="encode() runs in decode mode", tag=f"py:{qual}:ctx")
            f.part = "py"
            res.bad(f)
        if ctx_var is None or f"self.bp_processor().process({ctx_var}, bp.NIL_DATA_INDEXER, self)" not in t:
            f = Finding("C4", fi.rel, fi.node.lineno, qual, "", "the top-level processor is not started as process(ctx, NIL_DATA_INDEXER, self)", tag=f"py:{qual}:start")
            f.part = "py"
            res.bad(f)

    # ---- Go
    try:
        gparams = go_runtime_ctor_params(repo)
        GL = go_runtime(repo)
        # the contexts start at bit 0 in the right mode
        from .pyflow import new_parts as _np

        for cname, enc in (("NewEncodeContext", 1), ("NewDecodeContext", 0)):
            fn_ = GL.funcs.get(cname)
            if fn_ is None:
                res.unsure(f"C4: go: {cname} vanished")
                continue
            for p_ in GL.flow().run(fn_):
                np_ = _np(p_.ret) if p_.ret is not None else None
                res.inst(part="go", site=cname, literal={k_: str(v_) for k_, v_ in (np_[1].items() if np_ else [])})
                if np_ is None or np_[0] != "ProcessContext":
                    res.unsure(f"C4: go: {cname} does not return a ProcessContext literal")
                    continue
                if np_[1].get("isEncode") is None or np_[1]["isEncode"].const_value() != enc or np_[1].get("i") is None or np_[1]["i"].const_value() != 0:
                    f = Finding("C4", "lib/go/bitproto.go", fn_.lineno, cname, str({k_: str(v_) for k_, v_ in np_[1].items()}), f"{cname} does not start a context with isEncode={bool(enc)} at bit 0", tag=f"go:{cname}")
                    f.part = "go"
                    res.bad(f)
        gsites = [
            ("impls/go/formatter.py", "GoFormatter.format_processor_array", "NewArray"),
            ("impls/go/formatter.py", "GoFormatter.format_processor_int", "NewInt"),
            ("impls/go/formatter.py", "GoFormatter.format_processor_uint", "NewUint"),
            ("impls/go/renderer.py", "BlockMessageMethodBpProcessorFieldItem.render", "NewMessageFieldProcessor"),
            ("impls/go/renderer.py", "BlockMessageMethodBpProcessor.after", "NewMessageProcessor"),
            ("impls/go/renderer.py", "BlockEnumMethodBpProcessor.render", "NewEnumProcessor"),
            ("impls/go/renderer.py", "BlockAliasMethodBpProcessor.render", "NewAliasProcessor"),
        ]
        for relsfx, qual, ctor in gsites:
            try:
                fi = m.func(relsfx, qual)
            except Inconclusive as e:
                res.unsure(f"C4: {e}")
                continue
            try:
                calls = [c for t_ in site_texts(repo, relsfx, qual) for c in ctor_calls_in_text(t_, "bp.") if c[0] == ctor]
            except Inconclusive as e:
                res.unsure(f"C4: {e}")
                continue
            if len(calls) != 1 or ctor not in gparams:
                res.unsure(f"C4: {qual}: bp.{ctor}( template / runtime function not found")
                continue
            # local names in go renderer differ: uint/processor/to
            args = calls[0][1]
            try:
                params = runtime_roles("go", GL, ctor[3:])
            except Inconclusive as e:
                res.unsure(f"C4: {e}")
                continue
            if params is not None:
                check_site("go", fi, ctor, args, params, {"fieldDescriptors": "field_processors"})
    except Inconclusive as e:
        res.unsure(f"C4: go: {e}")
    return res


# generator locals in the go renderer use other names for the same provenance
ROLE_PATTERNS += [
    (r"^self\.formatter\.format_processor_uint\(self\.d\.type\)$", "ut"),
]


def _pathwise_equal(repo: Repo, pn: str, gn: str, params: List[str]) -> str:
    """'equal' | 'unknown: ...' for two pure helpers, by pairs of paths of the
    path engine: a pair is skipped when its guards are contradictory, and
    otherwise both returned values must bound each other under the guards."""
    from .flows import go_runtime, py_runtime
    from .normal import V, show
    from .numeric import Facts, interval, prove_le

    try:
        PL, GL = py_runtime(repo), go_runtime(repo)
        fa, fb = PL.func(pn), GL.func(gn)
        pa = [p for p in PL.flow().run(fa, {a.arg: V(n) for a, n in zip(fa.args.args, params)}) if p.done == "return"]
        pb = [p for p in GL.flow().run(fb, {a.arg: V(n) for a, n in zip(fb.args.args, params)}) if p.done == "return"]
    except Inconclusive as e:
        return f"unknown: {e}"
    if not pa or not pb:
        return "unknown: no return path"
    for x in pa:
        for y in pb:
            if x.ret is None or y.ret is None:
                return "unknown: a path returns nothing"
            facts = Facts()
            for k, tr in list(x.guards) + list(y.guards):
                if k[0] != "cmp":
                    return f"unknown: guard {k[0]} is not a comparison"
                op, d = k[1], k[2]
                if op == "<":
                    facts.assume(d, -float("inf"), -1) if tr else facts.assume(d, 0, float("inf"))
                elif op == "<=":
                    facts.assume(d, -float("inf"), 0) if tr else facts.assume(d, 1, float("inf"))
                elif op == "==" and tr:
                    facts.assume(d, 0, 0)
            if any(interval(q, facts)[0] > interval(q, facts)[1] for q in list(facts.polys.values())):
                continue  # the two paths exclude each other
            if x.ret == y.ret:
                continue
            ok1, _ = prove_le(x.ret, y.ret, facts)
            ok2, _ = prove_le(y.ret, x.ret, facts)
            if not (ok1 and ok2):
                return f"unknown: `{show(x.ret)}` vs `{show(y.ret)}` under {[t for t in facts.text]}"
    return "equal"


@rule("G1", "the Go runtime's pure helpers reach the same normal forms as the Python runtime's")
def g1(repo: Repo) -> RuleResult:
    from .golower import GoLower
    from .gomodel import GO_RT, get_go
    from .normal import V, show
    from .symeval import PyLower

    res = RuleResult("G1", floor=3)
    m = get_model(repo)
    bp = m.mod("bitprotolib/bp.py")
    pf = {k: v.node for k, v in bp.funcs.items()}
    plw = PyLower(pf)
    try:
        g = get_go(repo)
    except Inconclusive as e:
        res.unsure(f"G1: {e}")
        return res
    glw = GoLower(g.funcs)
    pairs = [("get_mask", "getMask", ["k", "c"]), ("smart_shift", "smartShift", ["n", "k"]), ("get_nbits_to_copy", "getNbitsToCopy", ["i", "j", "n"])]
    for pn, gn, params in pairs:
        if pn not in pf or gn not in g.funcs:
            res.unsure(f"G1: {pn}/{gn} vanished")
            continue
        args = [V(p) for p in params]
        a = plw.inline(pf[pn], args, 0)
        b = glw.inline(g.funcs[gn], args, 0)
        res.inst(python=pn, go=gn, python_form=show(a), go_form=show(b))
        if a != b and any(at[0] in ("opaque", "ite") for at in a.atoms() + b.atoms()):
            # one side is not a single normal form (statement-level branching): compare path by path,
            # each pair of jointly feasible paths must return provably equal values
            verdict = _pathwise_equal(repo, pn, gn, params)
            res.inst(python=pn, go=gn, pathwise=verdict)
            if verdict == "equal":
                continue
            if verdict.startswith("differs:"):
                res.bad(Finding("G1", GO_RT, g.funcs[gn].line, gn, verdict[8:], f"Go {gn} and Python {pn} return different values on a jointly feasible pair of paths: {verdict[8:]}", witness="the Go helper returns a different value for some argument", tag=f"{gn}:pathwise"))
                continue
        if a != b:
            if any(at[0] in ("opaque", "ite") for at in a.atoms() + b.atoms()):
                res.unsure(f"G1: {pn} / {gn}: a form is outside the normaliser's theory ({show(a)} vs {show(b)})")
            else:
                res.bad(Finding("G1", GO_RT, g.funcs[gn].line, gn, show(b), f"Go {gn} normalises to `{show(b)}`, Python {pn} to `{show(a)}`", witness="the Go helper returns a different value for some argument", tag=f"{gn}"))
    return res
