"""
C4 positional agreement generator <-> runtime constructors (py, go, c),
G1 Go helper functions pairwise with Python's.
"""

from __future__ import annotations

import ast
import re
from typing import Any, Dict, List, Optional, Tuple

from .core import Finding, Inconclusive, Repo, RuleResult, rule, short, src_of
from .pymodel import get_model
from .rules_b import _fstring_shape

BP = "lib/py/bitprotolib/bp.py"

ROLE_PATTERNS = [
    (r"^(self\.formatter|self)\.format_bool_value\((t|self\.d)\.extensible\)$", "extensible"),
    (r"^(self\.formatter|self)\.format_int_value\((t|self\.d)\.cap\)$", "capacity"),
    (r"^(self\.formatter|self)\.format_int_value\((t|self\.d)\.nbits\(\)\)$", "nbits"),
    (r"^(self\.formatter|self)\.format_int_value\((t|self\.d)\.nfields\(\)\)$", "nfields"),
    (r"^(self\.formatter|self)\.format_int_value\((t|self\.d)\.number\)$", "field_number"),
    (r"^(self\.formatter|self)\.format_processor\((t|self\.d)\.element_type\)$", "element_processor"),
    (r"^(self\.formatter|self)\.format_processor\((t|self\.d)\.type\)$", "type_processor"),
    (r"^(self\.formatter|self)\.format_processor_uint\((t|self\.d)\.type\)$", "ut"),
    (r"^(self\.formatter|self)\.format_bp_type\((t|self\.d)\.element_type\)$", "element_type"),
    (r"^(self\.formatter|self)\.format_bp_type\((t|self\.d)\.type, (t|self\.d)\)$", "type"),
    (r"^(self\.formatter|self)\.format_str_value\((t|self\.d)\.name\)$", "name"),
]
ROLE_EQUIV = {
    "extensible": {"extensible"},
    "capacity": {"capacity", "cap"},
    "nbits": {"nbits"},
    "nfields": {"nfields"},
    "field_number": {"field_number", "fieldNumber", "fnumber"},
    "element_processor": {"element_processor", "elementProcessor"},
    "type_processor": {"type_processor", "typeProcessor", "to"},
    "ut": {"ut"},
    "field_processors": {"field_processors", "fieldDescriptors", "field_descriptors"},
    "element_type": {"element_type"},
    "type": {"type", "to"},
    "name": {"name"},
    "data": {"data"},
}


def role_of(expr_src: str) -> Optional[str]:
    for pat, role in ROLE_PATTERNS:
        if re.match(pat, expr_src):
            return role
    return None


def split_args(s: str) -> List[str]:
    out, cur, depth = [], "", 0
    for ch in s:
        if ch in "([{":
            depth += 1
        elif ch in ")]}":
            depth -= 1
        if ch == "," and depth == 0:
            out.append(cur.strip())
            cur = ""
        else:
            cur += ch
    if cur.strip():
        out.append(cur.strip())
    return out


def ctor_calls_in_templates(fn: ast.AST, prefix: str) -> List[Tuple[str, List[str], ast.AST]]:
    """(constructor name, argument texts with {holes}, node) for every
    `prefix.Name(` found in an f-string of fn."""
    out = []
    for n in ast.walk(fn):
        if isinstance(n, ast.JoinedStr):
            s = _fstring_shape(n)
            for mm in re.finditer(re.escape(prefix) + r"([A-Za-z_][A-Za-z0-9_]*)\(", s):
                start = mm.end()
                depth, i = 1, start
                while i < len(s) and depth:
                    if s[i] == "(":
                        depth += 1
                    elif s[i] == ")":
                        depth -= 1
                    i += 1
                out.append((mm.group(1), split_args(s[start : i - 1]), n))
    return out


def local_value(fn: ast.AST, name: str) -> Optional[str]:
    vals = [src_of(n.value) for n in ast.walk(fn) if isinstance(n, ast.Assign) and len(n.targets) == 1 and isinstance(n.targets[0], ast.Name) and n.targets[0].id == name]
    return vals[0] if len(vals) == 1 else None


def py_runtime_ctor_params(repo: Repo) -> Dict[str, List[str]]:
    m = get_model(repo)
    bp = m.mod("bitprotolib/bp.py")
    out: Dict[str, List[str]] = {}
    for c in bp.classes.values():
        if "dataclass" in c.deco_names():
            out[c.name] = [st.target.id for st in c.node.body if isinstance(st, ast.AnnAssign) and isinstance(st.target, ast.Name)]
    return out


def go_runtime_ctor_params(repo: Repo) -> Dict[str, Tuple[List[str], List[str], Optional[List[str]]]]:
    """New* function -> (param names, struct field order of the returned type,
    positional elements of the composite literal)."""
    from .gomodel import get_go, go_src

    g = get_go(repo)
    out: Dict[str, Tuple[List[str], List[str], Optional[List[str]]]] = {}
    for name, fn in g.funcs.items():
        if not name.startswith("New") or fn.recv is not None:
            continue
        params = [p.name for p in fn.params]
        lit = None
        tname = None
        for st in fn.body.stmts:
            if st.k == "return" and st.vals and st.vals[0].k == "un" and st.vals[0].op == "&" and st.vals[0].x.k == "complit":
                cl = st.vals[0].x
                lit = [go_src(e) for e in cl.elts]
                tname = go_src(cl.type)
        fields: List[str] = []
        if tname and tname in g.types and g.types[tname].type.k == "struct":
            fields = [f.name for f in g.types[tname].type.fields]
        out[name] = (params, fields, lit)
    return out


@rule("C4", "the k-th argument a generator template passes to a runtime constructor is what the runtime's k-th parameter means")
def c4(repo: Repo) -> RuleResult:
    res = RuleResult("C4", floor=12)
    m = get_model(repo)

    def check_site(lang: str, fi, ctor: str, args: List[str], params: List[str], fixed: Dict[str, str]) -> None:
        roles = []
        for a in args:
            mm = re.fullmatch(r"\{([A-Za-z_][A-Za-z0-9_]*)\}", a)
            if mm:
                v = local_value(fi.node, mm.group(1))
                r = role_of(v) if v else None
                roles.append(r or f"?{mm.group(1)}={v}")
            elif a in fixed:
                roles.append(fixed[a])
            else:
                roles.append(f"lit:{a}")
        res.inst(part=lang, site=fi.qual, ctor=ctor, roles=roles, runtime_params=params)
        if len(roles) != len(params):
            f = Finding("C4", fi.rel, fi.node.lineno, fi.qual, f"{ctor}({', '.join(args)})", f"the template passes {len(roles)} arguments, the runtime constructor takes {params}", tag=f"{lang}:{fi.qual}:{ctor}:arity")
            f.part = lang
            res.bad(f)
            return
        for k, (r, p) in enumerate(zip(roles, params)):
            if r.startswith("?"):
                res.unsure(f"C4: {fi.qual}: argument {k} of {ctor} (`{args[k]}`) has no recognised provenance ({r})")
                return
            if r.startswith("lit:"):
                continue
            if p not in ROLE_EQUIV.get(r, {r}):
                f = Finding("C4", fi.rel, fi.node.lineno, fi.qual, f"{ctor}({', '.join(args)})", f"argument {k + 1} carries `{r}` but the runtime's parameter {k + 1} is `{p}`", witness="the processor tree is built with swapped extensible/capacity/nbits/field-number values", tag=f"{lang}:{fi.qual}:{ctor}:{k}")
                f.part = lang
                res.bad(f)

    # ---- Python
    pparams = py_runtime_ctor_params(repo)
    sites = [
        ("impls/py/formatter.py", "PyFormatter.format_processor_array"),
        ("impls/py/formatter.py", "PyFormatter.format_processor_int"),
        ("impls/py/formatter.py", "PyFormatter.format_processor_uint"),
        ("impls/py/renderer.py", "BlockMessageMethodProcessorFieldItem.render"),
        ("impls/py/renderer.py", "BlockMessageMethodProcessor.after"),
        ("impls/py/renderer.py", "BlockEnumMethodProcessor.render"),
        ("impls/py/renderer.py", "BlockAliasMethodProcessor.render"),
    ]
    for relsfx, qual in sites:
        try:
            fi = m.func(relsfx, qual)
        except Inconclusive as e:
            res.unsure(f"C4: {e}")
            continue
        calls = [c for c in ctor_calls_in_templates(fi.node, "bp.") if c[0] in pparams and c[0] not in ("Processor",)]
        if not calls:
            res.unsure(f"C4: {qual}: no bp.<Constructor>( template found")
            continue
        for ctor, args, node in calls:
            params = [p for p in pparams[ctor]]
            check_site("py", fi, ctor, args, params, {"field_processors": "field_processors"})
    # encode/decode contexts
    for qual, flag in (("BlockMessageMethodEncode.render", "True"), ("BlockMessageMethodDecode.render", "False")):
        fi = m.func("impls/py/renderer.py", qual)
        calls = [c for c in ctor_calls_in_templates(fi.node, "bp.") if c[0] == "ProcessContext"]
        res.inst(part="py", site=qual, ctor="ProcessContext", args=[c[1] for c in calls])
        if len(calls) != 1 or calls[0][1] != [flag, "s"] or pparams.get("ProcessContext", [])[:2] != ["is_encode", "s"]:
            f = Finding("C4", fi.rel, fi.node.lineno, qual, str(calls), f"the process context is not constructed as ProcessContext({flag}, s) against fields {pparams.get('ProcessContext')}", witness="encode() runs in decode mode", tag=f"py:{qual}:ctx")
            f.part = "py"
            res.bad(f)
        t = "\n".join(_fstring_shape(n) for n in ast.walk(fi.node) if isinstance(n, ast.JoinedStr))
        if "self.bp_processor().process(ctx, bp.NIL_DATA_INDEXER, self)" not in t:
            f = Finding("C4", fi.rel, fi.node.lineno, qual, "", "the top-level processor is not started as process(ctx, NIL_DATA_INDEXER, self)", tag=f"py:{qual}:start")
            f.part = "py"
            res.bad(f)

    # ---- Go
    try:
        gparams = go_runtime_ctor_params(repo)
        for name, (params, fields, lit) in gparams.items():
            if lit is None or not fields:
                continue
            res.inst(part="go", site=name, params=params, struct_fields=fields, literal=lit)
            # positional composite literal: k-th element is the parameter that means the k-th field
            if len(lit) == len(fields) and all(x in params for x in lit):
                for k, (x, fld) in enumerate(zip(lit, fields)):
                    if x.lower() != fld.lower():
                        f = Finding("C4", "lib/go/bitproto.go", 0, name, str(lit), f"element {k + 1} of the struct literal is parameter `{x}` but the struct's field {k + 1} is `{fld}`", witness="extensible/capacity/nbits swapped inside the Go runtime", tag=f"go:{name}:literal:{k}")
                        f.part = "go"
                        res.bad(f)
        gsites = [
            ("impls/go/formatter.py", "GoFormatter.format_processor_array", "NewArray"),
            ("impls/go/formatter.py", "GoFormatter.format_processor_int", "NewInt"),
            ("impls/go/formatter.py", "GoFormatter.format_processor_uint", "NewUint"),
            ("impls/go/renderer.py", "BlockMessageMethodBpProcessorFieldItem.render", "NewMessageFieldProcessor"),
            ("impls/go/renderer.py", "BlockMessageMethodBpProcessor.after", "NewMessageProcessor"),
            ("impls/go/renderer.py", "BlockEnumMethodBpProcessor.render", "NewEnumProcessor"),
            ("impls/go/renderer.py", "BlockAliasMethodBpProcessor.render", "NewAliasProcessor"),
        ]
        for relsfx, qual, ctor in gsites:
            try:
                fi = m.func(relsfx, qual)
            except Inconclusive as e:
                res.unsure(f"C4: {e}")
                continue
            calls = [c for c in ctor_calls_in_templates(fi.node, "bp.") if c[0] == ctor]
            if len(calls) != 1 or ctor not in gparams:
                res.unsure(f"C4: {qual}: bp.{ctor}( template / runtime function not found")
                continue
            # local names in go renderer differ: uint/processor/to
            args = calls[0][1]
            check_site("go", fi, ctor, args, gparams[ctor][0], {"fieldDescriptors": "field_processors"})
    except Inconclusive as e:
        res.unsure(f"C4: go: {e}")
    return res


# generator locals in the go renderer use other names for the same provenance
ROLE_PATTERNS += [
    (r"^self\.formatter\.format_processor_uint\(self\.d\.type\)$", "ut"),
]


@rule("G1", "the Go runtime's pure helpers reach the same normal forms as the Python runtime's")
def g1(repo: Repo) -> RuleResult:
    from .golower import GoLower
    from .gomodel import GO_RT, get_go
    from .normal import V, show
    from .symeval import PyLower

    res = RuleResult("G1", floor=3)
    m = get_model(repo)
    bp = m.mod("bitprotolib/bp.py")
    pf = {k: v.node for k, v in bp.funcs.items()}
    plw = PyLower(pf)
    try:
        g = get_go(repo)
    except Inconclusive as e:
        res.unsure(f"G1: {e}")
        return res
    glw = GoLower(g.funcs)
    pairs = [("get_mask", "getMask", ["k", "c"]), ("smart_shift", "smartShift", ["n", "k"]), ("get_nbits_to_copy", "getNbitsToCopy", ["i", "j", "n"])]
    for pn, gn, params in pairs:
        if pn not in pf or gn not in g.funcs:
            res.unsure(f"G1: {pn}/{gn} vanished")
            continue
        args = [V(p) for p in params]
        a = plw.inline(pf[pn], args, 0)
        b = glw.inline(g.funcs[gn], args, 0)
        res.inst(python=pn, go=gn, python_form=show(a), go_form=show(b))
        if a != b:
            if any(at[0] in ("opaque", "ite") for at in a.atoms() + b.atoms()):
                res.unsure(f"G1: {pn} / {gn}: a form is outside the normaliser's theory ({show(a)} vs {show(b)})")
            else:
                res.bad(Finding("G1", GO_RT, g.funcs[gn].line, gn, show(b), f"Go {gn} normalises to `{show(b)}`, Python {pn} to `{show(a)}`", witness="the Go helper returns a different value for some argument", tag=f"{gn}"))
    return res
