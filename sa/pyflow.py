"""
E10 - path-sensitive effect summaries of Python functions.

`PyFlow.run(fn, ...)` walks a function body abstractly and returns the list of
feasible control-flow paths.  Each path carries

  guards   - the conjunction of branch literals taken (canonical form, see
             `Lit`), pruned when contradictory
  effects  - the observable actions in order: calls that were not inlined,
             attribute / subscript stores, with-enter/exit, loops (with the
             paths of their body), raise
  ret      - the returned value (normalised expression, sa.normal.Poly)
  env      - final local environment

Locals are substituted away, helpers (module functions, methods of the same
class, local closures) are inlined up to a bound, `if a and b`, `not`, early
returns, swapped branches and conditional expressions all reduce to the same
set of (guards, effects) pairs.  That is what makes rules written on top of
this insensitive to renamed locals, extracted helpers and restructured
conditionals.  No concrete value is ever computed from an input.
"""

from __future__ import annotations

import ast
from typing import Any, Callable, Dict, List, Optional, Sequence, Tuple

from .core import Inconclusive, src_of
from .normal import C, Poly, V, band, bnot, bor, call, div8, mod8, opaque, pow2, shl, show, shr, trunc8, vmin

PURE_BUILTINS = {"len", "min", "max", "int", "str", "range", "isinstance", "bool", "abs", "tuple", "list", "sorted", "reversed", "enumerate", "zip", "cast", "repr", "bytearray", "bytes", "set", "frozenset", "dict", "getattr", "hasattr", "type", "id"}


class Lit:
    """Canonical branch literal: (key, truth).  Comparisons are brought to
    `d < 0`, `d <= 0` or `d == 0` with the sign of d fixed."""

    @staticmethod
    def cmp(op: str, l: Poly, r: Poly) -> Tuple[Any, bool, Optional[bool]]:
        """returns (key, truth, decided)"""
        d = l - r
        cv = d.const_value()
        if cv is not None:
            val = {"<": cv < 0, "<=": cv <= 0, "==": cv == 0, "!=": cv != 0, ">": cv > 0, ">=": cv >= 0}[op]
            return (("const",), True, val)
        # a > b == not(a <= b); a >= b == not(a < b); a != b == not(a == b)
        truth = True
        if op == ">":
            op, truth = "<=", False
        elif op == ">=":
            op, truth = "<", False
        elif op == "!=":
            op, truth = "==", False
        # fix the sign of d
        lead = None
        for m, cf in sorted(d.terms.items(), key=lambda mc: repr(mc[0])):
            if m != ():
                lead = cf
                break
        if lead is not None and lead < 0:
            d = -d
            # d < 0  <=>  -d > 0  <=> not(-d <= 0)
            if op == "<":
                op, truth = "<=", not truth
            elif op == "<=":
                op, truth = "<", not truth
        return (("cmp", op, d), truth, None)


def regions_of(op: str, truth: bool) -> set:
    base = {"<": {"lt"}, "<=": {"lt", "eq"}, "==": {"eq"}}[op]
    return set(base) if truth else {"lt", "eq", "gt"} - base


class Ev:
    """One observable action on a path."""

    __slots__ = ("kind", "name", "args", "kw", "recv", "node", "sub", "op")

    def __init__(self, kind: str, name: str, args: Sequence[Poly] = (), kw: Optional[Dict[str, Poly]] = None, recv: Optional[Poly] = None, node: Optional[ast.AST] = None, sub: Any = None, op: str = "") -> None:
        self.kind, self.name, self.args, self.kw, self.recv, self.node, self.sub, self.op = kind, name, list(args), dict(kw or {}), recv, node, sub, op

    def arg(self, i: int, name: Optional[str] = None) -> Optional[Poly]:
        if i < len(self.args):
            return self.args[i]
        if name is not None:
            return self.kw.get(name)
        return None

    def __repr__(self) -> str:
        a = ", ".join([show(x) for x in self.args] + [f"{k}={show(v)}" for k, v in self.kw.items()])
        r = f"{show(self.recv)}." if self.recv is not None else ""
        if self.kind == "loop":
            return f"loop[{self.name}]{{{'; '.join(repr(p.effects) for p in (self.sub or []))}}}"
        return f"{self.kind}:{r}{self.name}{self.op}({a})"


class Path:
    def __init__(self) -> None:
        self.guards: List[Tuple[Any, bool]] = []
        self.regions: Dict[Any, set] = {}
        self.effects: List[Ev] = []
        self.env: Dict[str, Poly] = {}
        self.ret: Optional[Poly] = None
        self.ret_node: Optional[ast.AST] = None
        self.done: Optional[str] = None  # 'return' | 'raise' | 'break' | 'continue'
        self.alloc = 0
        self.havoc = 0
        self.funcs: Dict[str, ast.FunctionDef] = {}
        self.notes: List[str] = []

    def clone(self) -> "Path":
        p = Path()
        p.guards = list(self.guards)
        p.regions = {k: set(v) for k, v in self.regions.items()}
        p.effects = list(self.effects)
        p.env = dict(self.env)
        p.ret, p.ret_node, p.done, p.alloc, p.havoc = self.ret, self.ret_node, self.done, self.alloc, self.havoc
        p.funcs = dict(self.funcs)
        p.notes = list(self.notes)
        return p

    def assume(self, key: Any, truth: bool) -> bool:
        """Add a literal; False when the path becomes infeasible."""
        if key[0] == "cmp":
            _, op, d = key
            k = ("d", d)
            cur = self.regions.get(k, {"lt", "eq", "gt"})
            new = cur & regions_of(op, truth)
            if not new:
                return False
            self.regions[k] = new
            if new == cur:
                return True  # implied, nothing new
        else:
            for k2, t2 in self.guards:
                if k2 == key:
                    return t2 == truth
        self.guards.append((key, truth))
        return True

    def implied(self, key: Any) -> Optional[bool]:
        if key[0] == "cmp":
            _, op, d = key
            cur = self.regions.get(("d", d))
            if cur is None:
                return None
            yes = regions_of(op, True)
            if cur <= yes:
                return True
            if not (cur & yes):
                return False
            return None
        for k2, t2 in self.guards:
            if k2 == key:
                return t2
        return None

    def guard_text(self) -> List[str]:
        return [show_lit(k, t) for k, t in self.guards]

    def calls(self, name: Optional[str] = None) -> List[Ev]:
        return [e for e in self.effects if e.kind == "call" and (name is None or e.name == name)]


def show_lit(key: Any, truth: bool) -> str:
    if key[0] == "cmp":
        s = f"{show(key[2])} {key[1]} 0"
    elif key[0] == "truthy":
        s = show(key[1])
    elif key[0] == "isinstance":
        s = f"isinstance({show(key[1])}, {'|'.join(key[2])})"
    elif key[0] == "in":
        s = f"{show(key[1])} in {sorted(key[2], key=repr)}"
    elif key[0] == "isnone":
        s = f"{show(key[1])} is None"
    else:
        s = repr(key)
    return s if truth else f"not({s})"


_BINOPS = {ast.Lt: "<", ast.LtE: "<=", ast.Eq: "==", ast.NotEq: "!=", ast.GtE: ">=", ast.Gt: ">"}


def S(text: str) -> Poly:
    return Poly.atom(("str", text))


def NONE() -> Poly:
    return Poly.atom(("none",))


def tpl(parts: Sequence[Any]) -> Poly:
    """String template value: literal text and holes, adjacent text merged,
    nested templates flattened."""
    out: List[Any] = []
    for x in parts:
        if isinstance(x, Poly) and len(x.terms) == 1:
            (m, cf), = x.terms.items()
            if cf == 1 and len(m) == 1 and m[0][1] == 1:
                a = m[0][0]
                if a[0] == "str":
                    x = a[1]
                elif a[0] == "tpl":
                    for y in a[1]:
                        if isinstance(y, str) and out and isinstance(out[-1], str):
                            out[-1] += y
                        else:
                            out.append(y)
                    continue
        if isinstance(x, str):
            if not x:
                continue
            if out and isinstance(out[-1], str):
                out[-1] += x
            else:
                out.append(x)
        else:
            out.append(x)
    if not out:
        return S("")
    if len(out) == 1 and isinstance(out[0], str):
        return S(out[0])
    return Poly.atom(("tpl", tuple(out)))


def str_of(p: Poly) -> Optional[str]:
    a = single_atom(p)
    if a is not None and a[0] == "str":
        return a[1]
    return None


def _plain_name(p: Poly) -> Optional[str]:
    """The identifier when the value is an unbound global name that starts with a capital (a class)."""
    a = single_atom(p)
    if a is not None and a[0] == "var" and isinstance(a[1], str) and (a[1][:1].isupper() or a[1] == "object") and a[1].replace("_", "").isalnum():
        return a[1]
    return None


def single_atom(p: Poly) -> Optional[Tuple[Any, ...]]:
    if len(p.terms) == 1:
        (m, cf), = p.terms.items()
        if cf == 1 and len(m) == 1 and m[0][1] == 1:
            return m[0][0]
    return None


def tpl_shape(p: Poly, hole: Callable[[Poly], str] = lambda h: "{" + show(h) + "}") -> Optional[str]:
    a = single_atom(p)
    if a is None:
        return None
    if a[0] == "str":
        return a[1]
    if a[0] == "tpl":
        return "".join(x if isinstance(x, str) else hole(x) for x in a[1])
    return None


def is_stringy(p: Poly) -> bool:
    a = single_atom(p)
    return a is not None and a[0] in ("str", "tpl", "join")


_LAMBDAS: Dict[str, Any] = {}

_OPERATOR_FUNCS: Dict[str, Any] = {
    "add": ast.Add, "sub": ast.Sub, "mul": ast.Mult, "floordiv": ast.FloorDiv, "truediv": ast.Div, "mod": ast.Mod,
    "lshift": ast.LShift, "rshift": ast.RShift, "and_": ast.BitAnd, "or_": ast.BitOr, "xor": ast.BitXor, "pow": ast.Pow,
}


class PyFlow:
    def __init__(
        self,
        funcs: Optional[Dict[str, ast.FunctionDef]] = None,
        methods: Optional[Dict[str, ast.FunctionDef]] = None,
        names: Optional[Dict[str, str]] = None,
        primitives: Sequence[str] = (),
        classes: Optional[Dict[str, List[str]]] = None,
        decide: Optional[Callable[[Any], Optional[bool]]] = None,
        max_paths: int = 4000,
        max_depth: int = 4,
        havoc_on: Sequence[str] = ("ctx",),
        pure: Sequence[str] = (),
        self_names: Sequence[str] = ("self", "cls", "Self"),
        method_of: Optional[Callable[[str, str], Optional[ast.FunctionDef]]] = None,
        inline_filter: Optional[Callable[[str, ast.FunctionDef], bool]] = None,
        no_havoc: Sequence[str] = (),
        consts: Optional[Dict[str, ast.AST]] = None,
        unroll: int = 40,
        typed: Optional[Dict[str, Dict[str, ast.FunctionDef]]] = None,
        stringy_calls: Sequence[str] = (),
        noreturn: Sequence[str] = (),
        follow_handlers: bool = False,
        super_targets: Optional[Dict[int, ast.FunctionDef]] = None,
        inline_props: Any = False,  # True, or a predicate (name, function) selecting the properties to see through
        value_hooks: Optional[Dict[str, Callable[[List[Poly]], Poly]]] = None,
    ) -> None:
        self.value_hooks = value_hooks or {}  # pure helpers whose value another normaliser supplies
        self.inline_props = inline_props  # self.<property> is evaluated through the property's body
        self.super_targets = super_targets or {}  # id(`super().m(...)` call node) -> next implementation in the MRO
        self.funcs = dict(funcs or {})
        self.methods = dict(methods or {})
        self.names = names or {}
        self.primitives = set(primitives)
        self.classes = classes or {}  # class name -> constructor field order
        self.decide = decide
        self.max_paths = max_paths
        self.max_depth = max_depth
        self.havoc_on = tuple(havoc_on)
        self.pure = set(pure) | PURE_BUILTINS
        self.self_names = tuple(self_names)
        self.method_of = method_of  # (receiver expression text, method name) -> function, for typed receivers
        self.inline_filter = inline_filter
        self.no_havoc = set(no_havoc)
        self.consts = consts or {}  # NAME / self.NAME -> defining expression (module / class level literals)
        self.unroll = unroll
        self._const_busy: set = set()
        self.typed = typed or {}  # receiver value (shown) -> methods of its class
        self.stringy_calls = set(stringy_calls)  # calls known to return str: `+` on their results is concatenation
        self.noreturn = set(noreturn)  # calls that end the process
        self.follow_handlers = follow_handlers

    # ------------------------------------------------------------------ API

    def run(self, fn: ast.FunctionDef, args: Optional[Dict[str, Poly]] = None, start: Optional[Path] = None, depth: int = 0) -> List[Path]:
        p = start.clone() if start is not None else Path()
        saved_env = p.env
        p.env = dict(args or {})
        if start is not None:
            # dotted state (ctx.i ...) is shared with the caller
            for k, v in saved_env.items():
                if "." in k and k not in p.env:
                    p.env[k] = v
        body = list(fn.body)
        if body and isinstance(body[0], ast.Expr) and isinstance(body[0].value, ast.Constant) and isinstance(body[0].value.value, str):
            body = body[1:]
        out = self.block(body, [p], depth)
        for q in out:
            if q.done in (None,):
                q.done = "return"
                q.ret = NONE()
        return out

    # ------------------------------------------------------------ statements

    def block(self, stmts: List[ast.stmt], paths: List[Path], depth: int) -> List[Path]:
        for st in stmts:
            nxt: List[Path] = []
            for p in paths:
                if p.done is not None:
                    nxt.append(p)
                else:
                    nxt.extend(self.stmt(st, p, depth))
            paths = nxt
            if len(paths) > self.max_paths:
                raise Inconclusive(f"more than {self.max_paths} paths")
        return paths

    def stmt(self, st: ast.stmt, p: Path, depth: int) -> List[Path]:
        if isinstance(st, ast.Expr):
            if isinstance(st.value, ast.Constant):
                return [p]
            return [q for q, _ in self.ev(st.value, p, depth, stmt_pos=True)]
        if isinstance(st, ast.Return):
            if st.value is None:
                p.done, p.ret, p.ret_node = "return", NONE(), st
                return [p]
            out = []
            for q, v in self.ev(st.value, p, depth):
                if q.done in ("raise", "exit"):
                    out.append(q)  # evaluating the value raised / ended the process (inside an inlined callee)
                    continue
                q.done, q.ret, q.ret_node = "return", v, st
                out.append(q)
            return out
        if isinstance(st, ast.Raise):
            name = ""
            if st.exc is not None:
                f = st.exc.func if isinstance(st.exc, ast.Call) else st.exc
                name = src_of(f)
                # the class may be held in a local (a row of a table of error classes)
                base = f
                while isinstance(base, ast.Attribute):
                    base = base.value
                if isinstance(base, ast.Name) and base.id in p.env:
                    ba = single_atom(p.env[base.id])
                    if ba is not None and ba[0] == "var":
                        name = ba[1] + name[len(base.id):]
            p.effects.append(Ev("raise", name, node=st))
            p.done = "raise"
            return [p]
        if isinstance(st, ast.Pass):
            return [p]
        if isinstance(st, (ast.Import, ast.ImportFrom, ast.Global, ast.Nonlocal)):
            return [p]
        if isinstance(st, ast.FunctionDef):
            p.funcs[st.name] = st
            return [p]
        if isinstance(st, ast.Assert):
            out = []
            for q, t in self.cond(st.test, p, depth):
                if t:
                    out.append(q)
            return out
        if isinstance(st, ast.AnnAssign):
            if st.value is None:
                return [p]
            return self.assign([st.target], st.value, p, depth, st)
        if isinstance(st, ast.Assign):
            return self.assign(st.targets, st.value, p, depth, st)
        if isinstance(st, ast.AugAssign):
            return self.augassign(st, p, depth)
        if isinstance(st, ast.If):
            out = []
            for q, t in self.cond(st.test, p, depth):
                out.extend(self.block(st.body if t else st.orelse, [q], depth))
            return out
        if isinstance(st, ast.With) and len(st.items) == 1 and isinstance(st.items[0].context_expr, ast.Call) and depth < self.max_depth:
            # `with self.cm(args): BODY` over a @contextmanager generator: its body with `yield` replaced by BODY
            it0 = st.items[0]
            tgt0 = self.resolve(it0.context_expr, p)
            if tgt0 is not None:
                fn0, bound0 = tgt0
                yields = [n_ for n_ in ast.walk(fn0) if isinstance(n_, (ast.Yield, ast.YieldFrom))]
                ystm = [n_ for n_ in ast.walk(fn0) if isinstance(n_, ast.Expr) and isinstance(n_.value, ast.Yield)]
                if any("contextmanager" in src_of(d_) for d_ in fn0.decorator_list) and len(yields) == 1 and len(ystm) == 1 and not it0.context_expr.keywords:
                    import copy as _copy

                    def splice_(stmts: List[ast.stmt]) -> List[ast.stmt]:
                        out_s: List[ast.stmt] = []
                        for s_ in stmts:
                            if s_ is ystm[0]:
                                if it0.optional_vars is not None and ystm[0].value.value is not None:
                                    out_s.append(ast.copy_location(ast.Assign(targets=[it0.optional_vars], value=ystm[0].value.value, lineno=st.lineno), st))
                                out_s.extend(st.body)
                                continue
                            if any(x is ystm[0] for x in ast.walk(s_)):
                                s2 = _copy.copy(s_)
                                for fld in ("body", "orelse", "finalbody"):
                                    sub_ = getattr(s_, fld, None)
                                    if isinstance(sub_, list) and sub_ and isinstance(sub_[0], ast.stmt):
                                        setattr(s2, fld, splice_(sub_))
                                out_s.append(s2)
                            else:
                                out_s.append(s_)
                        return out_s

                    body0 = [b_ for b_ in fn0.body if not (isinstance(b_, ast.Expr) and isinstance(b_.value, ast.Constant))]
                    new_body = splice_(body0)
                    outw: List[Path] = []
                    for q, args0 in self._bind_args(fn0, it0.context_expr, p, depth, bound0):
                        clobbered = {k_: q.env.get(k_) for k_ in args0}
                        q.env.update(args0)
                        for r_ in self.block(new_body, [q], depth + 1):
                            for k_, v_ in clobbered.items():
                                if v_ is None:
                                    r_.env.pop(k_, None)
                                else:
                                    r_.env[k_] = v_
                            outw.append(r_)
                    return outw
        if isinstance(st, ast.With):
            paths = [p]
            names = []
            for it in st.items:
                nxt = []
                for q in paths:
                    for q2, v in self.ev(it.context_expr, q, depth, no_effect=True):
                        q2.effects.append(Ev("enter", src_of(it.context_expr), [v], node=st))
                        if it.optional_vars is not None and isinstance(it.optional_vars, ast.Name):
                            q2.env[it.optional_vars.id] = v
                        nxt.append(q2)
                paths = nxt
                names.append(src_of(it.context_expr))
            paths = self.block(st.body, paths, depth)
            for q in paths:
                for n in reversed(names):
                    q.effects.append(Ev("exit", n, node=st))
            return paths
        if isinstance(st, (ast.For, ast.While)):
            return self.loop(st, p, depth)
        if isinstance(st, ast.Try):
            handler_paths: List[Path] = []
            if st.handlers and self.follow_handlers:
                for h in st.handlers:
                    hp = p.clone()
                    names = [src_of(h.type)] if h.type is not None and not isinstance(h.type, ast.Tuple) else [src_of(x) for x in getattr(h.type, "elts", [])]
                    hp.effects.append(Ev("except", ",".join(names) or "BaseException", node=h, sub=[src_of(c.func) for b_ in st.body for c in ast.walk(b_) if isinstance(c, ast.Call)]))
                    if h.name:
                        hp.env[h.name] = V(h.name)
                    handler_paths.extend(self.block(h.body, [hp], depth))
            elif st.handlers:
                p.notes.append("try: handlers not followed")
            paths = self.block(st.body, [p], depth) + handler_paths
            paths = self.block(st.orelse, paths, depth) if st.orelse else paths
            if not st.finalbody:
                return paths
            out_: List[Path] = []
            for q in paths:
                # the finally block runs on every exit of the body
                saved = (q.done, q.ret, q.ret_node)
                q.done, q.ret, q.ret_node = None, None, None
                for r in self.block(st.finalbody, [q], depth):
                    if r.done is None:
                        r.done, r.ret, r.ret_node = saved
                    out_.append(r)
            return out_
        if isinstance(st, ast.Break):
            p.done = "break"
            return [p]
        if isinstance(st, ast.Continue):
            p.done = "continue"
            return [p]
        if isinstance(st, ast.Delete):
            return [p]
        p.effects.append(Ev("other", type(st).__name__, node=st))
        return [p]

    def _assigned_names(self, stmts: List[ast.stmt]) -> List[str]:
        out = []
        for s in stmts:
            for n in ast.walk(s):
                if isinstance(n, (ast.Assign, ast.AugAssign, ast.AnnAssign)):
                    tg = n.targets if isinstance(n, ast.Assign) else [n.target]
                    for t in tg:
                        elts = t.elts if isinstance(t, (ast.Tuple, ast.List)) else [t]
                        for x in elts:
                            if isinstance(x, ast.Name):
                                out.append(x.id)
                            elif isinstance(x, ast.Attribute):
                                out.append(src_of(x))
                elif isinstance(n, ast.For):
                    for x in ast.walk(n.target):
                        if isinstance(x, ast.Name):
                            out.append(x.id)
                elif isinstance(n, ast.Call) and isinstance(n.func, ast.Name) and n.func.id in ("__preinc__", "__postinc__") and n.args and isinstance(n.args[0], ast.Constant):
                    out.append(str(n.args[0].value))
        return out

    def loop(self, st: ast.stmt, p: Path, depth: int) -> List[Path]:
        out = []
        if isinstance(st, ast.For):
            heads = self.ev(st.iter, p, depth)
        else:
            heads = [(p, C(0))]
        for q, it in heads:
            rows_ = self._rows(it) if isinstance(st, ast.For) else None
            if rows_ is not None and not st.orelse:
                # a loop over a literal table / a constant range is unrolled
                state = [q]
                for row in rows_:
                    nxt: List[Path] = []
                    for s_ in state:
                        if s_.done is not None:
                            nxt.append(s_)
                            continue
                        self._bind_loop_target(st.target, row, s_)
                        for r_ in self.block(st.body, [s_], depth):
                            if r_.done == "continue":
                                r_.done = None
                            nxt.append(r_)
                    state = nxt
                for s_ in state:
                    if s_.done == "break":
                        s_.done = None
                out.extend(state)
                continue
            # a while loop whose test is decided outright at every iteration (a descent through a type
            # chain under a scenario that fixes the classes) is executed iteration by iteration
            if isinstance(st, ast.While) and not st.orelse:
                s_ = q.clone()
                done_ = None
                for _it in range(8):
                    n_guards = len(s_.guards)
                    cs = self.cond(st.test, s_, depth)
                    if len(cs) != 1 or len(cs[0][0].guards) != n_guards + 0 and not self._decided_tail(cs[0][0], n_guards):
                        break
                    s2, t_ = cs[0]
                    if not t_:
                        done_ = s2
                        break
                    bp_ = self.block(st.body, [s2], depth)
                    if len(bp_) != 1 or bp_[0].done is not None:
                        break
                    s_ = bp_[0]
                if done_ is not None:
                    out.append(done_)
                    continue
            # variables assigned in the body are unknown inside and after the loop
            assigned = self._assigned_names(st.body)
            saved_vals = {n: q.env.get(n) for n in assigned}
            q.havoc += 1
            tag = f"@L{q.havoc}"
            inner = q.clone()
            inner.effects = []
            inner.guards = list(q.guards)
            for n in assigned:
                inner.env[n] = V(self.names.get(n, n) + tag)
            if isinstance(st, ast.For):
                for x in ast.walk(st.target):
                    if isinstance(x, ast.Name):
                        inner.env[x.id] = V(x.id)
                test_lits: List[Tuple[Any, bool]] = []
                body_paths = self.block(st.body, [inner], depth)
            else:
                body_paths = []
                test_lits = []
                for q2, t in self.cond(st.test, inner, depth):
                    if t:
                        body_paths.extend(self.block(st.body, [q2], depth))
            # calls in the body may move the cursor
            for bp in body_paths:
                if bp.done in ("continue", "break"):
                    bp.done = None
            name = "for" if isinstance(st, ast.For) else "while"
            ev = Ev("loop", name, [it], {k_: v_ for k_, v_ in saved_vals.items() if v_ is not None and "." not in k_}, node=st, sub=body_paths, op=tag)
            q.effects.append(ev)
            for n in assigned:
                q.env[n] = V(self.names.get(n, n) + tag + "'")
            # accumulation:  acc += f(x)  on the single body path  ->  acc = old + sum over the iterable
            if isinstance(st, ast.For) and len(body_paths) == 1 and body_paths[0].done is None:
                bp0 = body_paths[0]
                tn = [x.id for x in ast.walk(st.target) if isinstance(x, ast.Name)]
                for n in assigned:
                    if "." in n or n in tn:
                        continue
                    start_ = V(self.names.get(n, n) + tag)
                    end_ = bp0.env.get(n)
                    if end_ is None:
                        continue
                    delta = end_ - start_
                    names_in = {a_[1] for a_ in _atoms_of(delta) if a_[0] == "var"}
                    if (self.names.get(n, n) + tag) in names_in or any(x.endswith(tag) for x in names_in):
                        continue
                    for i_, x in enumerate(tn):
                        delta = rename_prefix(delta, x, f"${i_}")
                    old_ = saved_vals.get(n)
                    if old_ is not None:
                        q.env[n] = old_ + Poly.atom(("sumloop", delta, it))
            if any(self._path_havocs(bp) for bp in body_paths):
                self._havoc(q)
            returning = [bp for bp in body_paths if bp.done in ("return", "raise")]
            for bp in returning:
                r = q.clone()
                r.guards = list(bp.guards)
                r.regions = {k: set(v) for k, v in bp.regions.items()}
                r.done, r.ret, r.ret_node = bp.done, bp.ret, bp.ret_node
                if bp.done == "raise":
                    r.effects.extend(e for e in bp.effects if e.kind == "raise")
                r.notes.append("exit from inside a loop")
                out.append(r)
            if isinstance(st, (ast.For, ast.While)) and st.orelse:
                out.extend(self.block(st.orelse, [q], depth))
            else:
                out.append(q)
        return out

    def _decided_tail(self, p: Path, n: int) -> bool:
        """every literal the path gained since index n is one the decide hook settles by itself"""
        if self.decide is None:
            return False
        for k, t in p.guards[n:]:
            d = self.decide(k)
            if d is None or d != t:
                return False
        return True

    def _rows(self, it: Poly) -> Optional[List[Poly]]:
        """Elements of a literal tuple / range(const) iterable."""
        a = single_atom(it)
        if a is None:
            return None
        if a[0] == "tuple" and len(a[1]) <= self.unroll:
            return list(a[1])
        if a[0] == "call" and a[1] == "range" and len(a[2]) == 1:
            n = a[2][0].const_value()
            if n is not None and 0 <= n <= self.unroll:
                return [C(i) for i in range(n)]
        if a[0] == "call" and a[1] == "reversed" and len(a[2]) == 1:
            inner = self._rows(a[2][0])
            return list(reversed(inner)) if inner is not None else None
        if a[0] == "call" and a[1] in ("list", "tuple", "iter") and len(a[2]) == 1:
            return self._rows(a[2][0])
        if a[0] == "call" and a[1] == "enumerate" and len(a[2]) == 1:
            inner = self._rows(a[2][0])
            return [Poly.atom(("tuple", (C(i), x))) for i, x in enumerate(inner)] if inner is not None else None
        return None

    def _bind_loop_target(self, t: ast.AST, v: Poly, q: Path) -> None:
        if isinstance(t, ast.Name):
            q.env[t.id] = v
        elif isinstance(t, (ast.Tuple, ast.List)):
            a = single_atom(v)
            for i, x in enumerate(t.elts):
                if a is not None and a[0] == "tuple" and i < len(a[1]):
                    self._bind_loop_target(x, a[1][i], q)
                else:
                    self._bind_loop_target(x, Poly.atom(("item", v, i)), q)

    def _path_havocs(self, bp: Path) -> bool:
        return any(e.kind == "call" and e.sub == "havoc" for e in bp.effects) or any(e.kind == "loop" and any(self._path_havocs(x) for x in (e.sub or [])) for e in bp.effects)

    def _havoc(self, p: Path) -> None:
        p.havoc += 1
        for k in list(p.env):
            if any(k.startswith(h + ".") for h in self.havoc_on):
                p.env[k] = V(f"{self.names.get(k, k)}#{p.havoc}")
        for h in self.havoc_on:
            p.env.setdefault(f"{h}.i", V(f"{self.names.get(h + '.i', h + '.i')}#{p.havoc}"))
            p.env[f"{h}.i"] = V(f"{self.names.get(h + '.i', h + '.i')}#{p.havoc}")

    def assign(self, targets: List[ast.AST], value: ast.AST, p: Path, depth: int, node: ast.stmt) -> List[Path]:
        out = []
        # tuple-to-tuple assignment evaluates element-wise
        if len(targets) == 1 and isinstance(targets[0], ast.Tuple) and isinstance(value, ast.Tuple) and len(targets[0].elts) == len(value.elts):
            paths = [(p, [])]
            for v in value.elts:
                nxt = []
                for q, acc in paths:
                    for q2, x in self.ev(v, q, depth):
                        nxt.append((q2, acc + [x]))
                paths = nxt
            for q, vals in paths:
                for t, x in zip(targets[0].elts, vals):
                    self._bind(t, x, q, node)
                out.append(q)
            return out
        for q, v in self.ev(value, p, depth):
            for t in targets:
                self._bind(t, v, q, node)
            out.append(q)
        return out

    def _attr_key(self, t: ast.Attribute, q: Path) -> str:
        """`recv.attr` spelled through what the receiver is bound to (inside an inlined method of
        a typed receiver `self` is the caller's object)"""
        d = src_of(t)
        if isinstance(t.value, ast.Name) and t.value.id in q.env:
            ra = single_atom(q.env[t.value.id])
            if ra is not None and ra[0] == "var" and ra[1] != t.value.id and ra[1] in self.typed:
                return f"{ra[1]}.{t.attr}"
        return d

    def _bind(self, t: ast.AST, v: Poly, q: Path, node: ast.AST) -> None:
        if isinstance(t, ast.Name):
            q.env[t.id] = v
        elif isinstance(t, ast.Attribute):
            d = self._attr_key(t, q)
            old = q.env.get(d, V(self.names.get(d, d)))
            q.effects.append(Ev("setattr", self.names.get(d, d), [v], {"old": old}, node=node, op="="))
            q.env[d] = v
        elif isinstance(t, ast.Subscript):
            base = self._pure(t.value, q)
            idx = self._pure(t.slice, q)
            q.effects.append(Ev("store", show(base), [idx, v], recv=base, node=node, op="="))
        elif isinstance(t, (ast.Tuple, ast.List)):
            ta = single_atom(v)
            for i, x in enumerate(t.elts):
                if ta is not None and ta[0] == "tuple" and len(ta[1]) == len(t.elts):
                    self._bind(x, ta[1][i], q, node)
                else:
                    self._bind(x, Poly.atom(("item", v, i)), q, node)

    def _const(self, name: str, p: Path) -> Optional[Poly]:
        if name not in self.consts or name in self._const_busy:
            return None
        d = self.consts[name]
        wrapped_literal = isinstance(d, ast.Call) and isinstance(d.func, ast.Name) and len(d.args) == 1 and not d.keywords and isinstance(d.args[0], (ast.Tuple, ast.List, ast.Set, ast.Dict))
        if not isinstance(d, (ast.Tuple, ast.List, ast.Constant, ast.Set, ast.Dict, ast.BinOp, ast.Name)) and not wrapped_literal:
            return None
        self._const_busy.add(name)
        try:
            q = Path()
            r = self.ev(d, q, self.max_depth, no_effect=True)
        finally:
            self._const_busy.discard(name)
        return r[0][1] if len(r) == 1 else None

    def _pure(self, e: ast.AST, q: Path) -> Poly:
        r = self.ev(e, q, self.max_depth, no_effect=True)
        return r[0][1] if len(r) == 1 else opaque(src_of(e))

    def augassign(self, st: ast.AugAssign, p: Path, depth: int) -> List[Path]:
        out = []
        opname = {ast.Add: "+=", ast.Sub: "-=", ast.BitOr: "|=", ast.BitAnd: "&=", ast.LShift: "<<=", ast.RShift: ">>=", ast.Mult: "*="}.get(type(st.op), "?=")
        for q, v in self.ev(st.value, p, depth):
            t = st.target
            if isinstance(t, ast.Name):
                old = q.env.get(t.id, V(self.names.get(t.id, t.id)))
                q.env[t.id] = self.binop(st.op, old, v, st)
            elif isinstance(t, ast.Attribute):
                d = self._attr_key(t, q)
                old = q.env.get(d, V(self.names.get(d, d)))
                new = self.binop(st.op, old, v, st)
                q.effects.append(Ev("setattr", self.names.get(d, d), [v, new], {"old": old}, node=st, op=opname))
                q.env[d] = new
            elif isinstance(t, ast.Subscript):
                base = self._pure(t.value, q)
                ri = self.ev(t.slice, q, depth, no_effect=True)
                idx = ri[0][1] if len(ri) == 1 else self._pure(t.slice, q)
                q.effects.append(Ev("store", show(base), [idx, v], recv=base, node=st, op=opname))
            out.append(q)
        return out

    # ----------------------------------------------------------- conditions

    def cond(self, e: ast.AST, p: Path, depth: int) -> List[Tuple[Path, bool]]:
        if isinstance(e, ast.UnaryOp) and isinstance(e.op, ast.Not):
            return [(q, not t) for q, t in self.cond(e.operand, p, depth)]
        if isinstance(e, ast.BoolOp):
            is_and = isinstance(e.op, ast.And)
            live: List[Path] = [p]
            done: List[Tuple[Path, bool]] = []
            for v in e.values:
                nxt: List[Path] = []
                for q in live:
                    for q2, t in self.cond(v, q, depth):
                        if t == is_and:
                            nxt.append(q2)
                        else:
                            done.append((q2, not is_and))
                live = nxt
            return done + [(q, is_and) for q in live]
        if isinstance(e, ast.Constant):
            return [(p, bool(e.value))]
        if isinstance(e, ast.Compare) and len(e.ops) == 1:
            op = e.ops[0]
            out: List[Tuple[Path, bool]] = []
            for q, l in self.ev(e.left, p, depth):
                for q2, r in self.ev(e.comparators[0], q, depth):
                    if type(op) in _BINOPS and not (is_stringy(l) or is_stringy(r) or _is_none(l) or _is_none(r)):
                        key, truth, decided = Lit.cmp(_BINOPS[type(op)], l, r)
                        if decided is not None:
                            out.append((q2, decided))
                            continue
                        out.extend(self._fork(q2, key, truth))
                    elif isinstance(op, (ast.Is, ast.IsNot, ast.Eq, ast.NotEq)):
                        neg = isinstance(op, (ast.IsNot, ast.NotEq))
                        if _is_none(r) or _is_none(l):
                            x = l if _is_none(r) else r
                            if _is_none(x):
                                out.append((q2, not neg))
                                continue
                            a = single_atom(x)
                            if a is not None and a[0] in ("str", "tpl", "new") or x.const_value() is not None or _plain_name(x) is not None:
                                out.append((q2, neg))
                                continue
                            out.extend(self._fork(q2, ("isnone", x), not neg))
                        else:
                            sl, sr = str_of(l), str_of(r)
                            if sl is not None and sr is not None:
                                out.append((q2, (sl == sr) != neg))
                            elif l.const_value() is not None and r.const_value() is not None:
                                out.append((q2, (l.const_value() == r.const_value()) != neg))
                            elif (sl is not None and r.const_value() is not None) or (sr is not None and l.const_value() is not None):
                                out.append((q2, neg))
                            else:
                                a, b = sorted([l, r], key=lambda z: repr(z.key()))
                                kind_ = "is" if isinstance(op, (ast.Is, ast.IsNot)) else "eq"
                                if isinstance(e.comparators[0], ast.Constant) and isinstance(e.comparators[0].value, bool) or isinstance(e.left, ast.Constant) and isinstance(e.left.value, bool):
                                    kind_ += "bool"
                                out.extend(self._fork(q2, (kind_, a, b), not neg))
                    elif isinstance(op, (ast.In, ast.NotIn)):
                        neg = isinstance(op, ast.NotIn)
                        a = single_atom(r)
                        if a is not None and a[0] == "tuple" and all(x.const_value() is not None or str_of(x) is not None for x in a[1]):
                            members = frozenset(x.const_value() if x.const_value() is not None else str_of(x) for x in a[1])
                            cv = l.const_value() if l.const_value() is not None else str_of(l)
                            if cv is not None:
                                out.append((q2, (cv in members) != neg))
                            else:
                                out.extend(self._fork(q2, ("in", l, members), not neg))
                        elif a is not None and a[0] in ("dict", "tuple") and _plain_name(l) is not None and all(_plain_name(x) is not None for x in a[1]) and len({_plain_name(x) for x in a[1]}) == len(a[1]):
                            # membership of a class / function name in a table keyed by distinct names
                            out.append((q2, (_plain_name(l) in {_plain_name(x) for x in a[1]}) != neg))
                        else:
                            out.extend(self._fork(q2, ("contains", r, l), not neg))
                    else:
                        out.extend(self._fork(q2, ("truthy", opaque(src_of(e))), True))
            return out
        if isinstance(e, ast.Compare):
            # a < b <= c
            parts = []
            left = e.left
            for op, right in zip(e.ops, e.comparators):
                parts.append(ast.Compare(left=left, ops=[op], comparators=[right]))
                left = right
            return self.cond(ast.BoolOp(op=ast.And(), values=parts), p, depth)
        if isinstance(e, ast.Call) and isinstance(e.func, ast.Name) and e.func.id == "isinstance" and len(e.args) == 2:
            out = []
            for q, x in self.ev(e.args[0], p, depth):
                names = tuple(sorted(self._class_names(e.args[1], q)))
                out.extend(self._fork(q, ("isinstance", x, names), True))
            return out
        if isinstance(e, ast.Call) and isinstance(e.func, ast.Name) and e.func.id == "bool" and len(e.args) == 1:
            return self.cond(e.args[0], p, depth)
        if isinstance(e, ast.Call):
            tgt = self.resolve(e, p)
            if tgt is not None and depth < self.max_depth:
                fn, bound = tgt
                out = []
                for q, args in self._bind_args(fn, e, p, depth, bound):
                    saved = q.env
                    for r in self.run_unevaluated(fn, args, q, depth + 1):
                        rq, rexpr = r
                        if rexpr is None:
                            rq.env = self._restore(saved, rq.env)
                            out.append((rq, False))
                            continue
                        for cq, t in self.cond(rexpr, rq, depth + 1):
                            cq.env = self._restore(saved, cq.env)
                            out.append((cq, t))
                return out
        if isinstance(e, ast.IfExp):
            out = []
            for q, t in self.cond(e.test, p, depth):
                out.extend(self.cond(e.body if t else e.orelse, q, depth))
            return out
        out = []
        for q, v in self.ev(e, p, depth):
            cv = v.const_value()
            if cv is not None:
                out.append((q, bool(cv)))
                continue
            s = str_of(v)
            if s is not None:
                out.append((q, bool(s)))
                continue
            ta = single_atom(v)
            if ta is not None and ta[0] == "tpl" and any(isinstance(x, str) and x for x in ta[1]):
                out.append((q, True))
                continue
            if ta is not None and ta[0] == "tuple":
                out.append((q, bool(ta[1])))
                continue
            if ta is not None and ta[0] == "new":
                out.append((q, True))
                continue
            if _is_none(v):
                out.append((q, False))
                continue
            out.extend(self._fork(q, ("truthy", v), True))
        return out

    def _restore(self, saved: Dict[str, Poly], callee_env: Dict[str, Poly]) -> Dict[str, Poly]:
        env = dict(saved)
        for k, v in callee_env.items():
            if "." in k and any(k.startswith(h + ".") for h in self.havoc_on):
                env[k] = v
        return env

    def _class_names(self, e: ast.AST, q: Path) -> List[str]:
        if isinstance(e, ast.Tuple):
            out: List[str] = []
            for x in e.elts:
                out.extend(self._class_names(x, q))
            return out
        if isinstance(e, ast.Name) and e.id in q.env:
            a = single_atom(q.env[e.id])
            if a is not None and a[0] == "var":
                return [a[1]]
            if a is not None and a[0] == "tuple":
                return [show(x) for x in a[1]]
            return [show(q.env[e.id])]
        if isinstance(e, (ast.Attribute, ast.Call, ast.Subscript)):
            r = self.ev(e, q, self.max_depth, no_effect=True)
            if len(r) == 1:
                return [show(r[0][1])]
        return [src_of(e)]

    def _fork(self, p: Path, key: Any, truth: bool) -> List[Tuple[Path, bool]]:
        """Branch on literal (key == truth): returns [(path, True)] when the
        literal holds, [(path, False)] when not, both when undecided."""
        if self.decide is not None:
            d = self.decide(key)
            if d is not None:
                return [(p, d == truth)]
        imp = p.implied(key)
        if imp is not None:
            return [(p, imp == truth)]
        a, b = p, p.clone()
        out = []
        if a.assume(key, truth):
            out.append((a, True))
        if b.assume(key, not truth):
            out.append((b, False))
        return out

    # ----------------------------------------------------------- expressions

    def binop(self, op: ast.operator, l: Poly, r: Poly, node: ast.AST) -> Poly:
        if isinstance(op, ast.Add):
            if is_stringy(l) or is_stringy(r) or self._str_call(l) or self._str_call(r):
                return tpl([l, r])
            return l + r
        if isinstance(op, ast.Sub):
            return l - r
        if isinstance(op, ast.Mult):
            return l * r
        if isinstance(op, ast.LShift):
            return shl(l, r)
        if isinstance(op, ast.RShift):
            return shr(l, r)
        if isinstance(op, ast.FloorDiv):
            if r.const_value() == 8:
                return div8(l)
            return call("floordiv", l, r)
        if isinstance(op, ast.Div):
            return call("truediv", l, r)
        if isinstance(op, ast.Mod):
            if is_stringy(l):
                return Poly.atom(("fmt%", l, r))
            if r.const_value() == 8:
                return mod8(l)
            return call("mod", l, r)
        if isinstance(op, ast.BitAnd):
            return band([l, r])
        if isinstance(op, ast.BitOr):
            return bor([l, r])
        if isinstance(op, ast.Pow) and l.const_value() == 2:
            return pow2(r)
        return opaque(src_of(node))

    def _str_call(self, v: Poly) -> bool:
        a = single_atom(v)
        return a is not None and a[0] in ("call", "mcall") and a[1] in self.stringy_calls

    def ev_many(self, es: Sequence[ast.AST], p: Path, depth: int, **kw: Any) -> List[Tuple[Path, List[Poly]]]:
        paths: List[Tuple[Path, List[Poly]]] = [(p, [])]
        for e in es:
            nxt = []
            for q, acc in paths:
                for q2, v in self.ev(e, q, depth, **kw):
                    nxt.append((q2, acc + [v]))
            paths = nxt
        return paths

    def ev(self, e: ast.AST, p: Path, depth: int, stmt_pos: bool = False, no_effect: bool = False) -> List[Tuple[Path, Poly]]:
        if isinstance(e, ast.Constant):
            v = e.value
            if isinstance(v, bool):
                return [(p, C(int(v)))]
            if isinstance(v, int):
                return [(p, C(v))]
            if isinstance(v, str):
                return [(p, S(v))]
            if v is None:
                return [(p, NONE())]
            return [(p, opaque(repr(v)))]
        if isinstance(e, ast.Name):
            if e.id in p.env:
                return [(p, p.env[e.id])]
            cv = self._const(e.id, p)
            if cv is not None:
                return [(p, cv)]
            return [(p, V(self.names.get(e.id, e.id)))]
        if isinstance(e, ast.Attribute):
            d = src_of(e)
            if d in p.env:
                return [(p, p.env[d])]
            if isinstance(e.value, ast.Name) and e.value.id in self.self_names:
                cv = self._const(e.attr, p)
                if cv is not None:
                    return [(p, cv)]
                if self.inline_props and depth < self.max_depth:
                    ms = self.typed.get(e.value.id) or self.methods
                    fn_ = ms.get(e.attr)
                    if fn_ is not None and any("property" in src_of(d_) for d_ in fn_.decorator_list) and e.attr not in self.primitives and (self.inline_filter is None or self.inline_filter(e.attr, fn_)) and (self.inline_props is True or self.inline_props(e.attr, fn_)):
                        call_ = ast.copy_location(ast.Call(func=e, args=[], keywords=[]), e)
                        return self.call(call_, p, depth, False, no_effect)
            if self.inline_props is True and isinstance(e.value, ast.Name) and depth < self.max_depth:
                # a property of a typed receiver (ctx.bit_offset)
                rv_ = p.env.get(e.value.id, V(e.value.id))
                ra_ = single_atom(rv_)
                if ra_ is not None and ra_[0] == "var" and ra_[1] in self.typed and e.value.id not in self.self_names:
                    fn_ = self.typed[ra_[1]].get(e.attr)
                    if fn_ is not None and any("property" in src_of(d_) for d_ in fn_.decorator_list) and (self.inline_filter is None or self.inline_filter(e.attr, fn_)):
                        call_ = ast.copy_location(ast.Call(func=e, args=[], keywords=[]), e)
                        return self.call(call_, p, depth, False, no_effect)
            if isinstance(e.value, ast.Name) and e.value.id in p.env and e.value.id in self.self_names:
                # inside an inlined method of a typed receiver: self.i is the caller's ctx.i
                ra_ = single_atom(p.env[e.value.id])
                if ra_ is not None and ra_[0] == "var" and ra_[1] != e.value.id and ra_[1] in self.typed:
                    d2 = f"{ra_[1]}.{e.attr}"
                    if d2 in p.env:
                        return [(p, p.env[d2])]
                    return [(p, V(self.names.get(d2, d2)))]
            if isinstance(e.value, ast.Name) and e.value.id not in p.env:
                cv = self._const(d, p)
                if cv is not None:
                    return [(p, cv)]
                return [(p, V(self.names.get(d, d)))]
            out = []
            for q, b in self.ev(e.value, p, depth, no_effect=no_effect):
                a = single_atom(b)
                if a is not None and a[0] == "var":
                    nm = f"{a[1]}.{e.attr}"
                    out.append((q, q.env.get(nm, V(self.names.get(nm, nm)))))
                else:
                    out.append((q, Poly.atom(("attr", b, e.attr))))
            return out
        if isinstance(e, ast.UnaryOp):
            if isinstance(e.op, ast.Not):
                return [(q, C(int(t))) for q, t in self.cond(e, p, depth)]
            out = []
            for q, v in self.ev(e.operand, p, depth, no_effect=no_effect):
                if isinstance(e.op, ast.USub):
                    out.append((q, -v))
                elif isinstance(e.op, ast.Invert):
                    out.append((q, bnot(v)))
                else:
                    out.append((q, v))
            return out
        if isinstance(e, ast.BinOp):
            out = []
            for q, l in self.ev(e.left, p, depth, no_effect=no_effect):
                for q2, r in self.ev(e.right, q, depth, no_effect=no_effect):
                    out.append((q2, self.binop(e.op, l, r, e)))
            return out
        if isinstance(e, ast.BoolOp) and not all(isinstance(v, (ast.Compare, ast.BoolOp)) or (isinstance(v, ast.UnaryOp) and isinstance(v.op, ast.Not)) for v in e.values):
            # value semantics: `a or b` is a when a is truthy, else b; `a and b` is a when a is falsy, else b
            is_or = isinstance(e.op, ast.Or)
            out = []
            live = [p]
            for i, v in enumerate(e.values):
                if i == len(e.values) - 1:
                    for q in live:
                        out.extend(self.ev(v, q, depth, no_effect=no_effect))
                    break
                nxt = []
                for q in live:
                    for q2, t in self.cond(v, q, depth):
                        if t == is_or:
                            vv = self.ev(v, q2, depth, no_effect=True)
                            if len(vv) == 1:
                                out.append((vv[0][0], vv[0][1]))
                            else:
                                out.append((q2, opaque(src_of(v))))
                        else:
                            nxt.append(q2)
                live = nxt
            return out
        if isinstance(e, (ast.BoolOp, ast.Compare)):
            return [(q, C(int(t))) for q, t in self.cond(e, p, depth)]
        if isinstance(e, ast.Lambda) and not e.args.vararg and not e.args.kwarg and not e.args.kwonlyargs:
            # a function value: called later through the local / table entry that holds it
            key_l = f"{getattr(e, 'lineno', 0)}:{getattr(e, 'col_offset', 0)}:{id(e)}"
            _LAMBDAS[key_l] = (e, {k_: v_ for k_, v_ in p.env.items() if k_ in self.self_names})
            return [(p, Poly.atom(("lambda", key_l)))]
        if isinstance(e, ast.IfExp):
            out = []
            for q, t in self.cond(e.test, p, depth):
                out.extend(self.ev(e.body if t else e.orelse, q, depth, no_effect=no_effect))
            return out
        if isinstance(e, ast.JoinedStr):
            holes = [v.value for v in e.values if isinstance(v, ast.FormattedValue)]
            out = []
            for q, vals in self.ev_many(holes, p, depth, no_effect=no_effect):
                parts: List[Any] = []
                it = iter(vals)
                for v in e.values:
                    if isinstance(v, ast.Constant):
                        parts.append(str(v.value))
                    else:
                        x = next(it)
                        parts.append(x)
                out.append((q, tpl(parts)))
            return out
        if isinstance(e, (ast.Tuple, ast.List, ast.Set)):
            return [(q, Poly.atom(("tuple", tuple(vals)))) for q, vals in self.ev_many(e.elts, p, depth, no_effect=no_effect)]
        if isinstance(e, ast.Dict) and all(k is not None for k in e.keys):
            out = []
            for q, ks in self.ev_many([k for k in e.keys if k is not None], p, depth, no_effect=no_effect):
                for q2, vs in self.ev_many(e.values, q, depth, no_effect=no_effect):
                    out.append((q2, Poly.atom(("dict", tuple(ks), tuple(vs)))))
            return out
        if isinstance(e, ast.Subscript):
            if src_of(e) in self.names:
                return [(p, V(self.names[src_of(e)]))]
            out = []
            for q, b in self.ev(e.value, p, depth, no_effect=no_effect):
                if isinstance(e.slice, ast.Slice):
                    # bounds by value, not by spelling: x[:n] with n = p.lexpos(k) is x[:p.lexpos(k)]
                    states: List[Tuple[Path, List[Optional[Poly]]]] = [(q, [])]
                    for part in (e.slice.lower, e.slice.upper, e.slice.step):
                        nxt: List[Tuple[Path, List[Optional[Poly]]]] = []
                        for q_, got in states:
                            if part is None:
                                nxt.append((q_, got + [None]))
                            else:
                                for q3, v_ in self.ev(part, q_, depth, no_effect=no_effect):
                                    nxt.append((q3, got + [v_]))
                        states = nxt
                    for q_, (lo_, hi_, st_) in states:
                        txt = ("" if lo_ is None else show(lo_)) + ":" + ("" if hi_ is None else show(hi_)) + ("" if st_ is None else ":" + show(st_))
                        out.append((q_, Poly.atom(("slice", b, txt, (lo_, hi_, st_)))))
                    continue
                for q2, i in self.ev(e.slice, q, depth, no_effect=no_effect):
                    a = single_atom(b)
                    if a is not None and a[0] == "dict" and any(k_ == i for k_ in a[1]):
                        out.append((q2, a[2][[k_ == i for k_ in a[1]].index(True)]))
                    elif a is not None and a[0] == "tuple" and i.const_value() is not None and 0 <= i.const_value() < len(a[1]):
                        out.append((q2, a[1][i.const_value()]))
                    else:
                        base = a[1] if a is not None and a[0] == "var" else b
                        out.append((q2, Poly.atom(("load", base, i))))
            return out
        if isinstance(e, ast.Call):
            return self.call(e, p, depth, stmt_pos, no_effect)
        if isinstance(e, (ast.GeneratorExp, ast.ListComp)) and len(e.generators) == 1 and e.generators[0].ifs and not e.generators[0].is_async:
            # a filtered comprehension over a literal table: unrolled row by row, the filter forks the path
            g = e.generators[0]
            heads = self.ev(g.iter, p, depth, no_effect=no_effect)
            if all(self._rows(it) is not None for _, it in heads):
                out = []
                for q, it in heads:
                    acc2: List[Tuple[Path, List[Poly]]] = [(q, [])]
                    for row in self._rows(it) or []:
                        nxt2: List[Tuple[Path, List[Poly]]] = []
                        for q2, vals in acc2:
                            self._bind_loop_target(g.target, row, q2)
                            live2 = [(q2, True)]
                            for c_ in g.ifs:
                                nl = []
                                for q3, ok_ in live2:
                                    if not ok_:
                                        nl.append((q3, False))
                                        continue
                                    nl.extend(self.cond(c_, q3, depth))
                                live2 = nl
                            for q3, ok_ in live2:
                                if ok_:
                                    for q4, v in self.ev(e.elt, q3, depth, no_effect=no_effect):
                                        nxt2.append((q4, vals + [v]))
                                else:
                                    nxt2.append((q3, vals))
                        acc2 = nxt2
                    for q2, vals in acc2:
                        out.append((q2, Poly.atom(("tuple", tuple(vals)))))
                return out
        if isinstance(e, (ast.GeneratorExp, ast.ListComp)) and len(e.generators) == 1 and not e.generators[0].ifs and not e.generators[0].is_async:
            g = e.generators[0]
            out = []
            for q, it in self.ev(g.iter, p, depth, no_effect=no_effect):
                rows = self._rows(it)
                if rows is None:
                    inner = q.clone()
                    inner.effects = []
                    tnames = [x.id for x in ast.walk(g.target) if isinstance(x, ast.Name)]
                    for x in tnames:
                        inner.env[x] = V(x)
                    evs = self.ev(e.elt, inner, depth, no_effect=no_effect)
                    subs = [r_[0] for r_ in evs]
                    if any(sp.effects for sp in subs) and not no_effect:
                        q.effects.append(Ev("loop", "comp", [it], node=e, sub=subs))
                    if len(evs) == 1:
                        ev_ = evs[0][1]
                        for i_, x in enumerate(tnames):
                            ev_ = rename_prefix(ev_, x, f"${i_}")
                        out.append((q, Poly.atom(("comp", ev_, ",".join(f"${i_}" for i_ in range(len(tnames))), it))))
                    else:
                        out.append((q, Poly.atom(("comp", src_of(e.elt), src_of(g.target), it))))
                    continue
                acc: List[Tuple[Path, List[Poly]]] = [(q, [])]
                for row in rows:
                    nxt = []
                    for q2, vals in acc:
                        saved = dict(q2.env)
                        self._bind_loop_target(g.target, row, q2)
                        for q3, v in self.ev(e.elt, q2, depth, no_effect=no_effect):
                            q3.env = {**q3.env, **{k: saved[k] for k in saved}} if False else q3.env
                            nxt.append((q3, vals + [v]))
                    acc = nxt
                for q2, vals in acc:
                    out.append((q2, Poly.atom(("tuple", tuple(vals)))))
            return out
        if isinstance(e, ast.Lambda):
            return [(p, opaque("lambda:" + src_of(e)))]
        if isinstance(e, ast.Starred):
            # *args at a call site: the value that is spread (rebinding of the name is seen)
            return [(q, call("__star__", v)) for q, v in self.ev(e.value, p, depth, no_effect=no_effect)]
        return [(p, opaque(src_of(e)))]

    # ----------------------------------------------------------------- calls

    def resolve(self, e: ast.Call, p: Path) -> Optional[Tuple[ast.FunctionDef, Optional[Poly]]]:
        f = e.func
        if isinstance(f, ast.Attribute) and isinstance(f.value, ast.Call) and isinstance(f.value.func, ast.Name) and f.value.func.id == "super" and not f.value.args:
            fn = self.super_targets.get(id(e))
            if fn is not None and f.attr not in self.primitives and (self.inline_filter is None or self.inline_filter(f.attr, fn)):
                nm = next((n for n in self.self_names if n in p.env), "self" if "self" in self.self_names or not self.self_names else self.self_names[0])
                return fn, p.env.get(nm, V(nm))
            return None
        if isinstance(f, ast.Name):
            if f.id in self.primitives:
                return None
            if f.id in p.funcs:
                return p.funcs[f.id], None
            if f.id in self.funcs:
                return self.funcs[f.id], None
        if isinstance(f, ast.Attribute) and self.typed and f.attr not in self.primitives:
            rv = self.ev(f.value, p, self.max_depth, no_effect=True)
            if len(rv) == 1:
                ra = single_atom(rv[0][1])
                if ra is not None and ra[0] == "var" and ra[1] in self.typed:
                    ms = self.typed[ra[1]]
                    if f.attr in ms and (self.inline_filter is None or self.inline_filter(f.attr, ms[f.attr])):
                        fn = ms[f.attr]
                        if any(isinstance(d, ast.Name) and d.id == "staticmethod" for d in fn.decorator_list):
                            return fn, None
                        return fn, rv[0][1]
                    if ra[1] in self.typed:
                        return None
        if isinstance(f, ast.Attribute) and isinstance(f.value, ast.Name) and f.value.id in self.self_names:
            if f.attr in self.primitives:
                return None
            if f.attr in self.methods and (self.inline_filter is None or self.inline_filter(f.attr, self.methods[f.attr])):
                fn = self.methods[f.attr]
                if any(isinstance(d, ast.Name) and d.id == "staticmethod" for d in fn.decorator_list):
                    return fn, None
                return fn, p.env.get(f.value.id, V(f.value.id))
        if isinstance(f, ast.Attribute) and self.method_of is not None and f.attr not in self.primitives:
            fn = self.method_of(src_of(f.value), f.attr)
            if fn is not None:
                r = self.ev(f.value, p, self.max_depth, no_effect=True)
                return fn, (r[0][1] if len(r) == 1 else V(src_of(f.value)))
        return None

    def _bind_args(self, fn: ast.FunctionDef, e: ast.Call, p: Path, depth: int, bound: Optional[Poly]) -> List[Tuple[Path, Dict[str, Poly]]]:
        params = [a.arg for a in fn.args.args]
        self_param = None
        if bound is not None and params:
            self_param, params = params[0], params[1:]
        defaults = fn.args.defaults
        out = []
        kwn = [k.arg for k in e.keywords if k.arg is not None]
        for q, vals in self.ev_many(list(e.args) + [k.value for k in e.keywords if k.arg is not None], p, depth):
            env: Dict[str, Poly] = {}
            pos, kws = vals[: len(e.args)], vals[len(e.args):]
            for n, v in zip(params, pos):
                env[n] = v
            if fn.args.vararg is not None and not any(isinstance(a_, ast.Starred) for a_ in e.args):
                env[fn.args.vararg.arg] = Poly.atom(("tuple", tuple(pos[len(params):])))
            for n, v in zip(kwn, kws):
                env[n] = v
            # defaults
            dparams = [a.arg for a in fn.args.args][-len(defaults):] if defaults else []
            for n, d in zip(dparams, defaults):
                if n not in env:
                    r = self.ev(d, q, depth, no_effect=True)
                    env[n] = r[0][1] if len(r) == 1 else opaque(src_of(d))
            if bound is not None and self_param is not None:
                env[self_param] = bound
            out.append((q, env))
        return out

    def run_unevaluated(self, fn: ast.FunctionDef, args: Dict[str, Poly], p: Path, depth: int) -> List[Tuple[Path, Optional[ast.AST]]]:
        """Run fn up to its return statements; return (path, return expression)
        with the callee environment still in place."""
        start = p.clone()
        env = dict(args)
        for k, v in p.env.items():
            if "." in k and k not in env:
                env[k] = v
        start.env = env
        body = list(fn.body)
        if body and isinstance(body[0], ast.Expr) and isinstance(body[0].value, ast.Constant):
            body = body[1:]
        out: List[Tuple[Path, Optional[ast.AST]]] = []

        outer = self

        def run_block(stmts: List[ast.stmt], paths: List[Path]) -> List[Path]:
            for st in stmts:
                nxt: List[Path] = []
                for q in paths:
                    if q.done is not None:
                        nxt.append(q)
                    elif isinstance(st, ast.Return):
                        q.done = "return"
                        q.ret_node = st
                        nxt.append(q)
                    elif isinstance(st, ast.If):
                        for q2, t in outer.cond(st.test, q, depth):
                            nxt.extend(run_block(st.body if t else st.orelse, [q2]))
                    else:
                        nxt.extend(outer.stmt(st, q, depth))
                paths = nxt
            return paths

        for q in run_block(body, [start]):
            if q.done == "return" and isinstance(q.ret_node, ast.Return):
                expr = q.ret_node.value
                q.done, q.ret_node = None, None
                out.append((q, expr))
            elif q.done == "raise":
                out.append((q, None))
            else:
                q.done = None
                out.append((q, None))
        return out

    def call(self, e: ast.Call, p: Path, depth: int, stmt_pos: bool, no_effect: bool) -> List[Tuple[Path, Poly]]:
        f = e.func
        fname = f.id if isinstance(f, ast.Name) else (f.attr if isinstance(f, ast.Attribute) else None)
        # case conversion of a constant string
        if isinstance(f, ast.Attribute) and f.attr in ("lower", "upper") and not e.args and not e.keywords:
            outl = []
            all_const = True
            for q, base in self.ev(f.value, p, depth, no_effect=True):
                sv_ = str_of(base)
                if sv_ is None:
                    all_const = False
                    break
                outl.append((q, S(sv_.lower() if f.attr == "lower" else sv_.upper())))
            if all_const and outl:
                return outl
        # str.format on a literal / template
        if isinstance(f, ast.Attribute) and f.attr == "format":
            out = []
            for q, base in self.ev(f.value, p, depth, no_effect=no_effect):
                shape = single_atom(base)
                if shape is None or shape[0] not in ("str", "tpl"):
                    out.append((q, opaque(src_of(e))))
                    continue
                for q2, vals in self.ev_many(list(e.args) + [k.value for k in e.keywords], q, depth, no_effect=no_effect):
                    pos = vals[: len(e.args)]
                    kws = {k.arg: v for k, v in zip(e.keywords, vals[len(e.args):])}
                    out.append((q2, _format(shape, pos, kws)))
            return out
        if isinstance(f, ast.Attribute) and f.attr == "join" and len(e.args) == 1:
            out = []
            for q, sep in self.ev(f.value, p, depth, no_effect=no_effect):
                for q2, seq in self.ev(e.args[0], q, depth, no_effect=no_effect):
                    a = single_atom(seq)
                    if a is not None and a[0] == "tuple" and is_stringy(sep):
                        parts: List[Any] = []
                        for i, x in enumerate(a[1]):
                            if i:
                                parts.append(sep)
                            parts.append(x)
                        out.append((q2, tpl(parts)))
                    else:
                        out.append((q2, Poly.atom(("join", sep, seq))))
            return out
        if isinstance(f, ast.Attribute) and f.attr == "get" and len(e.args) in (1, 2):
            out = []
            handled = True
            for q, base in self.ev(f.value, p, depth, no_effect=True):
                da = single_atom(base)
                if da is None or da[0] != "dict":
                    handled = False
                    break
                for q2, vals in self.ev_many(e.args, q, depth, no_effect=no_effect):
                    key = vals[0]
                    hit = None
                    decided = True
                    for k_, v_ in zip(da[1], da[2]):
                        if k_ == key:
                            hit = v_
                            break
                        if not ((k_.const_value() is not None or str_of(k_) is not None) and (key.const_value() is not None or str_of(key) is not None)):
                            decided = False
                    if hit is not None:
                        out.append((q2, hit))
                    elif decided:
                        out.append((q2, vals[1] if len(vals) > 1 else NONE()))
                    else:
                        out.append((q2, Poly.atom(("mcall", "get", tuple([base] + vals)))))
            if handled:
                return out
        if fname == "dict" and isinstance(f, ast.Name) and not e.args and all(k.arg is not None for k in e.keywords):
            return [(q, Poly.atom(("dict", tuple(S(k.arg) for k in e.keywords), tuple(vals)))) for q, vals in self.ev_many([k.value for k in e.keywords], p, depth, no_effect=no_effect)]
        if fname == "sum" and isinstance(f, ast.Name) and len(e.args) == 1:
            out = []
            for q, v in self.ev(e.args[0], p, depth, no_effect=no_effect):
                a = single_atom(v)
                if a is not None and a[0] == "comp" and isinstance(a[1], Poly):
                    out.append((q, Poly.atom(("sumloop", a[1], a[3]))))
                else:
                    out.append((q, call("sum", v)))
            return out
        if fname == "min" and isinstance(f, ast.Name):
            return [(q, vmin(vals)) for q, vals in self.ev_many(e.args, p, depth, no_effect=no_effect)]
        if fname == "max" and isinstance(f, ast.Name) and len(e.args) >= 2:
            return [(q, call("max", *vals)) for q, vals in self.ev_many(e.args, p, depth, no_effect=no_effect)]
        if fname == "divmod" and isinstance(f, ast.Name) and len(e.args) == 2 and not e.keywords and "divmod" not in self.funcs:
            # divmod(a, b) is (a // b, a % b)
            syn_q = ast.copy_location(ast.BinOp(left=e.args[0], op=ast.FloorDiv(), right=e.args[1]), e)
            syn_r = ast.copy_location(ast.BinOp(left=e.args[0], op=ast.Mod(), right=e.args[1]), e)
            syn_t = ast.copy_location(ast.Tuple(elts=[syn_q, syn_r], ctx=ast.Load()), e)
            ast.fix_missing_locations(syn_t)
            return self.ev(syn_t, p, depth, no_effect=no_effect)
        if fname == "int" and isinstance(f, ast.Name) and len(e.args) == 1:
            a0 = e.args[0]
            if isinstance(a0, ast.BinOp) and isinstance(a0.op, ast.Div):
                out = []
                for q, l in self.ev(a0.left, p, depth, no_effect=no_effect):
                    for q2, r in self.ev(a0.right, q, depth, no_effect=no_effect):
                        # int(x / 8) on a bit cursor is the byte index (cursors are small and non-negative); in general
                        # int(a / b) goes through a float and is NOT a // b (precision above 2**53, rounding towards zero)
                        out.append((q2, div8(l) if r.const_value() == 8 else call("int_truediv", l, r)))
                return out
            return self.ev(a0, p, depth, no_effect=no_effect)
        if fname in ("byte", "uint8") and isinstance(f, ast.Name) and len(e.args) == 1 and fname not in self.funcs:
            return [(q, trunc8(v)) for q, v in self.ev(e.args[0], p, depth, no_effect=no_effect)]
        if fname in self.value_hooks and isinstance(f, ast.Name) and not e.keywords:
            return [(q, self.value_hooks[fname](vals)) for q, vals in self.ev_many(list(e.args), p, depth, no_effect=no_effect)]
        if fname in ("cast", "cast_or_raise") and len(e.args) == 2:
            return self.ev(e.args[1], p, depth, no_effect=no_effect)
        if fname == "next" and isinstance(f, ast.Name) and len(e.args) == 2 and "next" not in self.funcs:
            outn = []
            handled_n = True
            for q, seq in self.ev(e.args[0], p, depth, no_effect=no_effect):
                sa_ = single_atom(seq)
                if sa_ is None or sa_[0] != "tuple":
                    handled_n = False
                    break
                if sa_[1]:
                    outn.append((q, sa_[1][0]))
                else:
                    outn.extend(self.ev(e.args[1], q, depth, no_effect=no_effect))
            if handled_n:
                return outn
        if fname == "str" and isinstance(f, ast.Name) and len(e.args) == 1:
            return [(q, tpl([v])) for q, v in self.ev(e.args[0], p, depth, no_effect=no_effect)]
        if fname in ("__preinc__", "__postinc__") and isinstance(f, ast.Name) and len(e.args) == 2 and isinstance(e.args[0], ast.Constant):
            nm = str(e.args[0].value)
            old = p.env.get(nm, V(self.names.get(nm, nm)))
            new = old + C(int(e.args[1].value))
            p.env[nm] = new
            return [(p, new if fname == "__preinc__" else old)]
        if fname == "__array__" and isinstance(f, ast.Name) and len(e.args) == 3 and isinstance(e.args[0], ast.Constant):
            return [(q, Poly.atom(("arr", str(e.args[0].value), str(e.args[1].value), v))) for q, v in self.ev(e.args[2], p, depth, no_effect=True)]
        if fname == "__ptr__" and isinstance(f, ast.Name) and len(e.args) == 2 and isinstance(e.args[0], ast.Constant):
            return [(q, Poly.atom(("ptr", str(e.args[0].value), v))) for q, v in self.ev(e.args[1], p, depth, no_effect=no_effect)]
        if fname == "__ref__" and isinstance(f, ast.Name) and len(e.args) == 2 and isinstance(e.args[0], ast.Constant):
            nm = e.args[0].value
            cur = p.env.get(nm, V(self.names.get(nm, nm)))
            a = single_atom(cur)
            if a is not None and a[0] == "new":
                return [(p, cur)]
            return [(p, Poly.atom(("ref", nm, str(e.args[1].value), cur)))]
        if fname == "range" and isinstance(f, ast.Name) and len(e.args) == 2 and isinstance(e.args[0], ast.Constant) and e.args[0].value == 0:
            return [(q, call("range", v)) for q, v in self.ev(e.args[1], p, depth, no_effect=no_effect)]
        # constructors of known classes
        if isinstance(f, ast.Name) and f.id in self.classes:
            order = self.classes[f.id]
            out = []
            for q, vals in self.ev_many(list(e.args) + [k.value for k in e.keywords], p, depth, no_effect=no_effect):
                fields: Dict[str, Poly] = {}
                for n, v in zip(order, vals[: len(e.args)]):
                    fields[n] = v
                for k, v in zip(e.keywords, vals[len(e.args):]):
                    fields[k.arg or "**"] = v
                q.alloc += 1
                names = tuple(sorted(fields))
                out.append((q, Poly.atom(("new", f.id, names, tuple(fields[n] for n in names), q.alloc))))
            return out
        # inlining
        tgt = self.resolve(e, p)
        if tgt is not None and depth < self.max_depth:
            fn, bound = tgt
            out = []
            for q, args in self._bind_args(fn, e, p, depth, bound):
                saved_env, saved_funcs = q.env, q.funcs
                sub = self.run(fn, args, start=q, depth=depth + 1)
                refs = {}
                for pn, av in args.items():
                    ra = single_atom(av)
                    if ra is not None and ra[0] == "ref":
                        refs[pn] = (ra[1], av)
                for r in sub:
                    for pn, (target, av) in refs.items():
                        nv = r.env.get(pn)
                        if nv is not None and nv != av:
                            saved_env = dict(saved_env)
                            saved_env[target] = nv
                    if r.done in ("raise", "exit"):
                        # the callee raised / ended the process: the caller's path ends the same way
                        r.env = self._restore(saved_env, r.env)
                        out.append((r, opaque(r.done)))
                        continue
                    v = r.ret if r.ret is not None else NONE()
                    r.done, r.ret, r.ret_node = None, None, None
                    r.env = self._restore(saved_env, r.env)
                    r.funcs = saved_funcs
                    out.append((r, v))
            return out
        # opaque call: evaluate receiver and arguments, record the effect
        out = []
        recv_paths: List[Tuple[Path, Optional[Poly]]]
        if isinstance(f, ast.Attribute):
            recv_paths = [(q, v) for q, v in self.ev(f.value, p, depth, no_effect=no_effect)]
        else:
            recv_paths = [(p, None)]
        # a call through a local that holds a function value (C function pointer copied into a
        # local, a bound method stored in a variable): it is a call of that function
        alias_name: Optional[str] = None
        alias_recv: Optional[Poly] = None
        if isinstance(f, ast.Name) and f.id in p.env and f.id not in self.funcs and f.id not in p.funcs:
            fa = single_atom(p.env[f.id])
            if fa is not None and fa[0] == "var" and "." not in fa[1] and fa[1] != f.id and (fa[1] in self.funcs or fa[1] in p.funcs or fa[1] in self.primitives or fa[1] in self.pure) and fa[1] not in p.env:
                # a module-level function held in a local (picked once before a loop): the call is a call of it
                syn_f = ast.copy_location(ast.Call(func=ast.copy_location(ast.Name(id=fa[1], ctx=ast.Load()), f), args=e.args, keywords=e.keywords), e)
                return self.call(syn_f, p, depth, stmt_pos, no_effect)
            if fa is not None and fa[0] == "var" and "." in fa[1]:
                alias_name, alias_recv = fa[1].rsplit(".", 1)[1], V(fa[1].rsplit(".", 1)[0])
            elif fa is not None and fa[0] == "attr" and isinstance(fa[2], str):
                alias_name, alias_recv = fa[2], fa[1]
        # the operator module spelled as a function: operator.add(a, b) is a + b
        op_name: Optional[str] = None
        if alias_name is not None and alias_recv is not None and show(alias_recv) == "operator":
            op_name = alias_name
        elif isinstance(f, ast.Attribute) and isinstance(f.value, ast.Name) and f.value.id == "operator" and "operator" not in p.env:
            op_name = f.attr
        if op_name in _OPERATOR_FUNCS and len(e.args) == 2 and not e.keywords:
            syn_b = ast.copy_location(ast.BinOp(left=e.args[0], op=_OPERATOR_FUNCS[op_name](), right=e.args[1]), e)
            ast.fix_missing_locations(syn_b)
            return self.ev(syn_b, p, depth, no_effect=no_effect)
        callee_val: Optional[Poly] = None
        if alias_name is None and isinstance(f, ast.Name) and f.id in p.env and f.id not in self.funcs and f.id not in p.funcs:
            # the function / class called is itself a computed value (class_ = pick(...); class_(...))
            callee_val = p.env[f.id]
            la_ = single_atom(callee_val)
            if la_ is not None and la_[0] == "lambda" and la_[1] in _LAMBDAS and depth < self.max_depth and not e.keywords:
                lam, _cap = _LAMBDAS[la_[1]]
                params_l = [a_.arg for a_ in lam.args.args]
                if len(params_l) == len(e.args):
                    outl2 = []
                    for q, vals in self.ev_many(list(e.args), p, depth, no_effect=no_effect):
                        saved_l = {pn_: q.env.get(pn_) for pn_ in params_l}
                        for pn_, v_ in zip(params_l, vals):
                            q.env[pn_] = v_
                        for q2, rv_ in self.ev(lam.body, q, depth + 1, no_effect=no_effect):
                            for pn_, old_ in saved_l.items():
                                if old_ is None:
                                    q2.env.pop(pn_, None)
                                else:
                                    q2.env[pn_] = old_
                            outl2.append((q2, rv_))
                    return outl2
        if alias_name is not None and alias_recv is not None and depth < self.max_depth:
            # a bound method of a known receiver held in a local: the call is that method call
            ra_ = single_atom(alias_recv)
            if ra_ is not None and ra_[0] == "var" and (ra_[1] in self.self_names or ra_[1] in self.typed):
                base_: ast.expr = ast.Name(id=ra_[1].split(".")[0], ctx=ast.Load())
                for part_ in ra_[1].split(".")[1:]:
                    base_ = ast.Attribute(value=base_, attr=part_, ctx=ast.Load())
                # inside an inlined method of that receiver it is spelled `self`
                for sn_ in self.self_names:
                    if sn_ in p.env and p.env[sn_] == alias_recv:
                        base_ = ast.Name(id=sn_, ctx=ast.Load())
                        break
                syn = ast.copy_location(ast.Call(func=ast.Attribute(value=base_, attr=alias_name, ctx=ast.Load()), args=e.args, keywords=e.keywords), e)
                ast.fix_missing_locations(syn)
                if self.resolve(syn, p) is not None:
                    return self.call(syn, p, depth, stmt_pos, no_effect)
        if alias_name is not None:
            recv_paths = [(p, alias_recv)]
        for q, recv in recv_paths:
            named = [k for k in e.keywords if k.arg is not None]
            stars = [k for k in e.keywords if k.arg is None]
            for q2, vals in self.ev_many(list(e.args) + [k.value for k in named] + [k.value for k in stars], q, depth, no_effect=no_effect):
                pos = vals[: len(e.args)]
                kws = {k.arg: v for k, v in zip(named, vals[len(e.args): len(e.args) + len(named)])}
                for sv in vals[len(e.args) + len(named):]:
                    da = single_atom(sv)
                    if da is not None and da[0] == "dict" and all(str_of(k_) is not None for k_ in da[1]):
                        for k_, v_ in zip(da[1], da[2]):
                            kws[str_of(k_)] = v_
                    else:
                        kws["**"] = sv
                name = alias_name or fname or src_of(f)
                # a known function called with keyword arguments: by position, as its signature orders them
                sig = self.funcs.get(name) if isinstance(f, ast.Name) else None
                if sig is not None and kws and "**" not in kws:
                    params_ = [a_.arg for a_ in sig.args.args]
                    if all(k_ in params_ for k_ in kws) and len(pos) <= len(params_):
                        rest_ = params_[len(pos):]
                        filled = []
                        for pn_ in rest_:
                            if pn_ in kws:
                                filled.append(kws[pn_])
                            else:
                                break
                        if len(filled) == len(kws):
                            pos = list(pos) + filled
                            kws = {}
                if callee_val is not None:
                    kws = dict(kws)
                    kws["__callee__"] = callee_val
                kwa = [Poly.atom(("kw", k, v)) for k, v in sorted(kws.items())]
                if recv is not None:
                    val = Poly.atom(("mcall", name, tuple([recv] + pos + kwa)))
                else:
                    val = Poly.atom(("call", name, tuple(pos + kwa)))
                is_pure = (isinstance(f, ast.Name) and name in self.pure) or name in self.pure
                if not no_effect and not is_pure:
                    hv = any(isinstance(a, ast.Name) and a.id in self.havoc_on for a in e.args) and name not in self.no_havoc
                    q2.effects.append(Ev("call", name, pos, kws, recv=recv, node=e, sub="havoc" if hv else None))
                    if hv:
                        self._havoc(q2)
                    for idx, av in enumerate(pos):
                        ra = single_atom(av)
                        if ra is not None and ra[0] == "ref":
                            q2.env[ra[1]] = Poly.atom(("out", name, idx, ra[3]))
                    if name in self.noreturn or (fname is not None and src_of(f) in self.noreturn):
                        q2.done = "exit"
                out.append((q2, val))
        return out


def bind_call_atom(a: Tuple[Any, ...], params: Sequence[str]) -> Optional[Dict[str, Poly]]:
    """Arguments of a call / mcall atom by parameter name (positional and
    keyword arguments alike); `params` excludes the receiver.  None when the
    atom passes something that cannot be matched."""
    if a[0] not in ("call", "mcall"):
        return None
    args = list(a[2][1:]) if a[0] == "mcall" else list(a[2])
    out: Dict[str, Poly] = {}
    pos = 0
    for x in args:
        xa = single_atom(x) if isinstance(x, Poly) else None
        if xa is not None and xa[0] == "kw":
            if xa[1] not in params or xa[1] in out:
                return None
            out[xa[1]] = xa[2]
        else:
            if pos >= len(params) or params[pos] in out:
                return None
            out[params[pos]] = x
            pos += 1
    return out


def rename_prefix(p: Poly, old: str, new: str) -> Poly:
    """Rename variable `old` and every dotted variable below it (`old.x.y`)."""
    from .normal import rebuild

    out = Poly.const(0)
    for m_, c_ in p.terms.items():
        term = Poly.const(c_)
        for a, e_ in m_:
            if a[0] == "var" and (a[1] == old or a[1].startswith(old + ".")):
                pa = V(new + a[1][len(old):])
            elif a[0] == "var":
                pa = Poly.atom(a)
            else:
                parts: List[Any] = [a[0]]
                for x in a[1:]:
                    if isinstance(x, Poly):
                        parts.append(rename_prefix(x, old, new))
                    elif isinstance(x, tuple):
                        parts.append(tuple(rename_prefix(y, old, new) if isinstance(y, Poly) else y for y in x))
                    else:
                        parts.append(x)
                pa = rebuild(tuple(parts))
            for _ in range(e_):
                term = term * pa
        out = out + term
    return out


def _atoms_of(p: Poly) -> list:
    out = []

    def rec(q: Poly) -> None:
        for m_ in q.terms:
            for a, _ in m_:
                out.append(a)
                for x in a[1:]:
                    if isinstance(x, Poly):
                        rec(x)
                    elif isinstance(x, tuple):
                        for y in x:
                            if isinstance(y, Poly):
                                rec(y)

    rec(p)
    return out


def _is_none(p: Poly) -> bool:
    a = single_atom(p)
    return a is not None and a[0] == "none"


def _format(shape: Tuple[Any, ...], pos: List[Poly], kws: Dict[Optional[str], Poly]) -> Poly:
    import re

    parts_in = [shape[1]] if shape[0] == "str" else list(shape[1])
    out: List[Any] = []
    auto = [0]
    for part in parts_in:
        if not isinstance(part, str):
            out.append(part)
            continue
        i = 0
        for mm in re.finditer(r"\{\{|\}\}|\{([^{}:!]*)(![rsa])?(:[^{}]*)?\}", part):
            out.append(part[i:mm.start()])
            i = mm.end()
            tok = mm.group(0)
            if tok == "{{":
                out.append("{")
            elif tok == "}}":
                out.append("}")
            else:
                key = mm.group(1)
                if key == "":
                    v = pos[auto[0]] if auto[0] < len(pos) else opaque("{}")
                    auto[0] += 1
                elif key.isdigit():
                    v = pos[int(key)] if int(key) < len(pos) else opaque(tok)
                else:
                    v = kws.get(key, opaque(tok))
                if mm.group(3):
                    v = Poly.atom(("fmtspec", v, mm.group(3)))
                out.append(v)
        out.append(part[i:])
    return tpl(out)


# ----------------------------------------------------------------------------
# helpers for rules
# ----------------------------------------------------------------------------


def module_funcs(tree: ast.Module) -> Dict[str, ast.FunctionDef]:
    return {n.name: n for n in tree.body if isinstance(n, ast.FunctionDef)}


def class_methods(cls: ast.ClassDef) -> Dict[str, ast.FunctionDef]:
    return {n.name: n for n in cls.body if isinstance(n, ast.FunctionDef)}


def dataclass_fields(tree: ast.Module) -> Dict[str, List[str]]:
    """Constructor field order of the classes of a module (dataclass style
    annotated fields, or __init__ parameters)."""
    out: Dict[str, List[str]] = {}
    by_name = {n.name: n for n in tree.body if isinstance(n, ast.ClassDef)}

    def fields(c: ast.ClassDef, seen: Tuple[str, ...] = ()) -> List[str]:
        init = next((n for n in c.body if isinstance(n, ast.FunctionDef) and n.name == "__init__"), None)
        if init is not None:
            return [a.arg for a in init.args.args[1:]]
        fs: List[str] = []
        for b in c.bases:
            if isinstance(b, ast.Name) and b.id in by_name and b.id not in seen:
                fs.extend(fields(by_name[b.id], seen + (c.name,)))
        for n in c.body:
            if isinstance(n, ast.AnnAssign) and isinstance(n.target, ast.Name) and "ClassVar" not in src_of(n.annotation):
                if n.target.id not in fs:
                    fs.append(n.target.id)
        return fs

    for name, c in by_name.items():
        out[name] = fields(c)
    return out


def new_parts(p: Poly) -> Optional[Tuple[str, Dict[str, Poly], int]]:
    a = single_atom(p)
    if a is None or a[0] != "new":
        return None
    return a[1], dict(zip(a[2], a[3])), a[4]
