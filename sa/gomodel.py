"""
E5 - parser for the subset of Go used by lib/go/bitproto.go.

Tokenizer with Go's semicolon insertion, declarations (package/import/const/
var/type/func/method), the statement forms present (block, if/else, three for
forms and range, expression switch, return, defer, assignment / define / op=,
++/--, expression statement), Pratt expression parser (selectors, calls,
index/slice, composite literals, conversions, unary & * - ! ^).  As in
go/parser, a `{` directly after an if/for/switch header expression opens the
block and not a composite literal.  Anything outside the subset raises
Inconclusive.
"""

from __future__ import annotations

import re
from typing import Any, Dict, List, Optional, Tuple

from .core import Inconclusive, Repo

GO_RT = "lib/go/bitproto.go"

KEYWORDS = {
    "break", "case", "chan", "const", "continue", "default", "defer", "else", "fallthrough", "for", "func", "go", "goto", "if",
    "import", "interface", "map", "package", "range", "return", "select", "struct", "switch", "type", "var",
}
OPS = [
    "<<=", ">>=", "&^=", "...", "&&", "||", "<-", "++", "--", "==", "!=", "<=", ">=", ":=", "+=", "-=", "*=", "/=", "%=", "&=", "|=", "^=",
    "<<", ">>", "&^", "+", "-", "*", "/", "%", "&", "|", "^", "<", ">", "=", "!", "(", ")", "[", "]", "{", "}", ",", ";", ".", ":",
]
BINPREC = {"||": 1, "&&": 2, "==": 3, "!=": 3, "<": 3, "<=": 3, ">": 3, ">=": 3, "+": 4, "-": 4, "|": 4, "^": 4, "*": 5, "/": 5, "%": 5, "<<": 5, ">>": 5, "&": 5, "&^": 5}


class Tok:
    __slots__ = ("kind", "val", "line")

    def __init__(self, kind: str, val: str, line: int) -> None:
        self.kind, self.val, self.line = kind, val, line

    def __repr__(self) -> str:
        return f"{self.kind}:{self.val}@{self.line}"


def tokenize(src: str) -> List[Tok]:
    toks: List[Tok] = []
    i, n, line = 0, len(src), 1

    def need_semi() -> bool:
        if not toks:
            return False
        t = toks[-1]
        if t.kind in ("ident", "int", "string", "char", "float"):
            return True
        if t.kind == "kw" and t.val in ("break", "continue", "fallthrough", "return"):
            return True
        if t.kind == "op" and t.val in ("++", "--", ")", "]", "}"):
            return True
        return False

    while i < n:
        ch = src[i]
        if ch == "\n":
            if need_semi():
                toks.append(Tok("op", ";", line))
            line += 1
            i += 1
            continue
        if ch in " \t\r":
            i += 1
            continue
        if src.startswith("//", i):
            j = src.find("\n", i)
            i = n if j < 0 else j
            continue
        if src.startswith("/*", i):
            j = src.find("*/", i)
            if j < 0:
                raise Inconclusive("go: unterminated comment")
            line += src.count("\n", i, j)
            i = j + 2
            continue
        if ch.isalpha() or ch == "_":
            j = i
            while j < n and (src[j].isalnum() or src[j] == "_"):
                j += 1
            w = src[i:j]
            toks.append(Tok("kw" if w in KEYWORDS else "ident", w, line))
            i = j
            continue
        if ch.isdigit():
            m = re.match(r"0[xX][0-9a-fA-F_]+|[0-9][0-9_]*", src[i:])
            assert m
            toks.append(Tok("int", m.group(0), line))
            i += len(m.group(0))
            continue
        if ch == '"':
            j = i + 1
            while j < n and src[j] != '"':
                if src[j] == "\\":
                    j += 1
                j += 1
            toks.append(Tok("string", src[i : j + 1], line))
            i = j + 1
            continue
        if ch == "`":
            j = src.find("`", i + 1)
            toks.append(Tok("string", src[i : j + 1], line))
            line += src.count("\n", i, j)
            i = j + 1
            continue
        if ch == "'":
            j = i + 1
            while j < n and src[j] != "'":
                if src[j] == "\\":
                    j += 1
                j += 1
            toks.append(Tok("char", src[i : j + 1], line))
            i = j + 1
            continue
        for op in OPS:
            if src.startswith(op, i):
                toks.append(Tok("op", op, line))
                i += len(op)
                break
        else:
            raise Inconclusive(f"go: unexpected character {ch!r} at line {line}")
    if need_semi():
        toks.append(Tok("op", ";", line))
    toks.append(Tok("eof", "", line))
    return toks


class Node(dict):
    def __getattr__(self, k: str) -> Any:
        try:
            return self[k]
        except KeyError:
            raise AttributeError(k)


def N(kind: str, line: int, **kw: Any) -> Node:
    return Node(k=kind, line=line, **kw)


class GoParser:
    def __init__(self, src: str) -> None:
        self.toks = tokenize(src)
        self.i = 0
        self.no_lit = 0  # >0: composite literals not allowed at top level of expr (control clause)

    # ---- token helpers
    @property
    def t(self) -> Tok:
        return self.toks[self.i]

    def peek(self, k: int = 1) -> Tok:
        return self.toks[min(self.i + k, len(self.toks) - 1)]

    def at(self, val: str) -> bool:
        return self.t.kind in ("op", "kw") and self.t.val == val

    def accept(self, val: str) -> bool:
        if self.at(val):
            self.i += 1
            return True
        return False

    def expect(self, val: str) -> Tok:
        if not self.at(val):
            raise Inconclusive(f"go: expected {val!r} at line {self.t.line}, found {self.t.val!r}")
        tk = self.t
        self.i += 1
        return tk

    def ident(self) -> str:
        if self.t.kind != "ident":
            raise Inconclusive(f"go: expected identifier at line {self.t.line}, found {self.t.val!r}")
        v = self.t.val
        self.i += 1
        return v

    def skip_semis(self) -> None:
        while self.at(";"):
            self.i += 1

    # ---- file
    def parse_file(self) -> Node:
        self.skip_semis()
        self.expect("package")
        pkg = self.ident()
        decls: List[Node] = []
        self.skip_semis()
        while self.t.kind != "eof":
            decls.extend(self.decl())
            self.skip_semis()
        return N("file", 1, package=pkg, decls=decls)

    def decl(self) -> List[Node]:
        line = self.t.line
        if self.accept("import"):
            if self.accept("("):
                while not self.at(")"):
                    self.i += 1
                self.expect(")")
            else:
                while not self.at(";"):
                    self.i += 1
            return []
        if self.at("const") or self.at("var"):
            kw = self.t.val
            self.i += 1
            specs: List[Node] = []
            if self.accept("("):
                self.skip_semis()
                while not self.at(")"):
                    specs.append(self.value_spec(kw))
                    self.skip_semis()
                self.expect(")")
            else:
                specs.append(self.value_spec(kw))
            return specs
        if self.accept("type"):
            out: List[Node] = []
            if self.accept("("):
                self.skip_semis()
                while not self.at(")"):
                    out.append(self.type_spec())
                    self.skip_semis()
                self.expect(")")
            else:
                out.append(self.type_spec())
            return out
        if self.accept("func"):
            recv = None
            if self.at("("):
                ps = self.params()
                if len(ps) != 1:
                    raise Inconclusive(f"go: receiver list at line {line}")
                recv = ps[0]
            name = self.ident()
            params = self.params()
            results: List[Node] = []
            if self.at("("):
                results = self.params()
            elif not self.at("{"):
                results = [N("param", self.t.line, name="", type=self.type_())]
            body = self.block()
            return [N("func", line, name=name, recv=recv, params=params, results=results, body=body)]
        raise Inconclusive(f"go: unsupported declaration at line {line}: {self.t.val!r}")

    def value_spec(self, kw: str) -> Node:
        line = self.t.line
        names = [self.ident()]
        while self.accept(","):
            names.append(self.ident())
        typ = None
        if not self.at("=") and not self.at(";") and not self.at(")"):
            typ = self.type_()
        vals: List[Node] = []
        if self.accept("="):
            vals.append(self.expr())
            while self.accept(","):
                vals.append(self.expr())
        return N(kw, line, names=names, type=typ, vals=vals)

    def type_spec(self) -> Node:
        line = self.t.line
        name = self.ident()
        alias = self.accept("=")
        typ = self.type_()
        return N("type", line, name=name, alias=alias, type=typ)

    # ---- types
    def type_(self) -> Node:
        line = self.t.line
        if self.accept("*"):
            return N("ptr", line, elem=self.type_())
        if self.accept("["):
            if self.accept("]"):
                return N("slice", line, elem=self.type_())
            ln = self.expr()
            self.expect("]")
            return N("array", line, len=ln, elem=self.type_())
        if self.accept("struct"):
            self.expect("{")
            fields: List[Node] = []
            self.skip_semis()
            while not self.at("}"):
                fl = self.t.line
                names = [self.ident()]
                while self.accept(","):
                    names.append(self.ident())
                ft = self.type_()
                if self.t.kind == "string":
                    self.i += 1
                for nm in names:
                    fields.append(N("field", fl, name=nm, type=ft))
                self.skip_semis()
            self.expect("}")
            return N("struct", line, fields=fields)
        if self.accept("interface"):
            self.expect("{")
            methods: List[Node] = []
            self.skip_semis()
            while not self.at("}"):
                ml = self.t.line
                nm = self.ident()
                ps = self.params()
                rs: List[Node] = []
                if self.at("("):
                    rs = self.params()
                elif not self.at(";"):
                    rs = [N("param", ml, name="", type=self.type_())]
                methods.append(N("method", ml, name=nm, params=ps, results=rs))
                self.skip_semis()
            self.expect("}")
            return N("interface", line, methods=methods)
        if self.accept("func"):
            ps = self.params()
            rs = []
            if self.at("("):
                rs = self.params()
            elif self.t.kind == "ident" or self.at("*") or self.at("["):
                rs = [N("param", line, name="", type=self.type_())]
            return N("functype", line, params=ps, results=rs)
        if self.accept("map"):
            self.expect("[")
            k = self.type_()
            self.expect("]")
            return N("map", line, key=k, elem=self.type_())
        name = self.ident()
        while self.accept("."):
            name += "." + self.ident()
        return N("named", line, name=name)

    def params(self) -> List[Node]:
        self.expect("(")
        items: List[Tuple[List[str], Optional[Node], int]] = []
        # Go allows `a, b int` and `int, string`; collect then resolve
        raw: List[Tuple[Optional[str], Optional[Node], int]] = []
        while not self.at(")"):
            line = self.t.line
            if self.t.kind == "ident" and (self.peek().kind == "ident" or (self.peek().kind == "op" and self.peek().val in ("*", "[", "...")) or (self.peek().kind == "kw" and self.peek().val in ("func", "map", "interface", "struct"))):
                nm = self.ident()
                self.accept("...")
                raw.append((nm, self.type_(), line))
            elif self.t.kind == "ident" and self.peek().kind == "op" and self.peek().val == ",":
                # either a name whose type follows later, or a bare type
                raw.append((self.ident(), None, line))
            else:
                raw.append((None, self.type_(), line))
            if not self.accept(","):
                break
        self.expect(")")
        # resolve `a, b T`
        out: List[Node] = []
        pending: List[Tuple[str, int]] = []
        for nm, ty, line in raw:
            if ty is None:
                pending.append((nm or "", line))
            else:
                for pn, pl in pending:
                    out.append(N("param", pl, name=pn, type=ty))
                pending = []
                out.append(N("param", line, name=nm or "", type=ty))
        for pn, pl in pending:  # bare types
            out.append(N("param", pl, name="", type=N("named", pl, name=pn)))
        return out

    # ---- statements
    def block(self) -> Node:
        line = self.expect("{").line
        stmts: List[Node] = []
        self.skip_semis()
        while not self.at("}"):
            stmts.append(self.stmt())
            self.skip_semis()
        self.expect("}")
        return N("block", line, stmts=stmts)

    def simple_stmt(self) -> Node:
        line = self.t.line
        lhs = [self.expr()]
        while self.accept(","):
            lhs.append(self.expr())
        if self.t.kind == "op" and self.t.val in (":=", "=", "+=", "-=", "*=", "/=", "%=", "&=", "|=", "^=", "<<=", ">>=", "&^="):
            op = self.t.val
            self.i += 1
            if self.at("range"):
                self.i += 1
                return N("range", line, lhs=lhs, define=(op == ":="), x=self.expr())
            rhs = [self.expr()]
            while self.accept(","):
                rhs.append(self.expr())
            return N("assign", line, lhs=lhs, op=op, rhs=rhs)
        if self.at("++") or self.at("--"):
            op = self.t.val
            self.i += 1
            return N("incdec", line, x=lhs[0], op=op)
        if len(lhs) != 1:
            raise Inconclusive(f"go: expression list as statement at line {line}")
        return N("exprstmt", line, x=lhs[0])

    def stmt(self) -> Node:
        line = self.t.line
        if self.at("{"):
            return self.block()
        if self.accept("return"):
            vals: List[Node] = []
            if not self.at(";") and not self.at("}"):
                vals.append(self.expr())
                while self.accept(","):
                    vals.append(self.expr())
            return N("return", line, vals=vals)
        if self.accept("defer"):
            return N("defer", line, call=self.expr())
        if self.accept("break"):
            return N("break", line)
        if self.accept("continue"):
            return N("continue", line)
        if self.at("var") or self.at("const"):
            kw = self.t.val
            self.i += 1
            return self.value_spec(kw)
        if self.accept("if"):
            return self.if_rest(line)
        if self.accept("for"):
            self.no_lit += 1
            init = cond = post = None
            rng = None
            if not self.at("{"):
                if self.at(";"):
                    pass
                else:
                    s = self.simple_stmt()
                    if s.k == "range":
                        rng = s
                    elif self.at("{"):
                        cond = s.x if s.k == "exprstmt" else None
                        if cond is None:
                            raise Inconclusive(f"go: for header at line {line}")
                    else:
                        init = s
                if rng is None and cond is None and self.accept(";"):
                    if not self.at(";"):
                        cond = self.expr()
                    self.expect(";")
                    if not self.at("{"):
                        post = self.simple_stmt()
            self.no_lit -= 1
            body = self.block()
            if rng is not None:
                return N("forrange", line, range=rng, body=body)
            return N("for", line, init=init, cond=cond, post=post, body=body)
        if self.accept("switch"):
            self.no_lit += 1
            tag = None
            if not self.at("{"):
                tag = self.expr()
            self.no_lit -= 1
            self.expect("{")
            cases: List[Node] = []
            self.skip_semis()
            while not self.at("}"):
                cl = self.t.line
                vals2: Optional[List[Node]]
                if self.accept("default"):
                    vals2 = None
                else:
                    self.expect("case")
                    vals2 = [self.expr()]
                    while self.accept(","):
                        vals2.append(self.expr())
                self.expect(":")
                body2: List[Node] = []
                self.skip_semis()
                while not (self.at("case") or self.at("default") or self.at("}")):
                    body2.append(self.stmt())
                    self.skip_semis()
                cases.append(N("case", cl, vals=vals2, body=body2))
            self.expect("}")
            return N("switch", line, tag=tag, cases=cases)
        return self.simple_stmt()

    def if_rest(self, line: int) -> Node:
        self.no_lit += 1
        init = None
        s = self.simple_stmt()
        if self.accept(";"):
            init = s
            cond = self.expr()
        else:
            if s.k != "exprstmt":
                raise Inconclusive(f"go: if header at line {line}")
            cond = s.x
        self.no_lit -= 1
        body = self.block()
        els = None
        if self.accept("else"):
            if self.accept("if"):
                els = self.if_rest(self.t.line)
            else:
                els = self.block()
        return N("if", line, init=init, cond=cond, body=body, orelse=els)

    # ---- expressions
    def expr(self, prec: int = 1) -> Node:
        left = self.unary()
        while self.t.kind == "op" and self.t.val in BINPREC and BINPREC[self.t.val] >= prec:
            op = self.t.val
            line = self.t.line
            self.i += 1
            right = self.expr(BINPREC[op] + 1)
            left = N("bin", line, op=op, l=left, r=right)
        return left

    def unary(self) -> Node:
        line = self.t.line
        if self.t.kind == "op" and self.t.val in ("-", "+", "!", "^", "*", "&", "<-"):
            op = self.t.val
            self.i += 1
            return N("un", line, op=op, x=self.unary())
        return self.primary()

    def primary(self) -> Node:
        line = self.t.line
        t = self.t
        x: Node
        if t.kind == "int":
            self.i += 1
            x = N("int", line, v=int(t.val.replace("_", ""), 0))
        elif t.kind in ("string", "char"):
            self.i += 1
            x = N("str", line, v=t.val)
        elif t.kind == "ident":
            self.i += 1
            x = N("id", line, name=t.val)
        elif self.accept("("):
            saved = self.no_lit
            self.no_lit = 0
            inner = self.expr()
            self.no_lit = saved
            self.expect(")")
            x = N("paren", line, x=inner)
        elif self.at("[") or self.at("struct") or self.at("map") or self.at("*") or self.at("func"):
            ty = self.type_()
            if self.at("{"):
                x = self.complit(ty, line)
            elif self.at("("):
                self.expect("(")
                arg = self.expr()
                self.expect(")")
                x = N("conv", line, type=ty, x=arg)
            else:
                x = N("typeexpr", line, type=ty)  # make([]byte, n), new(T)
        else:
            raise Inconclusive(f"go: unexpected token {t.val!r} at line {line}")
        while True:
            if self.accept("."):
                x = N("sel", line, x=x, name=self.ident())
            elif self.at("("):
                self.i += 1
                args: List[Node] = []
                saved = self.no_lit
                self.no_lit = 0
                while not self.at(")"):
                    args.append(self.expr())
                    if not self.accept(","):
                        break
                self.no_lit = saved
                self.expect(")")
                x = N("call", line, f=x, args=args)
            elif self.at("["):
                self.i += 1
                saved = self.no_lit
                self.no_lit = 0
                lo = hi = None
                if not self.at(":"):
                    lo = self.expr()
                if self.accept(":"):
                    if not self.at("]"):
                        hi = self.expr()
                    self.no_lit = saved
                    self.expect("]")
                    x = N("slice", line, x=x, lo=lo, hi=hi)
                else:
                    self.no_lit = saved
                    self.expect("]")
                    x = N("index", line, x=x, i=lo)
            elif self.at("{") and self.no_lit == 0 and x.k in ("id", "sel"):
                x = self.complit(x, line)
            else:
                return x

    def complit(self, ty: Node, line: int) -> Node:
        self.expect("{")
        saved = self.no_lit
        self.no_lit = 0
        elts: List[Node] = []
        self.skip_semis()
        while not self.at("}"):
            e = self.expr()
            if self.accept(":"):
                e = N("kv", e.line, key=e, value=self.expr())
            elts.append(e)
            if not self.accept(","):
                self.skip_semis()
                break
            self.skip_semis()
        self.no_lit = saved
        self.expect("}")
        return N("complit", line, type=ty, elts=elts)


class GoFile:
    def __init__(self, repo: Repo, rel: str = GO_RT) -> None:
        self.rel = rel
        src = repo.src(rel)
        self.tree = GoParser(src).parse_file()
        self.funcs: Dict[str, Node] = {}
        self.types: Dict[str, Node] = {}
        self.consts: Dict[str, Node] = {}
        for d in self.tree.decls:
            if d.k == "func":
                key = d.name
                if d.recv is not None:
                    rt = d.recv.type
                    rn = rt.elem.name if rt.k == "ptr" else rt.name
                    key = f"{rn}.{d.name}"
                self.funcs[key] = d
            elif d.k == "type":
                self.types[d.name] = d
            elif d.k in ("const", "var"):
                for nm in d.names:
                    self.consts[nm] = d

    def func(self, key: str) -> Node:
        if key not in self.funcs:
            raise Inconclusive(f"go: anchor function vanished: {key}")
        return self.funcs[key]


def get_go(repo: Repo) -> GoFile:
    return repo.memo("gomodel", lambda: GoFile(repo))


def go_src(n: Any) -> str:
    """Readable rendering of an expression node (for reports)."""
    if not isinstance(n, dict):
        return str(n)
    k = n.get("k")
    if k == "id":
        return n.name
    if k == "int":
        return str(n.v)
    if k == "str":
        return n.v
    if k == "sel":
        return f"{go_src(n.x)}.{n.name}"
    if k == "paren":
        return f"({go_src(n.x)})"
    if k == "bin":
        return f"{go_src(n.l)} {n.op} {go_src(n.r)}"
    if k == "un":
        return f"{n.op}{go_src(n.x)}"
    if k == "call":
        return f"{go_src(n.f)}({', '.join(go_src(a) for a in n.args)})"
    if k == "index":
        return f"{go_src(n.x)}[{go_src(n.i)}]"
    if k == "conv":
        return f"{go_type(n.type)}({go_src(n.x)})"
    if k == "complit":
        return f"{go_src(n.type) if n.type.get('k') in ('id','sel') else go_type(n.type)}{{...}}"
    if k == "slice":
        return f"{go_src(n.x)}[{go_src(n.lo) if n.lo else ''}:{go_src(n.hi) if n.hi else ''}]"
    return f"<{k}>"


def go_type(t: Any) -> str:
    k = t.get("k")
    if k == "named":
        return t.name
    if k == "ptr":
        return "*" + go_type(t.elem)
    if k == "slice":
        return "[]" + go_type(t.elem)
    if k == "array":
        return f"[{go_src(t.len)}]" + go_type(t.elem)
    return f"<{k}>"
