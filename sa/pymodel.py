"""
E1 - resolved Python program model for compiler/bitproto and lib/py/bitprotolib.

Builds a module/import table, a class table with C3 MRO and generic-argument
bindings (so `self.d` in `BlockBindAlias[F]` is known to be an `Alias`, and
`self.formatter` in impls/py/renderer.py a `PyFormatter`), a small
flow-insensitive type inference over annotations / constructor calls / casts,
and a call graph by rapid type analysis whose unit of analysis is
(function, concrete receiver class).

Nothing is imported or executed: only `ast` is used.
"""

from __future__ import annotations

import ast
from dataclasses import dataclass, field
from typing import Any, Dict, FrozenSet, Iterable, List, Optional, Set, Tuple

from .core import Inconclusive, Repo, link_parents, parent, qualname, src_of

PKG_ROOTS = {
    "bitproto": "compiler/bitproto",
    "bitprotolib": "lib/py/bitprotolib",
}


# --------------------------------------------------------------------------
# Types of the inference domain
# --------------------------------------------------------------------------


@dataclass(frozen=True)
class Inst:
    cls: "ClassInfo"

    def __repr__(self) -> str:
        return f"Inst({self.cls.name})"


@dataclass(frozen=True)
class ClsObj:
    cls: "ClassInfo"

    def __repr__(self) -> str:
        return f"ClsObj({self.cls.name})"


@dataclass(frozen=True)
class FuncObj:
    fn: "FuncInfo"

    def __repr__(self) -> str:
        return f"FuncObj({self.fn.qual})"


@dataclass(frozen=True)
class Bound:
    """A bound method: function + the class of the receiver it was found on."""

    fn: "FuncInfo"
    recv: Optional["ClassInfo"]

    def __repr__(self) -> str:
        return f"Bound({self.fn.qual}@{self.recv.name if self.recv else '?'})"


@dataclass(frozen=True)
class Ext:
    name: str  # 'str', 'int', 'bool', 'none', 'bytes', 'ext:<dotted>'

    def __repr__(self) -> str:
        return f"Ext({self.name})"


@dataclass(frozen=True)
class Seq:
    kind: str  # 'list' | 'tuple' | 'set' | 'iter'
    elem: FrozenSet[Any]

    def __repr__(self) -> str:
        return f"Seq[{self.kind}]({set(self.elem)})"


@dataclass(frozen=True)
class Tup:
    elems: Tuple[FrozenSet[Any], ...]

    def __repr__(self) -> str:
        return f"Tup({self.elems})"


@dataclass(frozen=True)
class Map:
    key: FrozenSet[Any]
    val: FrozenSet[Any]

    def __repr__(self) -> str:
        return f"Map({set(self.key)}->{set(self.val)})"


TypeSet = FrozenSet[Any]
EMPTY: TypeSet = frozenset()


def ts(*atoms: Any) -> TypeSet:
    return frozenset(atoms)


# --------------------------------------------------------------------------
# Program entities
# --------------------------------------------------------------------------


class FuncInfo:
    def __init__(self, node: ast.FunctionDef, rel: str, cls: Optional["ClassInfo"]) -> None:
        self.node = node
        self.rel = rel
        self.cls = cls
        self.name = node.name
        self.qual = (cls.name + "." if cls else "") + node.name
        self.decorators = [decorator_name(d) for d in node.decorator_list]

    @property
    def is_property(self) -> bool:
        return any(d in ("property", "cached_property") for d in self.decorators)

    @property
    def is_classmethod(self) -> bool:
        return "classmethod" in self.decorators

    @property
    def is_staticmethod(self) -> bool:
        return "staticmethod" in self.decorators

    def __repr__(self) -> str:
        return f"<fn {self.rel}:{self.qual}>"


def decorator_name(d: ast.AST) -> str:
    if isinstance(d, ast.Call):
        d = d.func
    if isinstance(d, ast.Name):
        return d.id
    if isinstance(d, ast.Attribute):
        return d.attr
    return src_of(d)


class ClassInfo:
    def __init__(self, node: ast.ClassDef, rel: str) -> None:
        self.node = node
        self.rel = rel
        self.name = node.name
        self.methods: Dict[str, FuncInfo] = {}
        self.attrs_ann: Dict[str, ast.AST] = {}  # class-level annotated attrs
        self.attrs_val: Dict[str, ast.AST] = {}  # class-level assigned values
        self.base_exprs: List[ast.AST] = list(node.bases)
        self.bases: List["ClassInfo"] = []
        self.ext_bases: List[str] = []
        self.decorators: List[ast.AST] = list(node.decorator_list)
        self.params: List[str] = []  # generic TypeVar names, ordered
        self.inst_attrs: Dict[str, List[Tuple[Optional[ast.AST], Optional[ast.AST], FuncInfo]]] = {}
        self._mro: Optional[List["ClassInfo"]] = None

    def deco_names(self) -> List[str]:
        return [decorator_name(d) for d in self.decorators]

    def frozen_mode(self) -> Optional[bool]:
        """None: not @frozen. True: frozen with post_init (freeze at end of
        __init__). False: frozen(post_init=False)."""
        for d in self.decorators:
            if decorator_name(d) == "frozen":
                if isinstance(d, ast.Call):
                    for kw in d.keywords:
                        if kw.arg == "post_init" and isinstance(kw.value, ast.Constant):
                            return bool(kw.value.value)
                return True
        return None

    def __repr__(self) -> str:
        return f"<class {self.rel}:{self.name}>"

    def __hash__(self) -> int:
        return hash((self.rel, self.name))

    def __eq__(self, o: object) -> bool:
        return isinstance(o, ClassInfo) and (self.rel, self.name) == (o.rel, o.name)


class ModInfo:
    def __init__(self, rel: str, dotted: str, tree: ast.Module) -> None:
        self.rel = rel
        self.dotted = dotted
        self.tree = tree
        self.classes: Dict[str, ClassInfo] = {}
        self.funcs: Dict[str, FuncInfo] = {}
        self.imports: Dict[str, Tuple[str, Optional[str]]] = {}  # local -> (dotted module, name|None)
        self.star_imports: List[str] = []
        self.assigns: Dict[str, ast.AST] = {}  # module-level NAME = expr
        self.typevars: Dict[str, Optional[ast.AST]] = {}  # name -> bound expr


class Model:
    def __init__(self, repo: Repo) -> None:
        self.repo = repo
        self.mods: Dict[str, ModInfo] = {}  # rel -> ModInfo
        self.by_dotted: Dict[str, ModInfo] = {}
        self._load()
        self._link()

    # ---------------------------------------------------------------- load

    def _load(self) -> None:
        for pkg, root in PKG_ROOTS.items():
            base = self.repo.path(root)
            if not base.exists():
                raise Inconclusive(f"package root missing: {root}")
            for p in sorted(base.rglob("*.py")):
                rel = str(p.relative_to(self.repo.root))
                sub = p.relative_to(base).with_suffix("")
                parts = [pkg] + list(sub.parts)
                if parts[-1] == "__init__":
                    parts = parts[:-1]
                dotted = ".".join(parts)
                tree = self.repo.py(rel)
                m = ModInfo(rel, dotted, tree)
                self.mods[rel] = m
                self.by_dotted[dotted] = m
                self._scan_module(m)

    def _scan_module(self, m: ModInfo) -> None:
        def scan(body: List[ast.stmt]) -> None:
            for st in body:
                if isinstance(st, ast.ClassDef):
                    ci = ClassInfo(st, m.rel)
                    m.classes[st.name] = ci
                    for s in st.body:
                        if isinstance(s, ast.FunctionDef):
                            # keep last definition except @overload stubs
                            fi = FuncInfo(s, m.rel, ci)
                            if "overload" in fi.decorators:
                                continue
                            ci.methods[s.name] = fi
                        elif isinstance(s, ast.AnnAssign) and isinstance(s.target, ast.Name):
                            ci.attrs_ann[s.target.id] = s.annotation
                            if s.value is not None:
                                ci.attrs_val[s.target.id] = s.value
                        elif isinstance(s, ast.Assign):
                            for t in s.targets:
                                if isinstance(t, ast.Name):
                                    ci.attrs_val[t.id] = s.value
                elif isinstance(st, ast.FunctionDef):
                    fi = FuncInfo(st, m.rel, None)
                    if "overload" in fi.decorators:
                        continue
                    m.funcs[st.name] = fi
                elif isinstance(st, ast.ImportFrom):
                    mod = st.module or ""
                    if st.level:
                        is_pkg = m.rel.endswith("__init__.py")
                        pkg = m.dotted.split(".") if is_pkg else m.dotted.split(".")[:-1]
                        if st.level > 1:
                            pkg = pkg[: len(pkg) - (st.level - 1)]
                        mod = ".".join(pkg + ([mod] if mod else []))
                    for a in st.names:
                        if a.name == "*":
                            m.star_imports.append(mod)
                        else:
                            m.imports[a.asname or a.name] = (mod, a.name)
                elif isinstance(st, ast.Import):
                    for a in st.names:
                        m.imports[(a.asname or a.name).split(".")[0]] = (a.name, None)
                elif isinstance(st, ast.Assign):
                    for t in st.targets:
                        if isinstance(t, ast.Name):
                            m.assigns[t.id] = st.value
                            v = st.value
                            if isinstance(v, ast.Call) and decorator_name(v) == "TypeVar":
                                bound = None
                                for kw in v.keywords:
                                    if kw.arg == "bound":
                                        bound = kw.value
                                m.typevars[t.id] = bound
                elif isinstance(st, ast.AnnAssign) and isinstance(st.target, ast.Name):
                    if st.value is not None:
                        m.assigns[st.target.id] = st.value
                elif isinstance(st, (ast.If, ast.Try)):
                    # TYPE_CHECKING / try-import blocks
                    for sub in ast.iter_child_nodes(st):
                        if isinstance(sub, ast.stmt):
                            scan([sub])
                    if isinstance(st, ast.If):
                        scan(st.body)
                        scan(st.orelse)
                    else:
                        scan(st.body)
                        for h in st.handlers:
                            scan(h.body)
                        scan(st.orelse)

        scan(m.tree.body)

    # ---------------------------------------------------------------- link

    def _link(self) -> None:
        for m in self.mods.values():
            for ci in m.classes.values():
                for b in ci.base_exprs:
                    be = b.value if isinstance(b, ast.Subscript) else b
                    r = self.resolve_expr_static(m, be)
                    if isinstance(r, ClassInfo):
                        ci.bases.append(r)
                    else:
                        ci.ext_bases.append(src_of(be))
        # generic params
        for m in self.mods.values():
            for ci in m.classes.values():
                seen: List[str] = []
                for b in ci.base_exprs:
                    if isinstance(b, ast.Subscript):
                        for a in _subscript_args(b):
                            if isinstance(a, ast.Name) and self.is_typevar(m, a.id) and a.id not in seen:
                                seen.append(a.id)
                ci.params = seen
        # instance attributes assigned through self.x in methods
        for m in self.mods.values():
            for ci in m.classes.values():
                for fi in ci.methods.values():
                    for n in ast.walk(fi.node):
                        tgt = None
                        ann = None
                        val = None
                        if isinstance(n, ast.AnnAssign):
                            tgt, ann, val = n.target, n.annotation, n.value
                        elif isinstance(n, ast.Assign) and len(n.targets) == 1:
                            tgt, val = n.targets[0], n.value
                        if (
                            isinstance(tgt, ast.Attribute)
                            and isinstance(tgt.value, ast.Name)
                            and tgt.value.id == "self"
                        ):
                            ci.inst_attrs.setdefault(tgt.attr, []).append((ann, val, fi))

    def is_typevar(self, m: ModInfo, name: str) -> bool:
        if name in m.typevars:
            return True
        imp = m.imports.get(name)
        if imp and imp[0] in self.by_dotted and imp[1]:
            return self.is_typevar(self.by_dotted[imp[0]], imp[1])
        return False

    def typevar_bound(self, m: ModInfo, name: str) -> Optional[ClassInfo]:
        if name in m.typevars:
            b = m.typevars[name]
            if b is None:
                return None
            if isinstance(b, ast.Constant) and isinstance(b.value, str):
                r = self.resolve_name(m, b.value)
            else:
                r = self.resolve_expr_static(m, b)
            return r if isinstance(r, ClassInfo) else None
        imp = m.imports.get(name)
        if imp and imp[0] in self.by_dotted and imp[1]:
            return self.typevar_bound(self.by_dotted[imp[0]], imp[1])
        return None

    # ------------------------------------------------------------ resolve

    def resolve_name(self, m: ModInfo, name: str, _depth: int = 0) -> Any:
        """Resolve a module-level name to ClassInfo / FuncInfo / ('mod', ModInfo)
        / ('ext', dotted) / ('assign', ModInfo, expr) / None."""
        if _depth > 8:
            return None
        if name in m.classes:
            return m.classes[name]
        if name in m.funcs:
            return m.funcs[name]
        if name in m.assigns and name not in m.imports:
            v = m.assigns[name]
            # simple alias NAME = OtherName
            if isinstance(v, ast.Name) and v.id != name:
                r = self.resolve_name(m, v.id, _depth + 1)
                if r is not None:
                    return r
            return ("assign", m, v)
        if name in m.imports:
            mod, orig = m.imports[name]
            if orig is None:
                if mod in self.by_dotted:
                    return ("mod", self.by_dotted[mod])
                return ("ext", mod)
            if mod in self.by_dotted:
                r = self.resolve_name(self.by_dotted[mod], orig, _depth + 1)
                if r is not None:
                    return r
                # `from pkg import submodule`
                sub = mod + "." + orig
                if sub in self.by_dotted:
                    return ("mod", self.by_dotted[sub])
                return None
            sub = mod + "." + orig
            if sub in self.by_dotted:
                return ("mod", self.by_dotted[sub])
            return ("ext", mod + "." + orig)
        for mod in m.star_imports:
            if mod in self.by_dotted:
                r = self.resolve_name(self.by_dotted[mod], name, _depth + 1)
                if r is not None:
                    return r
        return None

    def resolve_expr_static(self, m: ModInfo, e: ast.AST) -> Any:
        if isinstance(e, ast.Name):
            return self.resolve_name(m, e.id)
        if isinstance(e, ast.Attribute):
            base = self.resolve_expr_static(m, e.value)
            if isinstance(base, tuple) and base[0] == "mod":
                return self.resolve_name(base[1], e.attr)
            if isinstance(base, tuple) and base[0] == "ext":
                return ("ext", base[1] + "." + e.attr)
        return None

    # ---------------------------------------------------------------- MRO

    def mro(self, c: ClassInfo) -> List[ClassInfo]:
        if c._mro is not None:
            return c._mro
        seqs = [self.mro(b)[:] for b in c.bases] + [list(c.bases)]
        res = [c]
        while True:
            seqs = [s for s in seqs if s]
            if not seqs:
                break
            cand = None
            for s in seqs:
                h = s[0]
                if not any(h in t[1:] for t in seqs):
                    cand = h
                    break
            if cand is None:
                # inconsistent hierarchy; fall back to DFS order
                cand = seqs[0][0]
            res.append(cand)
            for s in seqs:
                if s and s[0] == cand:
                    del s[0]
        c._mro = res
        return res

    def lookup(self, c: ClassInfo, name: str) -> Optional[FuncInfo]:
        for k in self.mro(c):
            if name in k.methods:
                return k.methods[name]
        return None

    def lookup_super(self, c: ClassInfo, after: ClassInfo, name: str) -> Optional[FuncInfo]:
        """super(after, self).name with self of concrete class c."""
        m = self.mro(c)
        if after in m:
            for k in m[m.index(after) + 1 :]:
                if name in k.methods:
                    return k.methods[name]
        return None

    def is_subclass(self, c: ClassInfo, base: ClassInfo) -> bool:
        return base in self.mro(c)

    def all_classes(self) -> List[ClassInfo]:
        return [c for m in self.mods.values() for c in m.classes.values()]

    def subclasses(self, base: ClassInfo) -> List[ClassInfo]:
        return [c for c in self.all_classes() if self.is_subclass(c, base)]

    def cls(self, name: str, rel_hint: Optional[str] = None) -> ClassInfo:
        cands = [c for c in self.all_classes() if c.name == name and (rel_hint is None or c.rel.endswith(rel_hint))]
        if len(cands) != 1:
            raise Inconclusive(f"class {name} ({rel_hint}) resolves to {len(cands)} candidates")
        return cands[0]

    def func(self, rel_suffix: str, qual: str) -> FuncInfo:
        for m in self.mods.values():
            if m.rel.endswith(rel_suffix):
                if "." in qual:
                    cn, fn = qual.split(".", 1)
                    if cn in m.classes and fn in m.classes[cn].methods:
                        return m.classes[cn].methods[fn]
                elif qual in m.funcs:
                    return m.funcs[qual]
        raise Inconclusive(f"anchor function vanished: {rel_suffix}:{qual}")

    def has_func(self, rel_suffix: str, qual: str) -> bool:
        try:
            self.func(rel_suffix, qual)
            return True
        except Inconclusive:
            return False

    def mod(self, rel_suffix: str) -> ModInfo:
        for m in self.mods.values():
            if m.rel.endswith(rel_suffix):
                return m
        raise Inconclusive(f"anchor module vanished: {rel_suffix}")

    # ------------------------------------------------------ generic binds

    def bindings(self, c: ClassInfo) -> Dict[str, ClassInfo]:
        """TypeVar name -> class, as fixed by the subscripted bases along the
        hierarchy of c (nearest binding wins)."""
        out: Dict[str, ClassInfo] = {}
        m = self.mods[c.rel]
        for b in c.base_exprs:
            if isinstance(b, ast.Subscript):
                base = self.resolve_expr_static(m, b.value)
                if isinstance(base, ClassInfo):
                    args = _subscript_args(b)
                    for i, a in enumerate(args):
                        if i < len(base.params):
                            r = self.resolve_expr_static(m, a)
                            if isinstance(r, ClassInfo):
                                out.setdefault(base.params[i], r)
        for b in c.bases:
            for k, v in self.bindings(b).items():
                out.setdefault(k, v)
        return out


def _subscript_args(b: ast.Subscript) -> List[ast.AST]:
    s = b.slice
    if isinstance(s, ast.Tuple):
        return list(s.elts)
    return [s]


def get_model(repo: Repo) -> Model:
    return repo.memo("pymodel", lambda: Model(repo))


# --------------------------------------------------------------------------
# Type inference (flow-insensitive, per analysis unit)
# --------------------------------------------------------------------------

_BUILTIN_SCALARS = {"str": "str", "int": "int", "bool": "bool", "bytes": "bytes", "bytearray": "bytes", "float": "float"}


class Typer:
    """Types expressions inside one function with `self` fixed to a concrete
    receiver class (or None for plain functions)."""

    def __init__(self, model: Model, fn: FuncInfo, self_cls: Optional[ClassInfo]) -> None:
        self.model = model
        self.fn = fn
        self.mod = model.mods[fn.rel]
        self.self_cls = self_cls
        self.binds: Dict[str, ClassInfo] = model.bindings(self_cls) if self_cls else {}
        self.locals: Dict[str, TypeSet] = {}
        self._local_busy: Set[str] = set()
        self._assigns: Dict[str, List[Tuple[str, ast.AST]]] = {}
        self._collect_locals()

    # -- annotations -------------------------------------------------------

    def ann(self, e: Optional[ast.AST], mod: Optional[ModInfo] = None, binds: Optional[Dict[str, ClassInfo]] = None) -> TypeSet:
        mod = mod or self.mod
        binds = self.binds if binds is None else binds
        if e is None:
            return EMPTY
        if isinstance(e, ast.Constant):
            if isinstance(e.value, str):
                try:
                    return self.ann(ast.parse(e.value, mode="eval").body, mod, binds)
                except SyntaxError:
                    return EMPTY
            if e.value is None:
                return ts(Ext("none"))
            return EMPTY
        if isinstance(e, ast.Name):
            if e.id in _BUILTIN_SCALARS:
                return ts(Ext(_BUILTIN_SCALARS[e.id]))
            if e.id in ("Any", "object"):
                return EMPTY
            if e.id == "None":
                return ts(Ext("none"))
            if self.model.is_typevar(mod, e.id):
                if e.id in binds:
                    return ts(Inst(binds[e.id]))
                b = self.model.typevar_bound(mod, e.id)
                return ts(Inst(b)) if b else EMPTY
            r = self.model.resolve_name(mod, e.id)
            if isinstance(r, ClassInfo):
                return ts(Inst(r))
            if isinstance(r, tuple) and r[0] == "assign":
                # type alias:  Value = Union[bool, int, str]
                return self.ann(r[2], r[1], binds)
            if isinstance(r, tuple) and r[0] == "ext":
                return ts(Ext("ext:" + r[1]))
            return EMPTY
        if isinstance(e, ast.Attribute):
            r = self.model.resolve_expr_static(mod, e)
            if isinstance(r, ClassInfo):
                return ts(Inst(r))
            return EMPTY
        if isinstance(e, ast.BinOp) and isinstance(e.op, ast.BitOr):
            return self.ann(e.left, mod, binds) | self.ann(e.right, mod, binds)
        if isinstance(e, ast.Subscript):
            head = e.value
            hn = head.id if isinstance(head, ast.Name) else (head.attr if isinstance(head, ast.Attribute) else "")
            args = _subscript_args(e)
            r = self.model.resolve_expr_static(mod, head) if isinstance(head, (ast.Name, ast.Attribute)) else None
            if isinstance(r, tuple) and r[0] == "ext":
                hn = r[1].split(".")[-1]
            if hn in ("Optional",):
                return self.ann(args[0], mod, binds) | ts(Ext("none"))
            if hn in ("Union",):
                out: TypeSet = EMPTY
                for a in args:
                    out |= self.ann(a, mod, binds)
                return out
            if hn in ("List", "list", "Sequence", "Iterable", "Iterator", "Set", "FrozenSet", "set", "frozenset"):
                kind = "list" if hn in ("List", "list", "Sequence") else ("set" if "et" in hn else "iter")
                return ts(Seq(kind, self.ann(args[0], mod, binds)))
            if hn in ("Tuple", "tuple"):
                if len(args) == 2 and isinstance(args[1], ast.Constant) and args[1].value is Ellipsis:
                    return ts(Seq("tuple", self.ann(args[0], mod, binds)))
                return ts(Tup(tuple(self.ann(a, mod, binds) for a in args)))
            if hn in ("Dict", "dict", "Mapping", "OrderedDict", "dict_"):
                if len(args) == 2:
                    return ts(Map(self.ann(args[0], mod, binds), self.ann(args[1], mod, binds)))
                return EMPTY
            if hn in ("Type", "T"):
                inner = self.ann(args[0], mod, binds)
                return frozenset(ClsObj(a.cls) for a in inner if isinstance(a, Inst))
            if hn in ("ClassVar", "Final"):
                return self.ann(args[0], mod, binds)
            if hn in ("Callable",):
                return EMPTY
            if isinstance(r, ClassInfo):
                # user generic: Block[F], Rule[D] ...
                return ts(Inst(r))
            return EMPTY
        return EMPTY

    # -- locals ------------------------------------------------------------

    def _collect_locals(self) -> None:
        node = self.fn.node
        args = node.args
        allargs = list(args.posonlyargs) + list(args.args) + list(args.kwonlyargs)
        for i, a in enumerate(allargs):
            if i == 0 and self.fn.cls is not None and not self.fn.is_staticmethod:
                if self.fn.is_classmethod:
                    c = self.self_cls or self.fn.cls
                    self.locals[a.arg] = ts(ClsObj(c))
                else:
                    c = self.self_cls or self.fn.cls
                    self.locals[a.arg] = ts(Inst(c))
                continue
            self.locals[a.arg] = self.ann(a.annotation)
        if args.vararg:
            self.locals[args.vararg.arg] = ts(Seq("tuple", self.ann(args.vararg.annotation)))
        if args.kwarg:
            self.locals[args.kwarg.arg] = ts(Map(ts(Ext("str")), self.ann(args.kwarg.annotation)))

        for n in ast.walk(node):
            if isinstance(n, (ast.FunctionDef, ast.Lambda)) and n is not node:
                # nested function / lambda params: untyped
                a = n.args
                for x in list(a.posonlyargs) + list(a.args) + list(a.kwonlyargs):
                    self._assigns.setdefault(x.arg, []).append(("ann", x.annotation) if getattr(x, "annotation", None) else ("unknown", x))
            if isinstance(n, ast.Assign):
                for t in n.targets:
                    self._bind_target(t, ("expr", n.value))
            elif isinstance(n, ast.AnnAssign):
                if isinstance(n.target, ast.Name):
                    self._assigns.setdefault(n.target.id, []).append(("ann", n.annotation))
            elif isinstance(n, ast.AugAssign):
                pass
            elif isinstance(n, ast.For):
                self._bind_target(n.target, ("iter", n.iter))
            elif isinstance(n, ast.comprehension):
                self._bind_target(n.target, ("iter", n.iter))
            elif isinstance(n, ast.With):
                for it in n.items:
                    if it.optional_vars is not None:
                        self._bind_target(it.optional_vars, ("with", it.context_expr))
            elif isinstance(n, ast.NamedExpr):
                self._bind_target(n.target, ("expr", n.value))
            elif isinstance(n, ast.ExceptHandler) and n.name and n.type is not None:
                self._assigns.setdefault(n.name, []).append(("exc", n.type))

    def _bind_target(self, t: ast.AST, how: Tuple[str, ast.AST]) -> None:
        if isinstance(t, ast.Name):
            self._assigns.setdefault(t.id, []).append(how)
        elif isinstance(t, (ast.Tuple, ast.List)):
            for i, el in enumerate(t.elts):
                self._bind_target(el, ("unpack", (how, i)))  # type: ignore[arg-type]
        elif isinstance(t, ast.Starred):
            pass

    def _eval_how(self, how: Any) -> TypeSet:
        kind, payload = how
        if kind == "expr":
            return self.type_of(payload)
        if kind == "ann":
            return self.ann(payload)
        if kind == "iter":
            return self.elem_of(self.type_of(payload))
        if kind == "with":
            t = self.type_of(payload)
            # contextmanager-decorated generators yield their annotation's elem
            return self.elem_of(t) if any(isinstance(a, Seq) for a in t) else t
        if kind == "exc":
            return self.ann(payload)
        if kind == "unpack":
            inner, idx = payload
            t = self._eval_how(inner)
            out: TypeSet = EMPTY
            for a in t:
                if isinstance(a, Tup) and idx < len(a.elems):
                    out |= a.elems[idx]
                elif isinstance(a, Seq):
                    out |= a.elem
            return out
        return EMPTY

    def local(self, name: str) -> Optional[TypeSet]:
        if name in self.locals:
            return self.locals[name]
        if name in self._assigns:
            if name in self._local_busy:
                return EMPTY
            self._local_busy.add(name)
            out: TypeSet = EMPTY
            for how in self._assigns[name]:
                out |= self._eval_how(how)
            self._local_busy.discard(name)
            self.locals[name] = out
            return out
        return None

    # -- helpers -----------------------------------------------------------

    def elem_of(self, t: TypeSet) -> TypeSet:
        out: TypeSet = EMPTY
        for a in t:
            if isinstance(a, Seq):
                out |= a.elem
            elif isinstance(a, Tup):
                for e in a.elems:
                    out |= e
            elif isinstance(a, Map):
                out |= a.key
            elif isinstance(a, Ext) and a.name == "str":
                out |= ts(Ext("str"))
        return out

    def attr_type(self, recv: TypeSet, attr: str, node: Optional[ast.AST] = None) -> TypeSet:
        out: TypeSet = EMPTY
        for a in recv:
            if isinstance(a, Inst):
                out |= self._inst_attr(a.cls, attr)
            elif isinstance(a, ClsObj):
                f = self.model.lookup(a.cls, attr)
                if f is not None:
                    out |= ts(Bound(f, a.cls))
                else:
                    for k in self.model.mro(a.cls):
                        if attr in k.attrs_ann:
                            out |= self.ann(k.attrs_ann[attr], self.model.mods[k.rel], self.model.bindings(a.cls))
                            break
            elif isinstance(a, Map):
                if attr in ("items",):
                    out |= ts(Bound_ext("items", a))
                elif attr in ("values",):
                    out |= ts(Bound_ext("values", a))
                elif attr in ("keys",):
                    out |= ts(Bound_ext("keys", a))
                elif attr in ("get", "pop", "setdefault"):
                    out |= ts(Bound_ext("get", a))
            elif isinstance(a, Seq):
                if attr in ("pop",):
                    out |= ts(Bound_ext("pop", a))
                elif attr in ("copy",):
                    out |= ts(Bound_ext("copy", a))
            elif isinstance(a, tuple) and a and a[0] == "mod":
                r = self.model.resolve_name(a[1], attr)
                out |= self._static_to_type(r)
        return out

    def _inst_attr(self, c: ClassInfo, attr: str) -> TypeSet:
        binds = self.model.bindings(c)
        for k in self.model.mro(c):
            if attr in k.methods:
                f = k.methods[attr]
                if f.is_property:
                    return self.ann(f.node.returns, self.model.mods[k.rel], binds)
                return ts(Bound(f, c))
            if attr in k.attrs_val and isinstance(k.attrs_val[attr], ast.Tuple) and k.attrs_val[attr].elts and all(isinstance(x, ast.Tuple) for x in k.attrs_val[attr].elts):
                # a class-level table of rows: the classes it holds are more exact than `Type[Base]`
                tv = self._module_value_type(self.model.mods[k.rel], k.attrs_val[attr])
                if tv:
                    return tv
            if attr in k.attrs_ann:
                return self.ann(k.attrs_ann[attr], self.model.mods[k.rel], binds)
            if attr in k.inst_attrs:
                out: TypeSet = EMPTY
                for ann, val, fi in k.inst_attrs[attr]:
                    if ann is not None:
                        out |= self.ann(ann, self.model.mods[k.rel], binds)
                    elif val is not None and fi is not self.fn:
                        try:
                            out |= Typer(self.model, fi, c).type_of(val)
                        except RecursionError:
                            pass
                    elif val is not None:
                        out |= self.type_of(val)
                return out
            if attr in k.attrs_val:
                v = k.attrs_val[attr]
                return self._const_type(v)
        return EMPTY

    def _const_type(self, v: ast.AST) -> TypeSet:
        if isinstance(v, ast.Constant):
            if isinstance(v.value, bool):
                return ts(Ext("bool"))
            if isinstance(v.value, int):
                return ts(Ext("int"))
            if isinstance(v.value, str):
                return ts(Ext("str"))
        return EMPTY

    def _static_to_type(self, r: Any) -> TypeSet:
        if isinstance(r, ClassInfo):
            return ts(ClsObj(r))
        if isinstance(r, FuncInfo):
            return ts(FuncObj(r))
        if isinstance(r, tuple) and r[0] == "mod":
            return ts(r)
        if isinstance(r, tuple) and r[0] == "ext":
            return ts(Ext("ext:" + r[1]))
        if isinstance(r, tuple) and r[0] == "assign":
            m, v = r[1], r[2]
            return self._module_value_type(m, v)
        return EMPTY

    def _module_value_type(self, m: ModInfo, v: ast.AST) -> TypeSet:
        # module level values: dict/tuple literals of classes, simple calls
        if isinstance(v, ast.Dict):
            vt: TypeSet = EMPTY
            for x in v.values:
                vt |= self._module_value_type(m, x)
            return ts(Map(EMPTY, vt))
        if isinstance(v, (ast.Tuple, ast.List)):
            # a table of rows keeps its columns apart: ((A, BlockA), (B, BlockB)) iterated as `for k, b in TABLE`
            if v.elts and all(isinstance(x, ast.Tuple) for x in v.elts):
                rows: TypeSet = EMPTY
                for x in v.elts:
                    rows |= ts(Tup(tuple(self._module_value_type(m, y) for y in x.elts)))  # type: ignore[attr-defined]
                return ts(Seq("tuple", rows))
            et: TypeSet = EMPTY
            for x in v.elts:
                et |= self._module_value_type(m, x)
            return ts(Seq("tuple", et))
        if isinstance(v, ast.Name):
            return self._static_to_type(self.model.resolve_name(m, v.id))
        if isinstance(v, ast.Call):
            r = self.model.resolve_expr_static(m, v.func)
            if isinstance(r, ClassInfo):
                return ts(Inst(r))
            if isinstance(r, FuncInfo):
                return Typer(self.model, r, None).ann(r.node.returns)
        if isinstance(v, ast.Constant):
            return self._const_type(v)
        return EMPTY

    # -- expressions -------------------------------------------------------

    def type_of(self, e: ast.AST) -> TypeSet:
        try:
            return self._type_of(e)
        except RecursionError:
            return EMPTY

    def _type_of(self, e: ast.AST) -> TypeSet:
        if isinstance(e, ast.Name):
            loc = self.local(e.id)
            if loc is not None:
                return loc
            if e.id in ("True", "False"):
                return ts(Ext("bool"))
            r = self.model.resolve_name(self.mod, e.id)
            return self._static_to_type(r)
        if isinstance(e, ast.Constant):
            if e.value is None:
                return ts(Ext("none"))
            return self._const_type(e)
        if isinstance(e, ast.JoinedStr):
            return ts(Ext("str"))
        if isinstance(e, ast.Attribute):
            return self.attr_type(self.type_of(e.value), e.attr, e)
        if isinstance(e, ast.Call):
            return self.call_type(e)
        if isinstance(e, ast.Subscript):
            base = self.type_of(e.value)
            out: TypeSet = EMPTY
            is_slice = isinstance(e.slice, ast.Slice)
            for a in base:
                if isinstance(a, Seq):
                    out |= ts(a) if is_slice else a.elem
                elif isinstance(a, Tup):
                    if is_slice:
                        out |= ts(a)
                    elif isinstance(e.slice, ast.Constant) and isinstance(e.slice.value, int) and -len(a.elems) <= e.slice.value < len(a.elems):
                        out |= a.elems[e.slice.value]
                    else:
                        for x in a.elems:
                            out |= x
                elif isinstance(a, Map):
                    out |= a.val
                elif isinstance(a, Ext) and a.name == "str":
                    out |= ts(Ext("str"))
            return out
        if isinstance(e, ast.IfExp):
            return self.type_of(e.body) | self.type_of(e.orelse)
        if isinstance(e, ast.BoolOp):
            out = EMPTY
            for v in e.values:
                out |= self.type_of(v)
            return out
        if isinstance(e, (ast.List, ast.Tuple, ast.Set)):
            if isinstance(e, ast.Tuple) and not any(isinstance(x, ast.Starred) for x in e.elts):
                return ts(Tup(tuple(self.type_of(x) for x in e.elts)))
            et = EMPTY
            for x in e.elts:
                et |= self.type_of(x.value if isinstance(x, ast.Starred) else x)
            return ts(Seq("list" if isinstance(e, ast.List) else "set", et))
        if isinstance(e, (ast.ListComp, ast.GeneratorExp, ast.SetComp)):
            return ts(Seq("list", self.type_of(e.elt)))
        if isinstance(e, ast.DictComp):
            return ts(Map(self.type_of(e.key), self.type_of(e.value)))
        if isinstance(e, ast.Dict):
            kt = vt = EMPTY
            for k, v in zip(e.keys, e.values):
                if k is not None:
                    kt |= self.type_of(k)
                vt |= self.type_of(v)
            return ts(Map(kt, vt))
        if isinstance(e, ast.BinOp):
            lt = self.type_of(e.left)
            if isinstance(e.op, ast.Add):
                return lt | self.type_of(e.right)
            if any(isinstance(a, Ext) and a.name == "str" for a in lt):
                return ts(Ext("str"))
            return ts(Ext("int"))
        if isinstance(e, ast.Compare):
            return ts(Ext("bool"))
        if isinstance(e, ast.UnaryOp):
            return ts(Ext("bool")) if isinstance(e.op, ast.Not) else ts(Ext("int"))
        if isinstance(e, ast.NamedExpr):
            return self.type_of(e.value)
        if isinstance(e, ast.Starred):
            return self.type_of(e.value)
        if isinstance(e, ast.Lambda):
            return EMPTY
        return EMPTY

    def call_type(self, e: ast.Call) -> TypeSet:
        f = e.func
        # builtins / typing helpers by name
        if isinstance(f, ast.Name) and self.local(f.id) is None:
            n = f.id
            if n in ("cast", "cast_or_raise") and len(e.args) == 2:
                t = self.ann(e.args[0])
                return t if t else self.type_of(e.args[1])
            if n in ("tuple", "list", "sorted", "reversed", "set", "frozenset", "iter"):
                if e.args:
                    src = self.type_of(e.args[0])
                    el = self.elem_of(src)
                    return ts(Seq("list" if n in ("list", "sorted") else ("tuple" if n == "tuple" else "iter"), el))
                return ts(Seq("list", EMPTY))
            if n == "enumerate" and e.args:
                return ts(Seq("iter", ts(Tup((ts(Ext("int")), self.elem_of(self.type_of(e.args[0])))))))
            if n == "zip":
                return ts(Seq("iter", ts(Tup(tuple(self.elem_of(self.type_of(a)) for a in e.args)))))
            if n in ("map", "filter"):
                if n == "filter" and len(e.args) == 2:
                    return ts(Seq("iter", self.elem_of(self.type_of(e.args[1]))))
                return ts(Seq("iter", EMPTY))
            if n in ("dict", "dict_"):
                if e.args:
                    el = self.elem_of(self.type_of(e.args[0]))
                    kt = vt = EMPTY
                    for a in el:
                        if isinstance(a, Tup) and len(a.elems) == 2:
                            kt |= a.elems[0]
                            vt |= a.elems[1]
                    return ts(Map(kt, vt))
                return ts(Map(EMPTY, EMPTY))
            if n in ("str", "repr", "format"):
                return ts(Ext("str"))
            if n in ("int", "len", "min", "max", "sum", "abs", "id", "hash", "ord"):
                return ts(Ext("int"))
            if n in ("bool", "isinstance", "issubclass", "callable", "hasattr", "any", "all"):
                return ts(Ext("bool"))
            if n == "type" and len(e.args) == 1:
                t = self.type_of(e.args[0])
                return frozenset(ClsObj(a.cls) for a in t if isinstance(a, Inst))
            if n == "super":
                return ts(("super", e))
            if n == "getattr":
                return EMPTY
            if n == "open":
                return ts(Ext("ext:file"))
        ft = self.type_of(f)
        out: TypeSet = EMPTY
        for a in ft:
            if isinstance(a, ClsObj):
                out |= ts(Inst(a.cls))
            elif isinstance(a, FuncObj):
                out |= self._ret_type(a.fn, None)
            elif isinstance(a, Bound):
                out |= self._ret_type(a.fn, a.recv)
            elif isinstance(a, Bound_ext):
                out |= a.ret()
        return out

    def _ret_type(self, fn: FuncInfo, recv: Optional[ClassInfo]) -> TypeSet:
        binds = self.model.bindings(recv) if recv else {}
        t = self.ann(fn.node.returns, self.model.mods[fn.rel], binds)
        if "contextmanager" in fn.decorators:
            return ts(Seq("iter", self.elem_of(t)))
        # classmethod constructors returning "Option"/"Constant" by string
        return t


@dataclass(frozen=True)
class Bound_ext:
    op: str
    recv: Any

    def ret(self) -> TypeSet:
        r = self.recv
        if isinstance(r, Map):
            if self.op == "items":
                return ts(Seq("iter", ts(Tup((r.key, r.val)))))
            if self.op == "values":
                return ts(Seq("iter", r.val))
            if self.op == "keys":
                return ts(Seq("iter", r.key))
            if self.op == "get":
                return r.val | ts(Ext("none"))
        if isinstance(r, Seq):
            if self.op == "pop":
                return r.elem
            if self.op == "copy":
                return ts(r)
        return EMPTY


def super_targets(m: "Model", c: "ClassInfo") -> Dict[int, ast.FunctionDef]:
    """id(`super().name(...)` call node) -> the implementation the call reaches
    in the MRO of the concrete class c."""
    out: Dict[int, ast.FunctionDef] = {}
    mro = m.mro(c)
    for i, k in enumerate(mro):
        for fi in k.methods.values():
            for n in ast.walk(fi.node):
                if isinstance(n, ast.Call) and isinstance(n.func, ast.Attribute) and isinstance(n.func.value, ast.Call) and isinstance(n.func.value.func, ast.Name) and n.func.value.func.id == "super":
                    for k2 in mro[i + 1 :]:
                        if n.func.attr in k2.methods:
                            out[id(n)] = k2.methods[n.func.attr].node
                            break
    return out
