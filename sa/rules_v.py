"""
V1 value flow from grammar symbols into AST nodes, C6 literal tables and
constant emission, F4 -F filter neutrality.
"""

from __future__ import annotations

import ast
import re
from typing import Any, Dict, List, Optional, Set, Tuple

from .core import Finding, Inconclusive, Repo, RuleResult, enclosing, parent, qualname, rule, short, src_of
from .grammar import PARSER, get_grammar
from .guards import facts_at
from .normal import Poly
from .pymodel import get_model
from .rules_b import _fstring_shape, _index_descriptor, _is_p0, eval_int, live_alts

# (constructor, keyword) -> grammar symbol whose value it must receive
CTOR_FLOW = {
    ("MessageField", "type"): ("type", "reference"),
    ("MessageField", "number"): ("INT_LITERAL", "reference"),
    ("MessageField", "name"): ("message_field_name", "reference"),
    ("Array", "element_type"): ("single_type", "reference"),
    ("Array", "cap"): ("array_capacity", "constant"),
    ("Array", "extensible"): ("optional_extensible_flag", "reference"),
    ("Alias", "type"): ("type", "reference"),
    ("Alias", "name"): ("IDENTIFIER", "reference"),
    ("Enum", "type"): ("UINT_TYPE", "reference"),
    ("Enum", "name"): ("IDENTIFIER", "reference"),
    ("Message", "name"): ("IDENTIFIER", "reference"),
    ("Message", "extensible"): ("optional_extensible_flag", "reference"),
    ("EnumField", "name"): ("IDENTIFIER", "reference"),
    ("EnumField", "value"): ("integer_literal", "constant"),
}
PASS_THROUGH = {
    "type": "reference", "single_type": "reference", "base_type": "reference", "message_field_name": "reference",
    "array_capacity": "constant", "boolean_literal": "constant", "integer_literal": "constant", "string_literal": "constant",
    "const_value": "constant", "calculation_expression": "constant",
}


@rule("V1", "the value of each grammar symbol reaches the AST attribute that is named after it")
def v1(repo: Repo) -> RuleResult:
    res = RuleResult("V1", floor=25)
    g = get_grammar(repo)
    for name, act in g.actions.items():
        alts = g.alts_of_action(name)
        for n in ast.walk(act.node):
            if not (isinstance(n, ast.Call) and isinstance(n.func, ast.Name)):
                continue
            cname = n.func.id
            for kw in n.keywords:
                key = (cname, kw.arg)
                if key not in CTOR_FLOW:
                    continue
                want, part = CTOR_FLOW[key]
                res.inst(part=part, action=name, ctor=cname, keyword=kw.arg, expects=want)
                for lhs, alt in live_alts(n, act.node, alts):
                    L = len(alt) + 1
                    d = _index_descriptor(kw.value, L, act.node, n)
                    if d is None or d[0] != "val":
                        res.unsure(f"V1: {name}: {cname}({kw.arg}=...) does not resolve to a p[k] for `{lhs} : {' '.join(alt)}`")
                        break
                    k = d[1]
                    sym = alt[k - 1] if 1 <= k <= len(alt) else None
                    if sym != want:
                        f = Finding("V1", PARSER, n.lineno, f"Parser.{name}", f"{cname}({kw.arg}={src_of(kw.value)})", f"for `{lhs} : {' '.join(alt)}` the {kw.arg} of the {cname} is taken from symbol {k} (`{sym}`), expected the `{want}` symbol", witness="the field/array/alias gets another value than the one written", tag=f"{name}:{cname}.{kw.arg}:{L}")
                        f.part = part
                        res.bad(f)
                        break
    # pass-through productions
    for lhs, part in PASS_THROUGH.items():
        act = g.action_of(lhs)
        if act is None or lhs not in g.prods:
            res.unsure(f"V1: pass-through nonterminal {lhs} vanished")
            continue
        stores = [n for n in ast.walk(act.node) if isinstance(n, ast.Assign) and any(_is_p0(t) for t in n.targets)]
        res.inst(part=part, action=act.name, passthrough=lhs, stores=[src_of(s.value) for s in stores])
        single_alts = [a for a in g.prods[lhs].alts if len(a) == 1]
        if len(single_alts) != len(g.prods[lhs].alts):
            res.unsure(f"V1: {lhs} has alternatives that are not a single symbol")
            continue
        if len(stores) != 1 or src_of(stores[0].value) != "p[1]":
            f = Finding("V1", PARSER, act.node.lineno, f"Parser.{act.name}", " ; ".join(src_of(s) for s in stores), f"`{lhs}` must pass the value of its only symbol through unchanged (p[0] = p[1])", tag=f"{act.name}:passthrough")
            f.part = part
            res.bad(f)
    # p_enum / p_message pass the scope object of symbol 2
    for lhs in ("enum", "message"):
        act = g.action_of(lhs)
        if act is None:
            continue
        stores = [n for n in ast.walk(act.node) if isinstance(n, ast.Assign) and any(_is_p0(t) for t in n.targets)]
        res.inst(part="reference", action=act.name, stores=[src_of(s.value) for s in stores])
        if len(stores) != 1 or src_of(stores[0].value) != "p[2]":
            f = Finding("V1", PARSER, act.node.lineno, f"Parser.{act.name}", "", f"`{lhs}` must yield the scope object of its body symbol (p[0] = p[2])", tag=f"{act.name}:scope-value")
            f.part = "reference"
            res.bad(f)
        push = [n for n in ast.walk(act.node) if isinstance(n, ast.Call) and isinstance(n.func, ast.Attribute) and n.func.attr == "push_member"]
        if push and stores:
            tgt_names = {src_of(t) for t in stores[0].targets}
            if src_of(push[0].args[0]) not in tgt_names | {"p[2]", "p[0]"}:
                f = Finding("V1", PARSER, push[0].lineno, f"Parser.{act.name}", src_of(push[0]), "the object pushed into the parent scope is not the scope that was just parsed", tag=f"{act.name}:push-value")
                f.part = "reference"
                res.bad(f)

    # constants: const / option / references unwrap to the referenced constant's value
    m = get_model(repo)
    pc = m.mod("bitproto/parser.py").classes["Parser"]

    from .flows import compiler_flow
    from .normal import V as _V
    from .normal import show as _sh

    def paths_of(an: str) -> Optional[List[Any]]:
        act = g.actions.get(an)
        if act is None:
            res.unsure(f"V1: {an} vanished")
            return None
        try:
            fl = compiler_flow(repo, "Parser", "parser.py", inline=lambda n_, f_: n_.startswith("_") and n_ not in ("_lookup_referenced_member", "_get_col"), module_funcs=True)
            prm = [a_.arg for a_ in act.node.args.args]
            return [p_ for p_ in fl.run(act.node, {prm[0]: _V("self"), prm[1]: _V("p")}) if p_.done == "return"]
        except Inconclusive as e:
            res.unsure(f"V1: {an}: {e}")
            return None

    def p0(p_: Any) -> Optional[str]:
        st = [e for e in p_.effects if e.kind == "store" and e.name == "p" and e.args and e.args[0].const_value() == 0]
        return _sh(st[-1].args[1]) if st else None

    def is_const(p_: Any, subj: str, cls_: str) -> Optional[bool]:
        for k_, t_ in p_.guards:
            if k_[0] == "isinstance" and _sh(k_[1]) == subj and k_[2] == (cls_,):
                return t_
        return None

    def value_rule(an: str, subj: str, got: Any, p_: Any, cls_: str = "Constant") -> Optional[str]:
        """the value denoted by symbol `subj`: its unwrapped value when it is a constant, itself otherwise"""
        c = is_const(p_, subj, cls_)
        if c is None:
            return f"`{got}` is used without deciding whether {subj} is a {cls_}"
        want = f"{subj}.unwrap()" if c else subj
        return None if got == want else f"`{got}` is used where {subj} is{'' if c else ' not'} a {cls_}, expected `{want}`"

    for an, ctor, part_msg, wit in (("p_const", "Constant", "a constant's value is not (the unwrapped value of) its const_value symbol p[4], or its name not p[2]", "const A = 1; const B = A"), ("p_option", "Option", "an option's value is not its option_value symbol p[4] / its name not p[2]", "option c.name_prefix = \"x\"")):
        ps = paths_of(an)
        res.inst(part="constant", action=an, paths=len(ps) if ps is not None else None)
        if ps is None:
            continue
        why = None
        for p_ in ps:
            cs = [e for e in p_.effects if e.kind == "call" and e.name == "from_value" and e.recv is not None and _sh(e.recv) == ctor]
            if len(cs) != 1:
                why = f"{ctor}.from_value is not called exactly once on a path"
                continue
            nm, val = cs[0].kw.get("name"), cs[0].kw.get("value")
            # positional arguments by the signature of from_value
            fv = m.lookup(m.cls(ctor, "_ast.py"), "from_value")
            if fv is not None:
                prm_fv = [a_.arg for a_ in fv.node.args.args][1:]
                for i_, a_v in enumerate(cs[0].args or []):
                    if i_ < len(prm_fv) and prm_fv[i_] == "name" and nm is None:
                        nm = a_v
                    if i_ < len(prm_fv) and prm_fv[i_] == "value" and val is None:
                        val = a_v
            if nm is None or _sh(nm) != "p[2]":
                why = f"name={_sh(nm) if nm is not None else None}"
            if val is None:
                why = "no value"
            elif an == "p_const":
                w = value_rule(an, "p[4]", _sh(val), p_)
                why = w or why
            elif _sh(val) != "p[4]":
                why = f"value={_sh(val)}"
            if p0(p_) is None or not p0(p_).startswith(f"{ctor}.from_value("):
                why = why or "the constructed object is not the production's value"
        if why or not ps:
            f = Finding("V1", PARSER, g.actions[an].node.lineno, f"Parser.{an}", why or "", part_msg + (f" ({why})" if why else ""), witness=wit, tag=f"{an}:value")
            f.part = "constant"
            res.bad(f)
    ps = paths_of("p_option_value")
    res.inst(part="constant", action="p_option_value", paths=len(ps) if ps is not None else None)
    if ps is not None:
        why = None
        for p_ in ps:
            got = p0(p_)
            why = (value_rule("p_option_value", "p[1]", got, p_) if got is not None else "p[0] is not set") or why
        if why or not ps:
            f = Finding("V1", PARSER, 0, "Parser.p_option_value", why or "", "an option value that references a constant is not replaced by that constant's value" + (f" ({why})" if why else ""), witness="const N = 4; option c.struct_packing_alignment = N", tag="p_option_value")
            f.part = "constant"
            res.bad(f)
    for an in ("p_constant_reference_for_calculation", "p_constant_reference_for_array_capacity"):
        ps = paths_of(an)
        res.inst(part="constant", action=an, paths=len(ps) if ps is not None else None)
        if ps is None:
            continue
        why = None
        for p_ in ps:
            got = p0(p_)
            if is_const(p_, "p[1]", "IntegerConstant") is not True:
                why = "a path returns normally without having established that p[1] is an integer constant"
            elif got != "p[1].unwrap()":
                why = f"p[0] = {got}"
        if why or not ps:
            f = Finding("V1", PARSER, 0, f"Parser.{an}", why or "", "a constant reference does not denote the referenced integer constant's value" + (f" ({why})" if why else ""), witness="const N = 2; message M { byte[N] a = 1 }", tag=f"{an}:unwrap")
            f.part = "constant"
            res.bad(f)
    uw = m.func("_ast.py", "Constant.unwrap")
    res.inst(part="constant", action="Constant.unwrap")
    rets = [src_of(n.value) for n in ast.walk(uw.node) if isinstance(n, ast.Return) and n.value is not None]
    if rets != ["self.value"]:
        f = Finding("V1", uw.rel, uw.node.lineno, "Constant.unwrap", str(rets), "unwrap() does not return the constant's value", tag="Constant.unwrap")
        f.part = "constant"
        res.bad(f)
    for cn in ("Constant", "Option"):
        fv = m.lookup(m.cls(cn, "_ast.py"), "from_value")
        if fv is None:
            raise Inconclusive(f"anchor function vanished: _ast.py:{cn}.from_value")
        res.inst(part="constant", action=f"{cn}.from_value")
        ok_fv = False
        try:
            from .pyflow import single_atom as _sa1

            fl_fv = compiler_flow(repo, cn, "_ast.py", inline=lambda n_, f_: False)
            prm_fv = [a_.arg for a_ in fv.node.args.args]
            rets_fv = [p_ for p_ in fl_fv.run(fv.node, {prm_fv[0]: _V("cls"), prm_fv[1]: _V("value")}) if p_.done == "return" and p_.ret is not None]
            ok_fv = bool(rets_fv)
            for p_ in rets_fv:
                a_ = _sa1(p_.ret)
                # <class chosen by reflect_subclass_by_value_or_raise(value)>(value=value, **kwds)
                good = a_ is not None and a_[0] in ("call", "mcall") and any((_sa1(x) or ("",))[0] == "kw" and _sa1(x)[1] == "__callee__" and _sh(_sa1(x)[2]).endswith(".reflect_subclass_by_value_or_raise(value)") for x in a_[2] if hasattr(x, "terms")) and any((_sa1(x) or ("",))[0] == "kw" and _sa1(x)[1] == "value" and _sh(_sa1(x)[2]) == "value" for x in a_[2] if hasattr(x, "terms"))
                if not good:
                    ok_fv = False
        except Inconclusive as e:
            res.unsure(f"V1: {cn}.from_value: {e}")
            continue
        if not ok_fv:
            f = Finding("V1", fv.rel, fv.node.lineno, f"{cn}.from_value", "", "from_value does not construct the node with the given value", tag=f"{cn}.from_value")
            f.part = "constant"
            res.bad(f)
        rs = m.lookup(m.cls(cn, "_ast.py"), "reflect_subclass_by_value")
        if rs is None:
            raise Inconclusive(f"anchor function vanished: _ast.py:{cn}.reflect_subclass_by_value")
        from .flows import compiler_flow, value_kind_decider
        from .normal import V as _V, show as _show

        routed: Dict[str, List[str]] = {}
        pr = [a.arg for a in rs.node.args.args]
        for kind in ("true", "false", "int", "str"):
            try:
                fl_ = compiler_flow(repo, cn, "_ast.py", module_funcs=True, decide=value_kind_decider(kind))
                routed[kind] = sorted({_show(p_.ret) for p_ in fl_.run(rs.node, {pr[0]: _V("cls"), pr[1]: _V("value")}) if p_.done == "return" and p_.ret is not None})
            except Inconclusive as e:
                routed[kind] = [f"<{e}>"]
        res.inst(part="constant", action=rs.qual, routed=routed)
        want_r = {"true": [f"Boolean{cn}"], "false": [f"Boolean{cn}"], "int": [f"Integer{cn}"], "str": [f"String{cn}"]}
        if routed != want_r:
            wrong = {k_: v_ for k_, v_ in routed.items() if v_ != want_r[k_]}
            known = {f"Boolean{cn}", f"Integer{cn}", f"String{cn}", "None"}
            if all(len(v_) == 1 and v_[0] in known for v_ in wrong.values()):
                f = Finding("V1", rs.rel, rs.node.lineno, rs.qual, str(routed), f"the value-kind dispatch must test booleans first (bool is an int) and map bool/int/str to Boolean/Integer/String nodes (got {wrong})", witness="const A = true  becomes an integer constant", tag=f"{rs.qual}:dispatch")
                f.part = "constant"
                res.bad(f)
            else:
                res.unsure(f"V1: {rs.qual}: routing {wrong} not recognised")
    # ---- kinds: attributes the validators compare as integers receive integers only
    # (a string or boolean constant reaching them ends in TypeError / a silent True == 1)
    INT_ONLY = {("EnumField", "value"), ("MessageField", "number"), ("Array", "cap")}
    try:
        from .rules_b import action_value_kind, token_value_kind

        fl_k = compiler_flow(repo, "Parser", "parser.py", inline=lambda n_, f_: n_.startswith("_") and n_ not in ("_lookup_referenced_member", "_get_col"), module_funcs=True)
        n_kind = 0
        from .fold import by_name as _bnk, lit_value as _lvk

        memo_k: Dict[str, set] = {}

        def sym_kinds(sym: str, depth: int = 0) -> set:
            """value kinds of a grammar symbol, through pass-through and unwrapping actions (on paths)"""
            if g.is_terminal(sym):
                return set(token_value_kind(g, sym))
            if sym in memo_k:
                return memo_k[sym]
            base = set(action_value_kind(g, sym))
            if depth > 4 or not ({"value", "?"} & base):
                memo_k[sym] = base
                return base
            memo_k[sym] = base  # recursion guard
            act_ = g.action_of(sym)
            out_: set = set()
            if act_ is None:
                return base
            prm_ = [a_.arg for a_ in act_.node.args.args]
            alts_ = [alt for l_, alt in g.alts_of_action(act_.name) if l_ == sym]
            for q_ in fl_k.run(act_.node, {prm_[0]: _V("self"), prm_[1]: _V("p")}):
                if q_.done != "return":
                    continue
                st_ = [e for e in q_.effects if e.kind == "store" and e.name == prm_[1] and e.args and e.args[0].const_value() == 0]
                if not st_:
                    out_.add("None")
                    continue
                tx = _sh(st_[-1].args[1])
                mm_ = re.fullmatch(r"p\[(\d+)\](\.unwrap\(\))?", tx)
                if mm_ is None:
                    out_ |= base - {"value", "?"} or {"?"}
                    continue
                k_ = int(mm_.group(1))
                for alt in alts_:
                    if any(_lvk(kk, tt, _bnk({}, {"len": len(alt) + 1})) is False for kk, tt in q_.guards) or not (1 <= k_ <= len(alt)):
                        continue
                    inner = sym_kinds(alt[k_ - 1], depth + 1)
                    if mm_.group(2):
                        subj_ = f"p[{k_}]"
                        if any(kk[0] == "isinstance" and _sh(kk[1]) == subj_ and tt and set(kk[2]) <= {"IntegerConstant"} for kk, tt in q_.guards) or inner <= {"IntegerConstant"}:
                            out_.add("int")
                        elif any(kk[0] == "isinstance" and _sh(kk[1]) == subj_ and tt and set(kk[2]) <= {"BooleanConstant"} for kk, tt in q_.guards):
                            out_.add("bool")
                        elif any(kk[0] == "isinstance" and _sh(kk[1]) == subj_ and tt and set(kk[2]) <= {"StringConstant"} for kk, tt in q_.guards):
                            out_.add("str")
                        else:
                            out_ |= {"bool", "int", "str"}
                    else:
                        out_ |= inner
            memo_k[sym] = out_ or base
            return memo_k[sym]

        for name, act in g.actions.items():
            if not any(isinstance(c_, ast.Call) and isinstance(c_.func, ast.Name) and any((c_.func.id, k_.arg) in INT_ONLY for k_ in c_.keywords) for c_ in ast.walk(act.node)):
                continue
            prm = [a_.arg for a_ in act.node.args.args]
            alts = [alt for _, alt in g.alts_of_action(name)]
            for p_ in fl_k.run(act.node, {prm[0]: _V("self"), prm[1]: _V("p")}):
                if p_.done != "return":
                    continue
                for e in p_.effects:
                    if e.kind != "call" or not any((e.name, k_) in INT_ONLY for k_ in e.kw):
                        continue
                    for k_, v_ in e.kw.items():
                        if (e.name, k_) not in INT_ONLY:
                            continue
                        n_kind += 1
                        txt = _sh(v_)
                        mm = re.fullmatch(r"p\[(\d+)\](\.unwrap\(\))?", txt)
                        if mm is None:
                            if v_.const_value() is not None:
                                continue
                            res.unsure(f"V1: {name}: {e.name}({k_}={txt}) is not a symbol value")
                            continue
                        k = int(mm.group(1))
                        # alternatives alive on this path (len(p) literals)
                        kinds = set()
                        for alt in alts:
                            if any(_lvk(kk, tt, _bnk({}, {"len": len(alt) + 1})) is False for kk, tt in p_.guards):
                                continue
                            if not (1 <= k <= len(alt)):
                                continue
                            sym = alt[k - 1]
                            kinds |= sym_kinds(sym)
                        subj = f"p[{k}]"
                        int_const = any(kk[0] == "isinstance" and _sh(kk[1]) == subj and tt and set(kk[2]) <= {"IntegerConstant"} for kk, tt in p_.guards)
                        any_const = any(kk[0] == "isinstance" and _sh(kk[1]) == subj and tt and "Constant" in kk[2] for kk, tt in p_.guards)
                        not_const = any(kk[0] == "isinstance" and _sh(kk[1]) == subj and not tt and ("Constant" in kk[2]) for kk, tt in p_.guards)
                        if mm.group(2):
                            ok = int_const or kinds <= {"IntegerConstant"}
                            why = "the unwrapped value of a constant that was not established to be an integer constant"
                        else:
                            plain = {x for x in kinds if x not in ("Constant", "IntegerConstant", "BooleanConstant", "StringConstant")} if not_const else kinds
                            ok = plain <= {"int"}
                            why = f"a value of kind {sorted(plain)}"
                            if not ok and (plain - {"int"}) <= {"?", "value"}:
                                res.unsure(f"V1: {name}: the kind of {e.name}({k_}={txt}) is not known ({sorted(plain)})")
                                continue
                        res.inst(part="kinds", action=name, attribute=f"{e.name}.{k_}", value=txt, symbol_kinds=sorted(kinds), ok=ok)
                        if not ok:
                            f = Finding("V1", PARSER, act.node.lineno, f"Parser.{name}", f"{e.name}({k_}={txt})", f"{e.name}.{k_} receives {why} (path under {p_.guard_text() or 'no condition'}): the validators compare it as an integer (`< 0`, `.bit_length()`), a string constant ends in TypeError instead of a diagnostic", witness='const LABEL = "two"; enum E : uint3 { RED = LABEL }', tag=f"{name}:{e.name}.{k_}:kind")
                            f.part = "kinds"
                            res.bad(f)
        if n_kind == 0:
            res.unsure("V1: no integer-only constructor attribute found in the actions")
    except Inconclusive as e:
        res.unsure(f"V1: kinds: {e}")
    return res


# --------------------------------------------------------------------------
# C6 literal tables / constant emission
# --------------------------------------------------------------------------

FORMATTERS = {"c": ("impls/c/formatter.py", "CFormatter"), "go": ("impls/go/formatter.py", "GoFormatter"), "py": ("impls/py/formatter.py", "PyFormatter")}
BOOL_LIT = {"c": ("true", "false"), "go": ("true", "false"), "py": ("True", "False")}
ESCAPES_NEEDED = ["\\\\", '\\"', "\\n"]


def _is_sanitizer(m: Any, call: ast.Call, mod: Any, cls: Any) -> Tuple[bool, str]:
    f = call.func
    if src_of(f) in ("json.dumps",):
        return True, "json.dumps"
    target = None
    if isinstance(f, ast.Attribute) and isinstance(f.value, ast.Name) and f.value.id == "self" and cls is not None:
        target = m.lookup(cls, f.attr)
    elif isinstance(f, ast.Name):
        r = m.resolve_name(mod, f.id)
        from .pymodel import FuncInfo

        if isinstance(r, FuncInfo):
            target = r
    if target is None:
        return False, f"unknown function {src_of(f)}"
    table = _escape_table(m, target)
    if table is not None:
        missing = [repr(k) for k in ("\\", '"', "\n") if k not in table]
        if missing:
            return False, f"RAW:{target.qual} leaves {missing} unescaped"
        bad = sorted(v for v in table.values() if v not in ESCAPES_VALID_EVERYWHERE)
        if bad:
            return False, f"BADESC:{target.qual} emits the escape sequence(s) {bad}, which are not valid inside a double-quoted literal of every target language (Go rejects \\' in interpreted strings)"
        return True, target.qual
    consts = {n.value for n in ast.walk(target.node) if isinstance(n, ast.Constant) and isinstance(n.value, str)}
    missing = [e for e in ESCAPES_NEEDED if e not in consts]
    if missing:
        return False, f"{target.qual} does not map {missing}"
    return True, target.qual


ESCAPES_VALID_EVERYWHERE = {"\\\\", '\\"', "\\n", "\\r", "\\t", "\\a", "\\b", "\\f", "\\v"}


def _escape_table(m: Any, target: Any) -> Optional[Dict[str, str]]:
    """char -> emitted escape sequence, when the sanitizer is table driven."""
    # the table as a module-level constant, possibly wrapped for str.translate
    mod_t = m.mods.get(target.rel)
    nodes: List[ast.AST] = list(ast.walk(target.node))
    if mod_t is not None:
        for nm in [x for x in ast.walk(target.node) if isinstance(x, ast.Name) and isinstance(x.ctx, ast.Load)]:
            v_ = mod_t.assigns.get(nm.id)
            if isinstance(v_, ast.Call) and src_of(v_.func) in ("str.maketrans", "dict") and len(v_.args) == 1:
                v_ = v_.args[0]
            if isinstance(v_, ast.Dict):
                nodes.append(v_)
    for n in nodes:
        if isinstance(n, ast.Dict) and n.keys and all(isinstance(k, ast.Constant) and isinstance(v, ast.Constant) for k, v in zip(n.keys, n.values)):
            return {k.value: v.value for k, v in zip(n.keys, n.values)}
        if isinstance(n, ast.DictComp) and len(n.generators) == 1:
            g = n.generators[0]
            if src_of(g.iter) in ("Lexer.escaping_chars.items()", "self.escaping_chars.items()") and isinstance(g.target, ast.Tuple) and len(g.target.elts) == 2:
                from .grammar import get_grammar

                esc = get_grammar(m.repo).escaping_chars
                name_v, char_v = (e.id for e in g.target.elts)
                out = {}
                for name, ch in esc.items():
                    def ev(e: ast.AST) -> Optional[str]:
                        if isinstance(e, ast.Name):
                            return name if e.id == name_v else (ch if e.id == char_v else None)
                        if isinstance(e, ast.Constant) and isinstance(e.value, str):
                            return e.value
                        if isinstance(e, ast.BinOp) and isinstance(e.op, ast.Add):
                            a, b = ev(e.left), ev(e.right)
                            return None if a is None or b is None else a + b
                        return None
                    k, v = ev(n.key), ev(n.value)
                    if k is None or v is None:
                        return None
                    out[k] = v
                return out
    return None


@rule("C6", "bool/int/string constants are emitted as literals that denote the declared value")
def c6(repo: Repo) -> RuleResult:
    res = RuleResult("C6", floor=12)
    m = get_model(repo)
    for lang, (rel, cn) in FORMATTERS.items():
        c = m.cls(cn, rel)
        mod = m.mods[c.rel]
        # bool / int literals: values returned on the paths for a true / false / integer argument
        from .flows import compiler_flow
        from .normal import V, show
        from .pyflow import str_of, tpl_shape

        fb = m.lookup(c, "format_bool_value")
        if fb is None:
            res.unsure(f"C6: {cn}.format_bool_value vanished")
        else:
            param = fb.node.args.args[1].arg if len(fb.node.args.args) > 1 else "value"
            got: Dict[bool, List[Any]] = {True: [], False: []}
            for tv in (True, False):
                def dec(key: Any, tv: bool = tv) -> Optional[bool]:
                    if key[0] == "truthy" and show(key[1]) == "value":
                        return tv
                    if key[0] in ("isbool", "eqbool") and "value" in (show(key[1]), show(key[2])):
                        other = key[1] if show(key[2]) == "value" else key[2]
                        cv = other.const_value()
                        return None if cv is None else (bool(cv) == tv)
                    return None

                try:
                    for p_ in compiler_flow(repo, cn, rel, decide=dec).run(fb.node, {"self": V("self"), param: V("value")}):
                        if p_.done == "return" and p_.ret is not None:
                            got[tv].append(str_of(p_.ret) if str_of(p_.ret) is not None else "{" + show(p_.ret) + "}")
                except Inconclusive as e:
                    res.unsure(f"C6: {fb.qual}: {e}")
            got_true, got_false = sorted(set(got[True])), sorted(set(got[False]))
            res.inst(part=lang, where=fb.qual, true=got_true, false=got_false)
            if got_true != [BOOL_LIT[lang][0]] or got_false != [BOOL_LIT[lang][1]]:
                if all("{" not in x for x in got_true + got_false) and got_true and got_false:
                    f = Finding("C6", fb.rel, fb.node.lineno, fb.qual, f"true->{got_true} false->{got_false}", f"boolean literals must be {BOOL_LIT[lang]}", witness="const FLAG = true", tag=f"{cn}:bool")
                    f.part = lang
                    res.bad(f)
                else:
                    res.unsure(f"C6: {fb.qual}: returned values true->{got_true} false->{got_false} not recognised")
        # int
        fi = m.lookup(c, "format_int_value")
        if fi is not None:
            param = fi.node.args.args[1].arg if len(fi.node.args.args) > 1 else "value"
            shapes = []
            try:
                for p_ in compiler_flow(repo, cn, rel, pure=("repr", "hex", "oct", "bin")).run(fi.node, {"self": V("self"), param: V("value")}):
                    if p_.done == "return" and p_.ret is not None:
                        shapes.append(tpl_shape(p_.ret) or "{" + show(p_.ret) + "}")
            except Inconclusive as e:
                res.unsure(f"C6: {fi.qual}: {e}")
            shapes = sorted(set(shapes))
            res.inst(part=lang, where=fi.qual, returns=shapes)
            if not shapes or not all(r in ("{value}", "{repr(value)}") for r in shapes):
                if any(x in r for r in shapes for x in ("hex(", "oct(", "bin(", ":x}", ":o}", ":b}", ":X}")) or any("{" not in r for r in shapes):
                    f = Finding("C6", fi.rel, fi.node.lineno, fi.qual, str(shapes), "integers must be emitted in plain decimal", witness="const N = 255", tag=f"{cn}:int")
                    f.part = lang
                    res.bad(f)
                else:
                    res.unsure(f"C6: {fi.qual}: returned shapes {shapes} not recognised as plain decimal")
        # string: taint value -> quoted template
        fs = m.lookup(c, "format_str_value")
        if fs is None:
            res.unsure(f"C6: {cn}.format_str_value vanished")
        else:
            param = fs.node.args.args[1].arg if len(fs.node.args.args) > 1 else "value"
            rets = [n for n in ast.walk(fs.node) if isinstance(n, ast.Return) and n.value is not None]
            res.inst(part=lang, where=fs.qual, returns=[src_of(r.value) for r in rets])
            for r in rets:
                verdict, why = _str_flow(m, r.value, param, fs.node, mod, c)
                if verdict == "raw":
                    f = Finding("C6", fs.rel, r.lineno, fs.qual, src_of(r.value), "a string constant is placed between quotes verbatim: a quote, backslash or newline in it yields a different string or a syntax error in the generated file", witness='const S = "a\\"b\\\\c\\nd"', tag=f"{cn}:str-raw")
                    f.part = lang
                    res.bad(f)
                elif verdict == "badesc":
                    f = Finding("C6", fs.rel, r.lineno, fs.qual, src_of(r.value), why, witness="const S = \"it's\" compiled to Go: the literal \"it\\'s\" does not compile", tag=f"{cn}:str-badesc")
                    f.part = lang
                    res.bad(f)
                elif verdict == "unknown":
                    res.unsure(f"C6: {fs.qual}: {why}")
    # format_value dispatch: which literal formatter receives a bool / int / str value
    from .flows import compiler_flow
    from .normal import V, show
    from .pyflow import single_atom

    fv = m.func("renderer/formatter.py", "Formatter.format_value")
    vparam = fv.node.args.args[1].arg if len(fv.node.args.args) > 1 else "value"
    routed: Dict[str, List[str]] = {}
    for kind in ("true", "false", "int", "str"):
        def dec(key: Any, kind: str = kind) -> Optional[bool]:
            if key[0] == "isinstance" and show(key[1]) == "value":
                names = set(key[2])
                if kind in ("true", "false"):
                    return bool(names & {"bool", "int"})
                return kind in names
            if key[0] in ("isbool", "eqbool") and "value" in (show(key[1]), show(key[2])):
                other = key[1] if show(key[2]) == "value" else key[2]
                cv = other.const_value()
                if cv is None:
                    return None
                if kind in ("true", "false"):
                    return bool(cv) == (kind == "true")
                if kind == "str":
                    return False
                return False if key[0] == "isbool" else None  # an int may == True
            return None

        outs = []
        try:
            for p_ in compiler_flow(repo, "Formatter", "renderer/formatter.py", decide=dec, primitives=("format_bool_value", "format_int_value", "format_str_value")).run(fv.node, {"self": V("self"), vparam: V("value")}):
                if p_.done == "return" and p_.ret is not None:
                    a_ = single_atom(p_.ret)
                    outs.append(a_[1] if a_ is not None and a_[0] == "mcall" and [show(x) for x in a_[2]] == ["self", "value"] else show(p_.ret))
                elif p_.done == "raise":
                    outs.append("<raise>")
        except Inconclusive as e:
            res.unsure(f"C6: {fv.qual}: {e}")
        routed[kind] = sorted(set(outs))
    res.inst(part="common", where=fv.qual, routed=routed)
    want_route = {"true": ["format_bool_value"], "false": ["format_bool_value"], "int": ["format_int_value"], "str": ["format_str_value"]}
    if routed != want_route:
        wrong = {k: v for k, v in routed.items() if v != want_route[k]}
        known = {"format_bool_value", "format_int_value", "format_str_value", "<raise>"}
        if all(len(v) == 1 and v[0] in known for v in wrong.values()):
            f = Finding("C6", fv.rel, fv.node.lineno, fv.qual, str(routed), f"format_value must dispatch booleans before integers and each kind to its own literal formatter (got {wrong})", witness="const FLAG = true emitted as 1 / True", tag="format_value")
            f.part = "common"
            res.bad(f)
        else:
            res.unsure(f"C6: {fv.qual}: routing {wrong} not recognised")
    # BlockBindConstant properties
    from .rules_d3 import _ret_shapes

    for prop, want_ret in (("constant_value", "{self.formatter.format_value(self.d.value)}"), ("constant_value_type", "{self.formatter.format_constant_type(self.d)}"), ("constant_name", "{self.formatter.format_constant_name(self.d)}")):
        fp = m.func("renderer/block.py", f"BlockBindConstant.{prop}")
        try:
            rets = _ret_shapes(repo, "BlockBindConstant", "renderer/block.py", prop)
        except Inconclusive as e:
            res.unsure(f"C6: {fp.qual}: {e}")
            continue
        res.inst(part="common", where=fp.qual, returns=rets)
        if rets != [want_ret]:
            if len(rets) == 1 and rets[0].startswith("{self.formatter.format_") and rets[0] != want_ret:
                f = Finding("C6", fp.rel, fp.node.lineno, fp.qual, str(rets), f"{prop} must be {want_ret[1:-1]}", tag=f"BlockBindConstant.{prop}")
                f.part = "common"
                res.bad(f)
            else:
                res.unsure(f"C6: {fp.qual}: returns {rets}")
    # emission templates
    from .emit import block_flow, emitted

    for lang, relsfx, cn, want_tpl in (
        ("c", "impls/c/renderer_h.py", "BlockConstant", "#define {self.constant_name} {self.constant_value}"),
        ("go", "impls/go/renderer.py", "BlockConstant", "const {self.constant_name} {self.constant_value_type} = {self.constant_value}"),
        ("py", "impls/py/renderer.py", "BlockConstant", "{self.constant_name}: {self.constant_value_type} = {self.constant_value}"),
    ):
        try:
            c = m.cls(cn, relsfx)
            frel, fcn = FORMATTERS[lang]
            flow = block_flow(repo, cn, relsfx, fcn, frel, {}, keep=("format_value", "format_constant_type", "format_constant_name", "format_comment"))
            rfn = m.lookup(c, "render")
            if rfn is None:
                raise Inconclusive(f"{cn}.render not found")
            ems, unfolded, ok = emitted(flow, rfn.node)
        except Inconclusive as e:
            res.unsure(f"C6: {relsfx}:{cn}: {e}")
            continue
        lines = sorted({t for e_ in ems for _, t in e_})
        res.inst(part=lang, where=f"{cn}", templates=lines)
        sq = lambda x: "".join(x.split())
        if not any(sq(want_tpl) == sq(t) for t in lines):
            cand = [t for t in lines if "constant_value}" in t or "constant_name}" in t]
            if cand and all(t.count("{") == t.count("{self.constant_") for t in cand):
                f = Finding("C6", m.mod(relsfx).rel, c.node.lineno, cn, str(cand), f"constant emission template must be `{want_tpl}`", witness="const N = 255 emitted under the wrong name / with the wrong value", tag=f"{lang}:BlockConstant")
                f.part = lang
                res.bad(f)
            else:
                res.unsure(f"C6: {cn} ({lang}): emitted lines {lines} not recognised")
    # value type names
    for lang, want in (("go", {"format_int_value_type": "int", "format_string_value_type": "string", "format_bool_value_type": "bool"}), ("py", {"format_int_value_type": "int", "format_string_value_type": "str", "format_bool_value_type": "bool"})):
        rel, cn = FORMATTERS[lang]
        c = m.cls(cn, rel)
        for meth, val in want.items():
            f2 = m.lookup(c, meth)
            try:
                got = _ret_shapes(repo, cn, rel, meth) if f2 is not None and f2.cls is c else ([n.value.value for n in ast.walk(f2.node) if isinstance(n, ast.Return) and isinstance(n.value, ast.Constant)] if f2 else None)
            except Inconclusive:
                got = None
            res.inst(part=lang, where=f"{cn}.{meth}", returns=got)
            if got != [val]:
                if got and all("{" not in str(g) for g in got):
                    f = Finding("C6", c.rel, f2.node.lineno if f2 else 0, f"{cn}.{meth}", str(got), f"must return {val!r}", tag=f"{cn}.{meth}")
                    f.part = lang
                    res.bad(f)
                else:
                    res.unsure(f"C6: {cn}.{meth}: returns {got}")
    return res


def _str_flow(m: Any, e: ast.AST, param: str, fn: ast.AST, mod: Any, cls: Any, depth: int = 0) -> Tuple[str, str]:
    """'raw' if `param` reaches e only through formatting; 'ok' if through a
    sanitizer; 'unknown' otherwise."""
    if isinstance(e, ast.Name):
        if e.id == param:
            return "raw", ""
        vals = [n.value for n in ast.walk(fn) if isinstance(n, ast.Assign) and any(isinstance(t, ast.Name) and t.id == e.id for t in n.targets)]
        if len(vals) == 1 and depth < 4:
            return _str_flow(m, vals[0], param, fn, mod, cls, depth + 1)
        return "unknown", f"local {e.id} not single-assigned"
    if isinstance(e, ast.Constant):
        return "ok", ""
    if isinstance(e, ast.JoinedStr):
        vs = [_str_flow(m, v.value, param, fn, mod, cls, depth) for v in e.values if isinstance(v, ast.FormattedValue)]
        return _combine(vs)
    if isinstance(e, ast.BinOp) and isinstance(e.op, (ast.Add, ast.Mod)):
        return _combine([_str_flow(m, e.left, param, fn, mod, cls, depth), _str_flow(m, e.right, param, fn, mod, cls, depth)])
    if isinstance(e, ast.Tuple):
        return _combine([_str_flow(m, x, param, fn, mod, cls, depth) for x in e.elts])
    if isinstance(e, ast.Call):
        f = e.func
        if isinstance(f, ast.Attribute) and f.attr == "format" and isinstance(f.value, ast.Constant):
            return _combine([_str_flow(m, a, param, fn, mod, cls, depth) for a in list(e.args) + [k.value for k in e.keywords]])
        if isinstance(f, ast.Attribute) and f.attr in ("replace", "translate", "encode", "decode") and not (isinstance(f.value, ast.Name) and f.value.id == "self"):
            # a chain of .replace on the value: look for the needed escapes along the chain
            consts = {n.value for n in ast.walk(e) if isinstance(n, ast.Constant) and isinstance(n.value, str)}
            if all(x in consts for x in ESCAPES_NEEDED):
                return "ok", "replace chain"
            return "raw", "replace chain lacks an escape"
        mentions = any(isinstance(n, ast.Name) and n.id == param for n in ast.walk(e))
        if not mentions:
            return "ok", ""
        ok, why = _is_sanitizer(m, e, mod, cls)
        if ok:
            return "ok", why
        if why.startswith("BADESC:"):
            return "badesc", why[7:]
        if why.startswith("RAW:"):
            return "raw", why[4:]
        if src_of(f) in ("str", "repr") :
            return ("raw", "") if src_of(f) == "str" else ("unknown", "repr() quoting differs per language")
        return "unknown", why
    return "unknown", f"expression {src_of(e)[:40]}"


def _combine(vs: List[Tuple[str, str]]) -> Tuple[str, str]:
    for v in vs:
        if v[0] == "badesc":
            return v
    for v in vs:
        if v[0] == "raw":
            return v
    for v in vs:
        if v[0] == "unknown":
            return v
    return "ok", ""


# --------------------------------------------------------------------------
# F4 -F filter neutrality
# --------------------------------------------------------------------------


def show_lit_safe(k: Any, t: bool) -> str:
    from .pyflow import show_lit

    try:
        return show_lit(k, t)
    except Exception:
        return str(k)[:120]


@rule("F4", "the -F list only selects encoder/decoder blocks, with one predicate, and never reaches a template")
def f4(repo: Repo) -> RuleResult:
    res = RuleResult("F4", floor=3)
    m = get_model(repo)
    attr = "optimization_mode_filter_messages"
    sites: List[Tuple[Any, ast.AST]] = []
    for mod in m.mods.values():
        if "/renderer/" not in mod.rel:
            continue
        for c in mod.classes.values():
            for fi in c.methods.values():
                for n in ast.walk(fi.node):
                    if isinstance(n, ast.Attribute) and n.attr == attr and isinstance(n.ctx, ast.Load):
                        sites.append((fi, n))
    selectors = []
    for fi, n in sites:
        par = parent(n)
        # handing the list on under the same name (constructor keyword / attribute copy) is plumbing
        if (isinstance(par, ast.keyword) and par.arg == attr) or (isinstance(par, ast.Assign) and any(isinstance(t, ast.Attribute) and t.attr == attr for t in par.targets)) or (isinstance(par, ast.IfExp) and isinstance(parent(par), ast.keyword) and parent(par).arg == attr):
            res.inst(part="plumbing", where=fi.qual)
            continue
        if fi.qual not in [f.qual for f, _ in selectors]:
            selectors.append((fi, n))
    # C source and C header may share one predicate; Go has its own
    if len(selectors) < 2:
        res.unsure(f"F4: only {len(selectors)} readers of the -F list found (3 confirmed by hand: C source, C header, Go; at least 2 when the C ones share a predicate)")
    from .flows import compiler_flow
    from .normal import show
    from .pyflow import single_atom

    def mentions(p_: Any, needle: str) -> bool:
        return needle in show(p_)

    for fi, n in selectors:
        res.inst(part="selector", where=fi.qual)
        assert fi.cls is not None
        try:
            flow = compiler_flow(repo, fi.cls.name, fi.rel.split("/bitproto/")[-1], inline=lambda nm, fn: nm.startswith("_") and not nm.startswith("__") and nm != "_get_ctx_or_raise", pure=("_get_ctx_or_raise",))
            paths = [p_ for p_ in flow.run(fi.node) if p_.done == "return"]
        except Inconclusive as e:
            res.unsure(f"F4: {fi.qual}: {e}")
            continue
        # classify every path by its literals on the list
        table: Dict[Tuple[bool, bool], set] = {(a_, b_): set() for a_ in (True, False) for b_ in (True, False)}
        odd = None
        leak = None
        elem = None
        for p_ in paths:
            nonempty: Optional[bool] = None
            member: Optional[bool] = None
            for k, t in p_.guards:
                if not any(isinstance(x, Poly) and attr in show(x) for x in k[1:] if isinstance(x, Poly)):
                    continue
                if k[0] == "truthy" and show(k[1]).endswith(attr):
                    nonempty = t
                elif k[0] == "contains" and show(k[1]).endswith(attr):
                    member = t
                    elem = show(k[2])
                elif k[0] == "isnone" and show(k[1]).endswith(attr):
                    nonempty = (not t) if nonempty is None else nonempty
                    if t:
                        nonempty = False
                else:
                    odd = show_lit_safe(k, t)
            outcome = (show(p_.ret) if p_.ret is not None else "None", tuple(repr(e) for e in p_.effects if e.kind in ("call", "setattr", "store") and e.name not in ("_get_ctx_or_raise",)))
            if attr in outcome[0] or any(attr in x for x in outcome[1]):
                leak = outcome
            # effects/returns that do not depend on the list are compared per case
            other = tuple(g for g in p_.guard_text() if attr not in g)
            for a_ in (True, False):
                for b_ in (True, False):
                    if (nonempty is None or nonempty == a_) and (member is None or member == b_):
                        table[(a_, b_)].add((other, outcome))
        if leak is not None:
            res.bad(Finding("F4", fi.rel, fi.node.lineno, fi.qual, str(leak)[:200], "the -F list is used outside a selection condition (it may influence generated text)", tag=f"{fi.qual}:use"))
            continue
        if odd is not None:
            res.unsure(f"F4: {fi.qual}: condition `{odd}` on the -F list is not a truth / membership test")
            continue
        full = table[(False, True)]
        if table[(False, False)] != full or table[(True, True)] != full:
            res.bad(Finding("F4", fi.rel, fi.node.lineno, fi.qual, "", "a message's encoder/decoder is skipped under a condition other than `-F list non-empty and message name not in it`", witness="-F Foo also drops / keeps other messages", tag=f"{fi.qual}:predicate"))
            continue
        if table[(True, False)] == full:
            res.bad(Finding("F4", fi.rel, fi.node.lineno, fi.qual, "", "the -F list is read but selects nothing", tag=f"{fi.qual}:no-effect"))
            continue
        if elem is not None and elem.endswith(".name") and not elem.endswith("d.name"):
            # a predicate helper taking the message as a parameter: every caller hands it the dispatched definition
            base_ = elem[: -len(".name")]
            prm_ = [a_.arg for a_ in fi.node.args.args]
            if base_ in prm_[1:]:
                k_ = prm_.index(base_) - 1
                callers = [c_ for mod_ in m.mods.values() if "/renderer/" in mod_.rel for c_ in ast.walk(mod_.tree) if isinstance(c_, ast.Call) and isinstance(c_.func, ast.Attribute) and c_.func.attr == fi.node.name]
                args_ = [src_of(c_.args[k_]) if len(c_.args) > k_ else next((src_of(kw_.value) for kw_ in c_.keywords if kw_.arg == base_), None) for c_ in callers]
                if callers and all(a_ in ("d", "self.d") for a_ in args_):
                    elem = "d.name"
        if elem is None or not elem.endswith("d.name"):
            if elem is not None and ".format_" in elem and "name(" in elem:
                res.bad(Finding("F4", fi.rel, fi.node.lineno, fi.qual, elem, f"membership in the -F list is tested for `{elem}` (the name as generated, with prefix / nesting / case conversion), not for the message's schema name: -F Foo selects nothing, or another message, once names are transformed", witness="c.name_prefix = \"My\" with -F Foo: no encoder is generated for Foo", tag=f"{fi.qual}:element"))
            else:
                res.unsure(f"F4: {fi.qual}: membership is tested for `{elem}`, expected the dispatched message's name")
    # data-structure dispatchers do not read it; Go keeps struct/size before the filter
    for relsfx, cn in (("impls/c/renderer_h.py", "BlockDataStructuresList"),):
        c = m.mod(relsfx).classes.get(cn)
        res.inst(part="data", where=cn)
        if c is None:
            res.unsure(f"F4: {cn} vanished")
        elif attr in src_of(c.node) or "filter_messages" in src_of(c.node):
            res.bad(Finding("F4", c.rel, c.node.lineno, cn, "", "type/constant/size declarations depend on -F", witness="-O -F Foo drops struct Bar", tag=f"{cn}:reads-filter"))
    try:
        gb = m.func("impls/go/renderer.py", "BlockMessageOpMode.blocks")
        res.inst(part="data", where=gb.qual)
        gflow = compiler_flow(repo, "BlockMessageOpMode", "impls/go/renderer.py", pure=("_get_ctx_or_raise",))
        for p_ in gflow.run(gb.node):
            if p_.done != "return" or p_.ret is None:
                continue
            text = show(p_.ret) + " " + " ".join(repr(e) for e in p_.effects if e.kind == "call" and e.name in ("extend", "append", "insert"))
            for need in ("BlockMessageStruct(self.d)", "BlockMessageSizeConst(self.d)", "BlockMessageMethodSize(self.d)"):
                if need not in text:
                    res.bad(Finding("F4", gb.rel, gb.node.lineno, gb.qual, need, f"Go: struct / size declarations are not emitted on the path under {p_.guard_text()} (they must not depend on the -F selection)", witness="-O -F Foo drops struct Bar", tag=f"go:{need}"))
    except Inconclusive as e:
        res.unsure(f"F4: {e}")
    # header declarations and source definitions use the same predicate: both selectors in C passed the normal form above
    return res
