"""
Generated accessors and sign extension, judged on what the generators emit.

For every *type shape* a field can have (leaf class x array / alias wrapping)
the render() of each accessor item block is summarised by the path engine
(sa.emit): class tests are decided from the shape, widths are folded from a
table, block and formatter helpers are inlined.  What remains is the text of
the generated branch with named holes.  The rules compare that text with the
branch the layout rule prescribes for the shape:

    data reference  = field + one index per array depth crossed
    branch selector = this field's number
    get byte        = (ref >> rshift) narrowed to a byte (after the shift)
    set byte        = ref |= widen(b) << lshift    (`=` only for bool)
    sign extension  = only for int narrower than its storage, from bit n-1

Nothing here depends on how the generator computes the text: locals, helper
methods, base classes, branch order and string formatting style are free.
"""

from __future__ import annotations

import ast
import re
from typing import Any, Callable, Dict, List, Optional, Sequence, Tuple

from .core import Finding, Inconclusive, Repo, RuleResult, rule, short, src_of
from .emit import Shape, all_shapes, block_flow, emitted, shape_name, subjects_of
from .fold import by_name
from .normal import C
from .pymodel import get_model

KEEP = ("format_definition_name", "format_enum_name", "format_alias_name", "format_message_name", "format_message_field_name", "format_int_value", "get_nbits_of_integer")
NAME = "@NAME@"  # any naming-function hole applied to the given path

LANGS = {
    "py": {"rel": "impls/py/renderer.py", "fmt": "PyFormatter", "fmt_rel": "impls/py/formatter.py", "ref": "self.", "idx": "[di.i({k})]", "case": "if di.field_number == {N}:", "ind": 4,
           "items": {"set": "BlockMessageMethodSetByteItem", "get": "BlockMessageMethodGetByteItem", "sign": "BlockMessageMethodProcessIntItem", "acc": "BlockMessageMethodGetAccessorItem"}},
    "go": {"rel": "impls/go/renderer.py", "fmt": "GoFormatter", "fmt_rel": "impls/go/formatter.py", "ref": "m.", "idx": "[di.I({k})]", "case": "case {N}:", "ind": 1,
           "items": {"set": "BlockMessageMethodBpSetByteItem", "get": "BlockMessageMethodBpGetByteItem", "sign": "BlockMessageMethodBpProcessIntItem", "acc": "BlockMessageMethodBpGetAccessorItem"}},
}
NUM = "{self.formatter.format_int_value(self.d.number)}"
FIELD = "{self.message_field_name}"


def storage(n: int) -> int:
    return 8 if n <= 8 else 16 if n <= 16 else 32 if n <= 32 else 64


def _leaf(shape: Shape) -> str:
    while shape[0] in ("Array", "Alias"):
        shape = shape[1]
    return shape[0]


def _direct_alias(shape: Shape) -> bool:
    """the leaf is reached directly through an alias (alias -> leaf)"""
    prev = None
    cur: Any = shape
    while cur[0] in ("Array", "Alias"):
        prev, cur = cur, cur[1]
    return prev is not None and prev[0] == "Alias"


def accepted_items(lang: str, kind: str, shape: Shape, n: int) -> List[List[Tuple[int, str]]]:
    """Primary expected branch first, then other emissions that are equally
    right: extending the sign of an int that already fills its storage is an
    idempotent no-op in Python (|= with all-ones above bit 63 of a negative
    number) and Go (shift by 0)."""
    out = [expected_item(lang, kind, shape, n)]
    if kind == "sign" and _leaf(shape) == "Int" and n >= storage(n):
        out.append(expected_item(lang, kind, shape, n, force_sign=True))
    return out


def expected_item(lang: str, kind: str, shape: Shape, n: int, force_sign: bool = False) -> List[Tuple[int, str]]:
    """The branch the generated accessor must have for this shape ([] = none)."""
    L = LANGS[lang]
    subj, leaf_path, aliases, depth = subjects_of(shape)
    leaf = _leaf(shape)
    ref = L["ref"] + FIELD + "".join(L["idx"].format(k=k) for k in range(depth))
    case = (0, L["case"].format(N=NUM))
    ind = L["ind"]
    S = storage(n)
    via_alias = _direct_alias(shape)
    alias_path = aliases[-1] if aliases else None
    if kind == "acc":
        if leaf != "Message":
            return []
        return [case, (ind, f"return {ref}" if lang == "py" else f"return &({ref})")]
    if leaf == "Message":
        return []
    if kind == "get":
        if lang == "py":
            v = f"int({ref})" if leaf == "Bool" else ref
            return [case, (ind, f"return ({v} >> rshift) & 255")]
        if leaf == "Bool":
            v = f"bp.Bool2byte(bool({ref}))" if via_alias else f"bp.Bool2byte({ref})"
            return [case, (ind, f"return {v} >> rshift")]
        return [case, (ind, f"return byte({ref} >> rshift)")]
    if kind == "set":
        if lang == "py":
            if leaf == "Bool":
                return [case, (ind, f"{ref} = bool(b)")]
            if leaf == "Int":
                return [case, (ind, f"{ref} |= bp.int{S}((int(b) << lshift))")]
            if leaf == "Enum" and depth == 0:
                return [case, (ind, f"self.@PROXY@{FIELD} |= (int(b) << lshift)")]
            return [case, (ind, f"{ref} |= (int(b) << lshift)")]
        if leaf == "Bool":
            if via_alias:
                return [case, (ind, f"{ref} = {NAME}({alias_path})(bp.Byte2bool(b))")]
            return [case, (ind, f"{ref} = bp.Byte2bool(b)")]
        if via_alias:
            T = f"{NAME}({alias_path})"
        elif leaf == "Int":
            T = f"int{S}"
        elif leaf == "Uint":
            T = f"uint{S}"
        elif leaf == "Byte":
            T = "byte"
        else:
            T = f"{NAME}({leaf_path})"
        return [case, (ind, f"{ref} |= ({T}(b) << lshift)")]
    if kind == "sign":
        if leaf != "Int" or (n >= S and not force_sign):
            return []
        if lang == "py":
            return [case, (ind, f"if ({ref} >> {n - 1}) & 1:"), (2 * ind, f"{ref} |= {-(1 << n)}"), (ind, "return")]
        return [case, (ind, f"{ref} <<= {S - n}"), (ind, f"{ref} >>= {S - n}")]
    return []


def _squash(x: str) -> str:
    return "".join(x.split())


def _pattern(text: str, proxy: str) -> "re.Pattern[str]":
    t = _squash(text).replace("@PROXY@", proxy)
    parts = re.split(r"(@NAME@\([^)]*\))", t)
    out = ""
    for p in parts:
        mm = re.fullmatch(r"@NAME@\(([^)]*)\)", p)
        if mm:
            out += r"\{self\.formatter\.format_\w*name\(" + re.escape(mm.group(1)) + r"\)\}"
        else:
            out += re.escape(p)
    return re.compile(out)


KNOWN_HOLES = re.compile(r"\{self\.message_field_name\}|\{self\.formatter\.format_int_value\(self\.d\.number\)\}|\{self\.formatter\.format_\w*name\([\w.]*\)\}")


def _classify(lang: str, kind: str, shape: Shape, got: List[Tuple[Optional[int], str]], want: List[Tuple[int, str]]) -> Tuple[str, str, str]:
    """(tag, message, witness) for a mismatch"""
    sn = shape_name(shape)
    gtxt = [t for _, t in got]
    wtxt = [t for _, t in want]
    if want and not got:
        return ("coverage", f"no branch is generated for a field of shape {sn}: the traversal does not reach this leaf", "type Row = int24[3]; message M { Row r = 1 }: no branch for field 1 in the generated accessor")
    if got and not want:
        return ("extra", f"a branch is generated for a field of shape {sn} that must not have one", "a field of this shape is processed twice / sign-extended although it fills its storage")
    if len(got) >= 1 and len(want) >= 1 and _squash(gtxt[0]) != _squash(wtxt[0]):
        return ("case", "the branch is not selected by this field's number", "two fields: bytes of field 2 are written into field 1")
    gi = [i for i, _ in got]
    wi = [i for i, _ in want]
    body_g = " ; ".join(gtxt[1:])
    body_w = " ; ".join(wtxt[1:])
    idx = re.findall(r"\[di\.[iI]\(\d+\)\]", body_g)
    idx_w = re.findall(r"\[di\.[iI]\(\d+\)\]", body_w)
    if idx != idx_w:
        return ("data_ref", f"for shape {sn} the data reference is indexed `{''.join(idx) or '(no index)'}`, expected `{''.join(idx_w) or '(no index)'}`: one index per array depth, depths 0..depth-1", "byte[3] a: the accessor refers to `a` instead of `a[i]` / all elements alias element 0")
    if kind == "set":
        if ("|=" in body_w) != ("|=" in body_g):
            return ("assign", f"for shape {sn} the chunk is stored with `{'=' if '|=' in body_w else '|='}`: plain `=` is for bool only, every other leaf is ORed chunk by chunk", "uint16 field: the second chunk overwrites the first")
        if "_enum_field_proxy" in body_w and "_enum_field_proxy" not in body_g:
            return ("enum-proxy", "chunks of a direct enum field are ORed through the enum property: its getter constructs the enum from a partial value", "uint12 enum at offset 3")
        if "bp.int" in body_w and body_w.split("bp.int")[1][:2] != (body_g.split("bp.int")[1][:2] if "bp.int" in body_g else ""):
            return ("caster", f"for shape {sn} signed chunks are not converted with bp.int<storage bits>", "int8 holding -1 decodes as 255")
        if "<< lshift" in body_w and re.search(r"\(b\s*<<\s*lshift\)", body_g):
            return ("widen", "the byte is shifted before it is widened to the field's type", "uint16: T(b << 8) is always 0")
        return ("or", f"for shape {sn} set-byte does not OR (converted chunk << lshift) into the field", "uint16: the second chunk overwrites the first")
    if kind == "get":
        if lang == "go" and "byte(" in body_w and re.search(r"byte\([^()]*\)\s*>>", body_g):
            return ("narrow", "Go get-byte must narrow after shifting: byte(data >> rshift)", "uint16: byte(data) >> 8 is always 0")
        return ("shape", f"for shape {sn} get-byte does not return (data reference >> rshift) as a byte", "uint16: the second byte reads as the first")
    if kind == "sign":
        if gi != wi:
            return ("indent", "the sign-extension statements are not nested under their test", "")
        return ("sign", f"for shape {sn} the sign extension is not: test bit n-1, then set all bits from n upward", "int5 holding -3")
    return ("shape", f"for shape {sn} the generated accessor branch differs", "")


def _proxy_prefix(repo: Repo) -> str:
    m = get_model(repo)
    mod = m.mod("impls/py/renderer.py")
    v = mod.assigns.get("_enum_field_proxy_prefix")
    if isinstance(v, ast.Constant) and isinstance(v.value, str):
        return v.value
    raise Inconclusive("_enum_field_proxy_prefix is not a module-level string constant of impls/py/renderer.py")


SIGN_WIDTHS = list(range(1, 65))
SET_WIDTHS = [3, 8, 12, 16, 24, 32, 33, 64]


def judge_items(repo: Repo, res: RuleResult, rule_id: str, kinds: Sequence[str], part_of: Callable[[str, str], str], only_tags: Optional[Sequence[str]] = None, leaves: Optional[Sequence[str]] = None) -> None:
    m = get_model(repo)
    proxy = _proxy_prefix(repo)
    byte_shapes = all_shapes()
    msg_shapes: List[Shape] = [("Message",), ("Array", ("Message",)), ("Alias", ("Array", ("Message",))), ("Array", ("Alias", ("Array", ("Message",))))]
    for lang, L in LANGS.items():
        for kind in kinds:
            cls = L["items"][kind]
            try:
                c = m.cls(cls, L["rel"])
                rfn = m.lookup(c, "render")
                if rfn is None:
                    raise Inconclusive(f"{cls}.render not found")
            except Inconclusive as e:
                res.unsure(f"{rule_id}: {e}")
                continue
            reported: set = set()
            shapes = (byte_shapes + msg_shapes) if kind != "sign" else [s for s in byte_shapes + msg_shapes]
            npoints = 0
            for shape in shapes:
                subj, leaf_path, aliases, depth = subjects_of(shape)
                leaf = _leaf(shape)
                if leaves is not None and leaf not in leaves:
                    continue
                widths = [12]
                if leaf == "Int":
                    widths = SIGN_WIDTHS if kind == "sign" else (SET_WIDTHS if kind == "set" else [12])
                elif leaf == "Uint" and kind == "set" and lang == "go":
                    widths = SET_WIDTHS
                try:
                    flow = block_flow(repo, cls, L["rel"], L["fmt"], L["fmt_rel"], subj, keep=KEEP, pure=KEEP + ("nbits", "nbytes"))
                except Inconclusive as e:
                    res.unsure(f"{rule_id}: {cls}: {e}")
                    break
                for n in widths:
                    repl = by_name({}, {"nbits": n, "nbytes": (n + 7) // 8, "get_nbits_of_integer": storage(n)})
                    try:
                        ems, unfolded, ok = emitted(flow, rfn.node, init={"self.array_depth": C(0)}, repl=repl)
                    except Inconclusive as e:
                        res.unsure(f"{rule_id}: {cls} ({shape_name(shape)}): {e}")
                        break
                    npoints += 1
                    if unfolded:
                        res.unsure(f"{rule_id}: {cls} ({shape_name(shape)}): condition `{str(unfolded[0])[:120]}` is not decided by the shape / width")
                        break
                    uniq = []
                    for e_ in ems:
                        if e_ not in uniq:
                            uniq.append(e_)
                    if len(uniq) != 1:
                        res.unsure(f"{rule_id}: {cls} ({shape_name(shape)}): {len(uniq)} different emissions for one shape")
                        break
                    got = uniq[0]
                    alts = accepted_items(lang, kind, shape, n)
                    want = alts[0]
                    if any(len(got) == len(w) and all(gi == wi and _pattern(wt, proxy).fullmatch(_squash(gt)) for (gi, gt), (wi, wt) in zip(got, w)) for w in alts):
                        continue
                    # anything in the emission that the analysis could not resolve?
                    leftovers = [t for _, t in got if KNOWN_HOLES.sub("", t).count("{")]
                    if leftovers:
                        res.unsure(f"{rule_id}: {cls} ({shape_name(shape)}): emitted line `{leftovers[0]}` has an unresolved part")
                        break
                    def loose(text: str, is_want: bool) -> str:
                        t = _squash(text)
                        if is_want:
                            t = re.sub(r"@NAME@\([^)]*\)", "H", t.replace("@PROXY@", proxy))
                        t = KNOWN_HOLES.sub("H", t)
                        return t.replace("(", "").replace(")", "")

                    if len(got) == len(want) and all(gi == wi and loose(gt, False) == loose(wt, True) for (gi, gt), (wi, wt) in zip(got, want)):
                        res.unsure(f"{rule_id}: {cls} ({shape_name(shape)}): emission differs from the expected branch only in parentheses; precedence not judged")
                        break
                    tag, msg, wit = _classify(lang, kind, shape, got, want)
                    if only_tags is not None and tag not in only_tags:
                        continue
                    key = (cls, tag)
                    if key in reported:
                        continue
                    reported.add(key)
                    where = f"{cls}.render"
                    f = Finding(rule_id, m.mod(L["rel"]).rel, c.node.lineno, where, " ; ".join(t for _, t in got)[:300] or "(nothing)", msg + (f" (width {n})" if leaf == "Int" and kind in ("sign", "set") else "") + f"; expected `{' ; '.join(t for _, t in want).replace('@PROXY@', proxy).replace('@NAME@', 'name') or '(nothing)'}`", witness=wit, tag=f"{lang}:{cls}:{tag}")
                    f.part = part_of(lang, kind)
                    res.bad(f)
            res.inst(part=part_of(lang, kind), where=f"{cls}.render", kind=kind, shapes=len(shapes), points=npoints)


# --------------------------------------------------------------------------
# optimization-mode sign hooks (C, Go)
# --------------------------------------------------------------------------


def judge_hooks(repo: Repo, res: RuleResult) -> None:
    from .flows import compiler_flow
    from .fold import feasible
    from .normal import V
    from .pyflow import single_atom
    from .emit import render_hole
    from .pyflow import tpl_shape
    from .rules_e import CF, GF, SCENARIOS, _scenario_decider

    m = get_model(repo)
    for lang, cls, rel in (("c", "CFormatter", CF), ("go", "GoFormatter", GF)):
        try:
            fi = m.func(rel, f"{cls}.post_format_op_mode_endecode_single_type")
        except Inconclusive as e:
            res.unsure(f"D4: {e}")
            continue
        params = [a.arg for a in fi.node.args.args]
        if len(params) != 4:
            res.unsure(f"D4: {fi.qual}: parameter list is {params}")
            continue
        reported = False
        points = 0
        for tcls, target in SCENARIOS:
            leaf = target or tcls
            for enc in (True, False):
                if reported:
                    break
                flow = compiler_flow(repo, cls, rel, decide=_scenario_decider(repo, tcls, target, {"is_encode": enc}), pure=("nbits", "nbytes", "get_nbits_of_integer"), primitives=("get_nbits_of_integer",))
                try:
                    paths = flow.run(fi.node, {params[0]: V("self"), params[1]: V("t"), params[2]: V("chain"), params[3]: V("is_encode")})
                except Inconclusive as e:
                    res.unsure(f"D4: {fi.qual}: {e}")
                    reported = True
                    break
                for n in (range(1, 65) if leaf == "Int" else (12,)):
                    S = storage(n)
                    repl = by_name({}, {"nbits": n, "nbytes": (n + 7) // 8, "get_nbits_of_integer": S})
                    ok, unfolded = feasible(paths, repl)
                    if unfolded:
                        res.unsure(f"D4: {fi.qual}: condition `{str(unfolded[0])[:100]}` does not fold for width {n}")
                        reported = True
                        break
                    outs = []
                    for p in ok:
                        if p.done != "return" or p.ret is None:
                            continue
                        a = single_atom(p.ret)
                        if a is None or a[0] != "tuple":
                            outs.append(None)
                            continue
                        outs.append([tpl_shape(x, lambda h: render_hole(h, repl)) or "{?}" for x in a[1]])
                    points += 1
                    if None in outs or len({str(o) for o in outs}) != 1:
                        res.unsure(f"D4: {fi.qual}: the hook's result for {tcls}{'->' + target if target else ''} width {n} is not one list of statements")
                        reported = True
                        break
                    got = outs[0]
                    if leaf == "Int" and not enc and n < S:
                        if lang == "c":
                            masks = [str(-(1 << n))] + (["(-9223372036854775807 - 1)"] if n == 63 else [])
                            wants = [[f"if (({{chain}} >> {n - 1}) & 1) {{chain}} |= {mk};"] for mk in masks]
                        else:
                            wants = [[f"{{chain}} <<= {S - n}", f"{{chain}} >>= {S - n}"]]
                    else:
                        wants = [[]]
                    if [_squash(x) for x in got] in [[_squash(x) for x in w] for w in wants]:
                        continue
                    if any("{" in KNOWN_HOLES.sub("", x.replace("{chain}", "")) for x in got):
                        res.unsure(f"D4: {fi.qual}: emitted statement `{got}` has an unresolved part")
                        reported = True
                        break
                    if wants[0] and not got:
                        why = f"no sign extension is emitted for {tcls}{'->' + target if target else ''} of width {n} (storage {S}): negative values decode as large positives"
                        tag = "skip-set" if tcls == "Int" else "dispatch"
                    elif got and not wants[0]:
                        why = f"a sign step is emitted for {tcls}{'->' + target if target else ''} width {n} on {'encode' if enc else 'decode'} where none is needed" if leaf == "Int" and not enc else (f"the sign step is also emitted into the encoder" if enc else f"a sign step is emitted for a {leaf}")
                        tag = "encode" if enc else "extra"
                    else:
                        why = f"the sign extension for width {n} is `{' ; '.join(got)}`"
                        tag = "mask" if lang == "c" else "distance"
                    f = Finding("D4", fi.rel, fi.node.lineno, fi.qual, " ; ".join(got) or "(nothing)", why + f"; expected `{' ; '.join(wants[0]) or '(nothing)'}`", witness=f"int{n} holding -1 with -O" if leaf == "Int" else "type T = int5; T x = 1 holding -1 with -O", tag=f"{fi.qual}:{tag}")
                    f.part = lang
                    res.bad(f)
                    reported = True
                    break
        res.inst(part=lang, function=fi.qual, scenarios=len(SCENARIOS), points=points)
