"""
Family D/E (Python, Go, planner): chunk plan against the specification normal
form (D1) and the numeric obligations of the chunk loop (E1).
"""

from __future__ import annotations

import ast
from typing import Any, Dict, List, Optional, Tuple

from .core import Finding, Inconclusive, Repo, RuleResult, rule, short, src_of
from .golower import GoLower
from .gomodel import GO_RT, get_go, go_src
from .normal import C, Poly, V, band, call, div8, mod8, pow2, show, sshift, trunc8, vmin
from .numeric import Facts, interval, prove_ge, prove_le
from .pymodel import get_model
from .symeval import Effect, PyLower

BP = "lib/py/bitprotolib/bp.py"
FMT = "compiler/bitproto/renderer/formatter.py"

i_, j_, c_, n_ = V("i"), V("j"), V("c"), V("n")


def spec_mask(k: Poly) -> Poly:
    return pow2(k + c_) - pow2(k)


SPEC = {
    "encode": {
        "stream_index": div8(i_),
        "value_shift": j_ - mod8(j_),  # 8*div8(j)
        "shift": mod8(j_) - mod8(i_),
        "mask": spec_mask(mod8(i_)),
    },
    "decode": {
        "stream_index": div8(i_),
        "value_shift": j_ - mod8(j_),
        "shift": mod8(i_) - mod8(j_),
        "mask": spec_mask(mod8(j_)),
    },
}


def _strip_trunc_mask(p: Poly) -> Poly:
    """trunc8(pow2(a) - pow2(b)) -> pow2(a) - pow2(b): harmless when E1 shows
    a <= 8 (then the value is in [0, 255]); E1 is evaluated separately."""
    if len(p.terms) == 1:
        (m, c), = p.terms.items()
        if c == 1 and len(m) == 1 and m[0][1] == 1 and m[0][0][0] == "trunc8":
            return m[0][0][1]
    return p


def _and_parts(p: Poly) -> Optional[List[Poly]]:
    if len(p.terms) == 1:
        (m, c), = p.terms.items()
        if c == 1 and len(m) == 1 and m[0][1] == 1 and m[0][0][0] == "and":
            return list(m[0][0][1])
    return None


def _sshift_parts(p: Poly) -> Optional[Tuple[Poly, Poly]]:
    if len(p.terms) == 1:
        (m, c), = p.terms.items()
        if c == 1 and len(m) == 1 and m[0][1] == 1 and m[0][0][0] == "sshift":
            return m[0][0][1], m[0][0][2]
    return None


def _single_atom(p: Poly) -> Optional[Tuple]:
    if len(p.terms) == 1:
        (m, c), = p.terms.items()
        if c == 1 and len(m) == 1 and m[0][1] == 1:
            return m[0][0]
    return None


def check_chunk(res: RuleResult, lang: str, file: str, direction: str, fname: str, line: int, effects: List[Effect], getter: str, setter: str) -> None:
    """Compare one encode/decode single-chunk function with the spec."""
    spec = SPEC[direction]
    part = lang

    def bad(tag: str, msg: str, got: str, want: str, witness: str) -> None:
        f = Finding("D1", file, line, fname, f"{got}", f"{direction} chunk: {msg}: is `{got}`, the layout rule requires `{want}`", witness=witness, tag=f"{lang}:{fname}:{tag}")
        f.part = part
        res.bad(f)

    if direction == "encode":
        stores = [e for e in effects if e.kind == "store" and e.name == "s"]
        res.inst(part=part, function=fname, direction=direction, effects=[repr(e) for e in effects][:4])
        if len(stores) != 1:
            res.unsure(f"D1: {lang}:{fname}: expected exactly one store into the stream buffer, found {len(stores)} (shape gate)")
            return
        st = stores[0]
        idx, val = st.args
        if idx != spec["stream_index"]:
            bad("index", "stream byte index", show(idx), show(spec["stream_index"]), "any field that does not start at bit 0")
        if st.op not in ("|=",):
            bad("store-op", "store operator", st.op, "|=", "two fields sharing one byte: the second overwrites the first")
        parts = _and_parts(val)
        if parts is None or len(parts) != 2:
            res.unsure(f"D1: {lang}:{fname}: stored value `{show(val)}` is not (shifted byte) & mask (shape gate)")
            return
        parts = [_strip_trunc_mask(p) for p in parts]
        sh = [p for p in parts if _sshift_parts(p) is not None]
        mk = [p for p in parts if _sshift_parts(p) is None]
        if len(sh) != 1 or len(mk) != 1:
            res.unsure(f"D1: {lang}:{fname}: cannot separate shifted byte and mask in `{show(val)}`")
            return
        x, k = _sshift_parts(sh[0])  # type: ignore[misc]
        if k != spec["shift"]:
            bad("shift", "shift amount (positive = right)", show(k), show(spec["shift"]), "uint8 at bit offset 3: bits land at the wrong position")
        if mk[0] != spec["mask"]:
            bad("mask", "mask", show(mk[0]), show(spec["mask"]), "a chunk of c bits at offset k must keep exactly bits k..k+c-1")
        a = _single_atom(x)
        if a is None or a[0] != "call" or a[1] != getter or len(a[2]) != 1:
            res.unsure(f"D1: {lang}:{fname}: source byte `{show(x)}` is not {getter}(di, rshift)")
        elif a[2][0] != spec["value_shift"]:
            bad("rshift", "value byte selection (right shift applied to the field)", show(a[2][0]), show(spec["value_shift"]), "uint16: the second byte of the value is read from the wrong place")
    else:
        calls = [e for e in effects if e.kind == "call" and e.name == setter]
        res.inst(part=part, function=fname, direction=direction, effects=[repr(e) for e in effects][:4])
        if len(calls) != 1 or len(calls[0].args) != 2:
            res.unsure(f"D1: {lang}:{fname}: expected exactly one {setter}(di, lshift, d) call (shape gate)")
            return
        lshift, val = calls[0].args
        if lshift != spec["value_shift"]:
            bad("lshift", "value byte selection (left shift applied to the chunk)", show(lshift), show(spec["value_shift"]), "uint16: the second byte of the value is written to the wrong place")
        parts = _and_parts(val)
        if parts is None or len(parts) != 2:
            res.unsure(f"D1: {lang}:{fname}: decoded value `{show(val)}` is not (shifted byte) & mask (shape gate)")
            return
        parts = [_strip_trunc_mask(p) for p in parts]
        sh = [p for p in parts if _sshift_parts(p) is not None]
        mk = [p for p in parts if _sshift_parts(p) is None]
        if len(sh) != 1 or len(mk) != 1:
            res.unsure(f"D1: {lang}:{fname}: cannot separate shifted byte and mask in `{show(val)}`")
            return
        x, k = _sshift_parts(sh[0])  # type: ignore[misc]
        if k != spec["shift"]:
            bad("shift", "shift amount (positive = right)", show(k), show(spec["shift"]), "uint8 at bit offset 3 decodes to a shifted value")
        if mk[0] != spec["mask"]:
            bad("mask", "mask", show(mk[0]), show(spec["mask"]), "bits of the neighbouring field leak into the decoded value")
        a = _single_atom(x)
        if a is None or a[0] != "load" or a[1] != "s":
            res.unsure(f"D1: {lang}:{fname}: source byte `{show(x)}` is not a load from the stream buffer")
        elif a[2] != spec["stream_index"]:
            bad("index", "stream byte index", show(a[2]), show(spec["stream_index"]), "any field that does not start at bit 0")


def loop_summary_py(res: RuleResult, lw: PyLower, fn: ast.FunctionDef, lang: str, file: str, cursor_names: Dict[str, str]) -> Optional[Dict[str, Any]]:
    """process_base_type: `while j < n: c = ...; process(...); i += c; j += c`."""
    loops = [n for n in ast.walk(fn) if isinstance(n, ast.While)]
    if len(loops) != 1:
        res.unsure(f"D1: {lang}:{fn.name}: not a single chunk loop (shape gate)")
        return None
    lp = loops[0]
    env: Dict[str, Poly] = {}
    effects: List[Effect] = []
    lw._block(lp.body, env, effects, [])
    return {"test": lp.test, "env": env, "effects": effects, "loop": lp}


def check_loop(res: RuleResult, lang: str, file: str, fname: str, line: int, test_ok: bool, c_val: Optional[Poly], effects: List[Effect]) -> Optional[Poly]:
    part = lang
    res.inst(part=part, function=fname, loop=True, chunk=show(c_val) if c_val is not None else None)
    if not test_ok:
        res.unsure(f"D1: {lang}:{fname}: loop test is not `j < n`")
        return None
    if c_val is None:
        res.unsure(f"D1: {lang}:{fname}: chunk size variable not found")
        return None
    # every write into the stream inside the loop must be a masked OR (or go through the chunk functions)
    for e in effects:
        if e.kind == "store" and e.name == "s":
            idx, val = e.args
            parts = _and_parts(val)
            masked = parts is not None and any(_strip_trunc_mask(p) in (SPEC["encode"]["mask"],) or _strip_trunc_mask(p) == spec_mask(mod8(i_)).subst("c", c_val) for p in parts)
            if e.op != "|=" or not masked:
                f = Finding("D1", file, getattr(e.node, "lineno", line), fname, repr(e), f"the chunk loop stores into the stream with `{e.op}` of a value that is not `(...) & mask` (guard: {e.guard or 'always'}): bits beyond the field's width (sign extension, out-of-range values) reach the neighbouring field or the padding", witness="int12 holding -1 at a byte-aligned position followed by another field", tag=f"{lang}:{fname}:unmasked-store")
                f.part = part
                res.bad(f)
        elif e.kind in ("compound", "other"):
            res.unsure(f"D1: {lang}:{fname}: statement `{e.name}` inside the chunk loop is outside the enumerated forms")
    adv = {e.name: e for e in effects if e.kind == "attr" and e.op == "+="}
    for cur in ("i", "j"):
        e = adv.get(cur)
        if e is None:
            f = Finding("D1", file, line, fname, "", f"cursor `{cur}` is not advanced in the chunk loop", witness="any field wider than one chunk", tag=f"{lang}:{fname}:advance-{cur}")
            f.part = part
            res.bad(f)
        elif e.args[0] != c_val and e.args[0] != V("c"):
            f = Finding("D1", file, line, fname, show(e.args[0]), f"cursor `{cur}` advances by `{show(e.args[0])}`, not by the chunk size: stream and value cursors go out of step", witness="uint16 at bit offset 3", tag=f"{lang}:{fname}:advance-{cur}")
            f.part = part
            res.bad(f)
    return c_val


def obligations(res: RuleResult, rule_id: str, lang: str, file: str, fname: str, line: int, c_val: Poly) -> None:
    """E1: from j < n (integers): 1 <= c <= 8, mod8(i)+c <= 8, mod8(j)+c <= 8, c <= n-j."""
    facts = Facts()
    facts.assume(n_ - j_, 1, float("inf"), "loop test j < n over integers")
    obl = [
        ("c >= 1 (the loop makes progress)", lambda: prove_ge(c_val, C(1), facts), "the loop does not terminate: compiler/codec hangs"),
        ("c <= 8", lambda: prove_le(c_val, C(8), facts), "a chunk wider than a byte: mask >= 256"),
        ("mod8(i) + c <= 8 (chunk fits the stream byte)", lambda: prove_le(mod8(i_) + c_val, C(8), facts), "mask >= 256 / bits spill into the next stream byte (Python: ValueError byte must be in range(0, 256))"),
        ("mod8(j) + c <= 8 (chunk fits the value byte)", lambda: prove_le(mod8(j_) + c_val, C(8), facts), "bits of the next value byte are dropped"),
        ("c <= n - j (never beyond the field)", lambda: prove_le(c_val, n_ - j_, facts), "bits of the following field / padding are overwritten"),
    ]
    for text, fn, wit in obl:
        ok, why = fn()
        res.inst(part=lang, function=fname, obligation=text, chunk=show(c_val), proved=ok, argument=why[:160])
        if not ok:
            f = Finding(rule_id, file, line, fname, f"c = {show(c_val)}", f"obligation `{text}` fails for the chunk size `{show(c_val)}` ({why})", witness=wit, tag=f"{lang}:{fname}:{text.split(' (')[0]}")
            f.part = lang
            res.bad(f)


# --------------------------------------------------------------------------


def _py_runtime(repo: Repo):
    m = get_model(repo)
    bp = m.mod("bitprotolib/bp.py")
    funcs = {k: v.node for k, v in bp.funcs.items()}
    lw = PyLower(funcs, names={"ctx.i": "i", "ctx.s": "s", "nbits": "n"})
    return m, bp, funcs, lw


def _planner(repo: Repo):
    m = get_model(repo)
    fm = m.mod("renderer/formatter.py")
    F = fm.classes.get("Formatter")
    if F is None:
        raise Inconclusive("Formatter class vanished")
    funcs = {k: v.node for k, v in F.methods.items()}
    # inline only concrete helpers (abstract hooks raise NotImplementedError)
    inl = {k: v for k, v in funcs.items() if "raise NotImplementedError" not in src_of(v) and not k.startswith("format_")}
    lw = PyLower(inl, names={"i[0]": "i"})
    return m, fm, funcs, lw


def _chunk_of_loop_py(lw: PyLower, lp: ast.While, cursor_i: str) -> Tuple[bool, Optional[Poly], List[Effect]]:
    t = lp.test
    test_ok = isinstance(t, ast.Compare) and len(t.ops) == 1 and isinstance(t.ops[0], ast.Lt) and src_of(t.left) == "j"
    env: Dict[str, Poly] = {}
    effects: List[Effect] = []
    lw._block(lp.body, env, effects, [])
    return test_ok, env.get("c"), effects


@rule("D1", "single-chunk encode/decode of every implementation equals the specification normal form; both cursors advance by the chunk")
def d1(repo: Repo) -> RuleResult:
    res = RuleResult("D1", floor=9)
    # ---------------- Python runtime
    m, bp, funcs, lw = _py_runtime(repo)
    for direction, fname in (("encode", "encode_single_byte"), ("decode", "decode_single_byte")):
        fn = funcs.get(fname)
        if fn is None:
            res.unsure(f"D1: bp.py:{fname} vanished")
            continue
        eff, _ = lw.summarize(fn)
        check_chunk(res, "py", BP, direction, fname, fn.lineno, eff, "bp_get_byte", "bp_set_byte")
    pb = funcs.get("process_base_type")
    if pb is None:
        res.unsure("D1: bp.py:process_base_type vanished")
    else:
        loops = [n for n in ast.walk(pb) if isinstance(n, ast.While)]
        if len(loops) != 1:
            res.unsure("D1: py:process_base_type is not a single chunk loop (shape gate)")
        else:
            test_ok, cv, eff = _chunk_of_loop_py(lw, loops[0], "i")
            # j < nbits
            check_loop(res, "py", BP, "process_base_type", pb.lineno, test_ok, cv, eff)
            # dispatch to encode/decode by ctx.is_encode
            psb = funcs.get("process_single_byte")
            if psb is not None:
                t = src_of(psb)
                ok = "if ctx.is_encode:" in t.replace("\n", " ") or "ctx.is_encode" in t
                calls = [(e.name, e.guard) for e in lw.summarize(psb)[0] if e.kind == "call"]
                res.inst(part="py", function="process_single_byte", dispatch=calls)
                want = {("encode_single_byte", ("ctx.is_encode",)), ("decode_single_byte", ("not (ctx.is_encode)",))}
                if {(n, tuple(g)) for n, g in calls} != want:
                    f = Finding("D1", BP, psb.lineno, "process_single_byte", str(calls), "encode/decode dispatch is not `encode when ctx.is_encode else decode`", witness="encode() reads the buffer instead of writing it", tag="py:process_single_byte:dispatch")
                    f.part = "py"
                    res.bad(f)
    res.note("py: " + "; ".join(sorted(set(lw.notes))))

    # ---------------- Go runtime
    try:
        g = get_go(repo)
        glw = GoLower(g.funcs, names={"ctx.i": "i", "ctx.s": "s", "nbits": "n"})
        for direction, fname in (("encode", "encodeSingleByte"), ("decode", "decodeSingleByte")):
            fn = g.func(fname)
            eff, _ = glw.summarize(fn)
            check_chunk(res, "go", GO_RT, direction, fname, fn.line, eff, "BpGetByte", "BpSetByte")
        pbt = g.func("processBaseType")
        loops = [s for s in pbt.body.stmts if s.k == "for"]
        if len(loops) != 1:
            res.unsure("D1: go:processBaseType is not a single chunk loop (shape gate)")
        else:
            lp = loops[0]
            test_ok = lp.cond is not None and lp.cond.k == "bin" and lp.cond.op == "<" and go_src(lp.cond.l) == "j" and lp.init is not None and go_src(lp.init.rhs[0]) == "0"
            env: Dict[str, Poly] = {}
            eff2: List[Effect] = []
            glw._block(lp.body.stmts, env, eff2, [])
            check_loop(res, "go", GO_RT, "processBaseType", pbt.line, test_ok, env.get("c"), eff2)
        psb = g.func("processSingleByte")
        calls = [(e.name, tuple(e.guard)) for e in glw.summarize(psb)[0] if e.kind == "call"]
        res.inst(part="go", function="processSingleByte", dispatch=calls)
        if set(calls) != {("encodeSingleByte", ("ctx.isEncode",)), ("decodeSingleByte", ("not (ctx.isEncode)",))}:
            f = Finding("D1", GO_RT, psb.line, "processSingleByte", str(calls), "encode/decode dispatch is not `encode when ctx.isEncode else decode`", tag="go:processSingleByte:dispatch")
            f.part = "go"
            res.bad(f)
        res.note("go: " + "; ".join(sorted(set(glw.notes))))
    except Inconclusive as e:
        res.unsure(f"D1: go runtime: {e}")

    # ---------------- planner (optimization mode)
    try:
        m2, fm, pfuncs, plw = _planner(repo)
        for direction, fname, item in (("encode", "format_op_mode_encode_single_byte", "format_op_mode_encoder_item"), ("decode", "format_op_mode_decode_single_byte", "format_op_mode_decoder_item")):
            fn = pfuncs.get(fname)
            if fn is None:
                res.unsure(f"D1: planner {fname} vanished")
                continue
            eff, env = plw.summarize(fn)
            rets = [e for e in eff if e.kind == "return"]
            res.inst(part="planner", function=fname, direction=direction, returns=[repr(r) for r in rets])
            if len(rets) != 1:
                res.unsure(f"D1: planner {fname}: not a single return (shape gate)")
                continue
            a = _single_atom(rets[0].args[0])
            if a is None or a[0] != "call" or a[1] != item:
                res.unsure(f"D1: planner {fname}: does not return {item}(...)")
                continue
            args = list(a[2])
            # parameters of the item formatter: (chain, t, si, fi, shift, mask, r)
            pnames = [x.arg for x in pfuncs[item].args.args if x.arg != "self"] if item in pfuncs else []
            if pnames != ["chain", "t", "si", "fi", "shift", "mask", "r"] or len(args) != 7:
                res.unsure(f"D1: planner: parameter list of {item} is {pnames}")
                continue
            got = dict(zip(pnames, args))
            spec = SPEC[direction]
            own = mod8(i_) if direction == "encode" else mod8(j_)
            want = {"si": div8(i_), "fi": div8(j_), "shift": spec["shift"], "mask": spec["mask"], "r": own}
            wit = {"si": "any field not starting in stream byte 0", "fi": "uint16: second value byte", "shift": "uint8 at bit offset 3", "mask": "a 3-bit chunk at offset 2", "r": "`=` instead of `|=` clobbers bits already placed in the byte"}
            for k2, w in want.items():
                if got[k2] != w:
                    f = Finding("D1", FMT, fn.lineno, f"Formatter.{fname}", f"{k2} = {show(got[k2])}", f"planner {direction}: `{k2}` is `{show(got[k2])}`, the layout rule requires `{show(w)}`", witness=wit[k2] + " with -O", tag=f"planner:{fname}:{k2}")
                    f.part = "planner"
                    res.bad(f)
        st = pfuncs.get("format_op_mode_endecode_single_type")
        if st is None:
            res.unsure("D1: planner loop function vanished")
        else:
            loops = [n for n in ast.walk(st) if isinstance(n, ast.While)]
            if len(loops) != 1:
                res.unsure("D1: planner: not a single chunk loop (shape gate)")
            else:
                test_ok, cv, eff = _chunk_of_loop_py(plw, loops[0], "i")
                check_loop(res, "planner", FMT, "Formatter.format_op_mode_endecode_single_type", st.lineno, test_ok, cv, eff)
                # j, n = 0, t.nbits()
                txt = src_of(st)
                if "j, n = (0, t.nbits())" not in txt and not ("j = 0" in txt and "n = t.nbits()" in txt):
                    res.unsure("D1: planner: `j, n = 0, t.nbits()` initialisation not recognised")
                calls = {}
                for nn in ast.walk(loops[0]):
                    if isinstance(nn, ast.Call) and isinstance(nn.func, ast.Attribute) and nn.func.attr in ("format_op_mode_encode_single_byte", "format_op_mode_decode_single_byte"):
                        from .guards import facts_at

                        conds = {("" if t2 else "not ") + src_of(e2) for e2, t2 in facts_at(nn, st) if "is_encode" in src_of(e2)}
                        calls[nn.func.attr] = (conds, [src_of(a2) for a2 in nn.args])
                res.inst(part="planner", function="format_op_mode_endecode_single_type", dispatch={k2: (sorted(v[0]), v[1]) for k2, v in calls.items()})
                want_calls = {"format_op_mode_encode_single_byte": {"is_encode"}, "format_op_mode_decode_single_byte": {"not is_encode"}}
                for k2, cond in want_calls.items():
                    if k2 not in calls or calls[k2][0] != cond or calls[k2][1] != ["t", "chain", "i[0]", "j", "c"]:
                        f = Finding("D1", FMT, st.lineno, "Formatter.format_op_mode_endecode_single_type", str(calls.get(k2)), f"planner: {k2} is not called as (t, chain, i[0], j, c) under `{sorted(cond)}`", tag=f"planner:dispatch:{k2}")
                        f.part = "planner"
                        res.bad(f)
    except Inconclusive as e:
        res.unsure(f"D1: planner: {e}")
    return res


@rule("E1", "chunk size obligations: 1 <= c <= 8, the chunk fits both bytes, never beyond the field")
def e1(repo: Repo) -> RuleResult:
    res = RuleResult("E1", floor=15)
    # Python runtime
    m, bp, funcs, lw = _py_runtime(repo)
    pb = funcs.get("process_base_type")
    if pb is not None:
        loops = [n for n in ast.walk(pb) if isinstance(n, ast.While)]
        if len(loops) == 1:
            ok, cv, _ = _chunk_of_loop_py(lw, loops[0], "i")
            if cv is not None:
                obligations(res, "E1", "py", BP, "process_base_type", pb.lineno, cv)
            else:
                res.unsure("E1: py chunk size not found")
        else:
            res.unsure("E1: py chunk loop not found")
    else:
        res.unsure("E1: bp.py:process_base_type vanished")
    # Go runtime
    try:
        g = get_go(repo)
        glw = GoLower(g.funcs, names={"ctx.i": "i", "ctx.s": "s", "nbits": "n"})
        pbt = g.func("processBaseType")
        loops = [s for s in pbt.body.stmts if s.k == "for"]
        if len(loops) == 1:
            env: Dict[str, Poly] = {}
            eff2: List[Effect] = []
            glw._block(loops[0].body.stmts, env, eff2, [])
            if env.get("c") is not None:
                obligations(res, "E1", "go", GO_RT, "processBaseType", pbt.line, env["c"])
            else:
                res.unsure("E1: go chunk size not found")
        else:
            res.unsure("E1: go chunk loop not found")
    except Inconclusive as e:
        res.unsure(f"E1: go: {e}")
    # planner
    try:
        m2, fm, pfuncs, plw = _planner(repo)
        st = pfuncs.get("format_op_mode_endecode_single_type")
        loops = [n for n in ast.walk(st) if isinstance(n, ast.While)] if st is not None else []
        if len(loops) == 1:
            ok, cv, _ = _chunk_of_loop_py(plw, loops[0], "i")
            if cv is not None:
                obligations(res, "E1", "planner", FMT, "Formatter.format_op_mode_endecode_single_type", st.lineno, cv)
            else:
                res.unsure("E1: planner chunk size not found")
        else:
            res.unsure("E1: planner chunk loop not found")
    except Inconclusive as e:
        res.unsure(f"E1: planner: {e}")
    return res
