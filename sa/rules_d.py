"""
Family D/E (Python, Go, planner): chunk plan against the specification normal
form (D1) and the numeric obligations of the chunk loop (E1).
"""

from __future__ import annotations

import ast
from typing import Any, Dict, List, Optional, Tuple

from .core import Finding, Inconclusive, Repo, RuleResult, rule, short, src_of
from .golower import GoLower
from .gomodel import GO_RT, get_go, go_src
from .normal import C, Poly, V, band, call, div8, mod8, pow2, show, sshift, trunc8, vmin
from .numeric import Facts, interval, prove_ge, prove_le
from .pymodel import get_model
from .symeval import Effect, PyLower

BP = "lib/py/bitprotolib/bp.py"
FMT = "compiler/bitproto/renderer/formatter.py"

i_, j_, c_, n_ = V("i"), V("j"), V("c"), V("n")


def spec_mask(k: Poly) -> Poly:
    return pow2(k + c_) - pow2(k)


SPEC = {
    "encode": {
        "stream_index": div8(i_),
        "value_shift": j_ - mod8(j_),  # 8*div8(j)
        "shift": mod8(j_) - mod8(i_),
        "mask": spec_mask(mod8(i_)),
    },
    "decode": {
        "stream_index": div8(i_),
        "value_shift": j_ - mod8(j_),
        "shift": mod8(i_) - mod8(j_),
        "mask": spec_mask(mod8(j_)),
    },
}


def _strip_trunc_mask(p: Poly) -> Poly:
    """trunc8(pow2(a) - pow2(b)) -> pow2(a) - pow2(b): harmless when E1 shows
    a <= 8 (then the value is in [0, 255]); E1 is evaluated separately."""
    if len(p.terms) == 1:
        (m, c), = p.terms.items()
        if c == 1 and len(m) == 1 and m[0][1] == 1 and m[0][0][0] == "trunc8":
            return m[0][0][1]
    return p


def _and_parts(p: Poly) -> Optional[List[Poly]]:
    if len(p.terms) == 1:
        (m, c), = p.terms.items()
        if c == 1 and len(m) == 1 and m[0][1] == 1 and m[0][0][0] == "and":
            return list(m[0][0][1])
    return None


def _sshift_parts(p: Poly) -> Optional[Tuple[Poly, Poly]]:
    if len(p.terms) == 1:
        (m, c), = p.terms.items()
        if c == 1 and len(m) == 1 and m[0][1] == 1 and m[0][0][0] == "sshift":
            return m[0][0][1], m[0][0][2]
    return None


def _single_atom(p: Poly) -> Optional[Tuple]:
    if len(p.terms) == 1:
        (m, c), = p.terms.items()
        if c == 1 and len(m) == 1 and m[0][1] == 1:
            return m[0][0]
    return None


def check_chunk(res: RuleResult, lang: str, file: str, direction: str, fname: str, line: int, effects: List[Effect], getter: str, setter: str) -> None:
    """Compare one encode/decode single-chunk function with the spec."""
    spec = SPEC[direction]
    part = lang

    def bad(tag: str, msg: str, got: str, want: str, witness: str) -> None:
        f = Finding("D1", file, line, fname, f"{got}", f"{direction} chunk: {msg}: is `{got}`, the layout rule requires `{want}`", witness=witness, tag=f"{lang}:{fname}:{tag}")
        f.part = part
        res.bad(f)

    if direction == "encode":
        stores = [e for e in effects if e.kind == "store" and e.name == "s"]
        res.inst(part=part, function=fname, direction=direction, effects=[repr(e) for e in effects][:4])
        if len(stores) != 1:
            res.unsure(f"D1: {lang}:{fname}: expected exactly one store into the stream buffer, found {len(stores)} (shape gate)")
            return
        st = stores[0]
        idx, val = st.args
        if idx != spec["stream_index"]:
            bad("index", "stream byte index", show(idx), show(spec["stream_index"]), "any field that does not start at bit 0")
        if st.op not in ("|=",):
            bad("store-op", "store operator", st.op, "|=", "two fields sharing one byte: the second overwrites the first")
        parts = _and_parts(val)
        if parts is None or len(parts) != 2:
            res.unsure(f"D1: {lang}:{fname}: stored value `{show(val)}` is not (shifted byte) & mask (shape gate)")
            return
        parts = [_strip_trunc_mask(p) for p in parts]
        sh = [p for p in parts if _sshift_parts(p) is not None]
        mk = [p for p in parts if _sshift_parts(p) is None]
        if len(sh) != 1 or len(mk) != 1:
            res.unsure(f"D1: {lang}:{fname}: cannot separate shifted byte and mask in `{show(val)}`")
            return
        x, k = _sshift_parts(sh[0])  # type: ignore[misc]
        if k != spec["shift"]:
            bad("shift", "shift amount (positive = right)", show(k), show(spec["shift"]), "uint8 at bit offset 3: bits land at the wrong position")
        if mk[0] != spec["mask"]:
            bad("mask", "mask", show(mk[0]), show(spec["mask"]), "a chunk of c bits at offset k must keep exactly bits k..k+c-1")
        a = _single_atom(x)
        if a is None or a[0] != "call" or a[1] != getter or len(a[2]) != 1:
            res.unsure(f"D1: {lang}:{fname}: source byte `{show(x)}` is not {getter}(di, rshift)")
        elif a[2][0] != spec["value_shift"]:
            bad("rshift", "value byte selection (right shift applied to the field)", show(a[2][0]), show(spec["value_shift"]), "uint16: the second byte of the value is read from the wrong place")
    else:
        calls = [e for e in effects if e.kind == "call" and e.name == setter]
        res.inst(part=part, function=fname, direction=direction, effects=[repr(e) for e in effects][:4])
        if len(calls) != 1 or len(calls[0].args) != 2:
            res.unsure(f"D1: {lang}:{fname}: expected exactly one {setter}(di, lshift, d) call (shape gate)")
            return
        lshift, val = calls[0].args
        if lshift != spec["value_shift"]:
            bad("lshift", "value byte selection (left shift applied to the chunk)", show(lshift), show(spec["value_shift"]), "uint16: the second byte of the value is written to the wrong place")
        parts = _and_parts(val)
        if parts is None or len(parts) != 2:
            res.unsure(f"D1: {lang}:{fname}: decoded value `{show(val)}` is not (shifted byte) & mask (shape gate)")
            return
        parts = [_strip_trunc_mask(p) for p in parts]
        sh = [p for p in parts if _sshift_parts(p) is not None]
        mk = [p for p in parts if _sshift_parts(p) is None]
        if len(sh) != 1 or len(mk) != 1:
            res.unsure(f"D1: {lang}:{fname}: cannot separate shifted byte and mask in `{show(val)}`")
            return
        x, k = _sshift_parts(sh[0])  # type: ignore[misc]
        if k != spec["shift"]:
            bad("shift", "shift amount (positive = right)", show(k), show(spec["shift"]), "uint8 at bit offset 3 decodes to a shifted value")
        if mk[0] != spec["mask"]:
            bad("mask", "mask", show(mk[0]), show(spec["mask"]), "bits of the neighbouring field leak into the decoded value")
        a = _single_atom(x)
        if a is None or a[0] != "load" or a[1] != "s":
            res.unsure(f"D1: {lang}:{fname}: source byte `{show(x)}` is not a load from the stream buffer")
        elif a[2] != spec["stream_index"]:
            bad("index", "stream byte index", show(a[2]), show(spec["stream_index"]), "any field that does not start at bit 0")


def loop_summary_py(res: RuleResult, lw: PyLower, fn: ast.FunctionDef, lang: str, file: str, cursor_names: Dict[str, str]) -> Optional[Dict[str, Any]]:
    """process_base_type: `while j < n: c = ...; process(...); i += c; j += c`."""
    loops = [n for n in ast.walk(fn) if isinstance(n, ast.While)]
    if len(loops) != 1:
        res.unsure(f"D1: {lang}:{fn.name}: not a single chunk loop (shape gate)")
        return None
    lp = loops[0]
    env: Dict[str, Poly] = {}
    effects: List[Effect] = []
    lw._block(lp.body, env, effects, [])
    return {"test": lp.test, "env": env, "effects": effects, "loop": lp}


def check_loop(res: RuleResult, lang: str, file: str, fname: str, line: int, test_ok: bool, c_val: Optional[Poly], effects: List[Effect]) -> Optional[Poly]:
    part = lang
    res.inst(part=part, function=fname, loop=True, chunk=show(c_val) if c_val is not None else None)
    if not test_ok:
        res.unsure(f"D1: {lang}:{fname}: loop test is not `j < n`")
        return None
    if c_val is None:
        res.unsure(f"D1: {lang}:{fname}: chunk size variable not found")
        return None
    # every write into the stream inside the loop must be a masked OR (or go through the chunk functions)
    for e in effects:
        if e.kind == "store" and e.name == "s":
            idx, val = e.args
            parts = _and_parts(val)
            masked = parts is not None and any(_strip_trunc_mask(p) in (SPEC["encode"]["mask"],) or _strip_trunc_mask(p) == spec_mask(mod8(i_)).subst("c", c_val) for p in parts)
            if e.op != "|=" or not masked:
                f = Finding("D1", file, getattr(e.node, "lineno", line), fname, repr(e), f"the chunk loop stores into the stream with `{e.op}` of a value that is not `(...) & mask` (guard: {e.guard or 'always'}): bits beyond the field's width (sign extension, out-of-range values) reach the neighbouring field or the padding", witness="int12 holding -1 at a byte-aligned position followed by another field", tag=f"{lang}:{fname}:unmasked-store")
                f.part = part
                res.bad(f)
        elif e.kind in ("compound", "other"):
            res.unsure(f"D1: {lang}:{fname}: statement `{e.name}` inside the chunk loop is outside the enumerated forms")
    adv = {e.name: e for e in effects if e.kind == "attr" and e.op == "+="}
    for cur in ("i", "j"):
        e = adv.get(cur)
        if e is None:
            f = Finding("D1", file, line, fname, "", f"cursor `{cur}` is not advanced in the chunk loop", witness="any field wider than one chunk", tag=f"{lang}:{fname}:advance-{cur}")
            f.part = part
            res.bad(f)
        elif e.args[0] != c_val:
            f = Finding("D1", file, line, fname, show(e.args[0]), f"cursor `{cur}` advances by `{show(e.args[0])}`, not by the chunk size: stream and value cursors go out of step", witness="uint16 at bit offset 3", tag=f"{lang}:{fname}:advance-{cur}")
            f.part = part
            res.bad(f)
    return c_val


def obligations(res: RuleResult, rule_id: str, lang: str, file: str, fname: str, line: int, c_val: Poly, facts: Optional[Facts] = None, under: str = "") -> None:
    """E1: from j < n (integers): 1 <= c <= 8, mod8(i)+c <= 8, mod8(j)+c <= 8, c <= n-j."""
    facts = facts or Facts()
    facts.assume(n_ - j_, 1, float("inf"), "loop test j < n over integers")
    facts.assume(j_ - n_, -float("inf"), -1, "loop test j < n over integers")
    obl = [
        ("c >= 1 (the loop makes progress)", lambda: prove_ge(c_val, C(1), facts), "the loop does not terminate: compiler/codec hangs"),
        ("c <= 8", lambda: prove_le(c_val, C(8), facts), "a chunk wider than a byte: mask >= 256"),
        ("mod8(i) + c <= 8 (chunk fits the stream byte)", lambda: prove_le(mod8(i_) + c_val, C(8), facts), "mask >= 256 / bits spill into the next stream byte (Python: ValueError byte must be in range(0, 256))"),
        ("mod8(j) + c <= 8 (chunk fits the value byte)", lambda: prove_le(mod8(j_) + c_val, C(8), facts), "bits of the next value byte are dropped"),
        ("c <= n - j (never beyond the field)", lambda: prove_le(c_val, n_ - j_, facts), "bits of the following field / padding are overwritten"),
    ]
    for text, fn, wit in obl:
        ok, why = fn()
        res.inst(part=lang, function=fname, obligation=text, chunk=show(c_val), proved=ok, argument=why[:160])
        if not ok:
            f = Finding(rule_id, file, line, fname, f"c = {show(c_val)}", f"obligation `{text}` fails for the chunk size `{show(c_val)}`{(' on the path under ' + under) if under else ''} ({why})", witness=wit, tag=f"{lang}:{fname}:{text.split(' (')[0]}")
            f.part = lang
            res.bad(f)


# --------------------------------------------------------------------------


def _py_runtime(repo: Repo):
    m = get_model(repo)
    bp = m.mod("bitprotolib/bp.py")
    funcs = {k: v.node for k, v in bp.funcs.items()}
    lw = PyLower(funcs, names={"ctx.i": "i", "ctx.s": "s", "nbits": "n"})
    return m, bp, funcs, lw


def _planner(repo: Repo):
    m = get_model(repo)
    fm = m.mod("renderer/formatter.py")
    F = fm.classes.get("Formatter")
    if F is None:
        raise Inconclusive("Formatter class vanished")
    funcs = {k: v.node for k, v in F.methods.items()}
    # inline only concrete helpers (abstract hooks raise NotImplementedError)
    inl = {k: v for k, v in funcs.items() if "raise NotImplementedError" not in src_of(v) and not k.startswith("format_")}
    lw = PyLower(inl, names={"i[0]": "i"})
    return m, fm, funcs, lw


def _chunk_of_loop_py(lw: PyLower, lp: ast.While, cursor_i: str) -> Tuple[bool, Optional[Poly], List[Effect]]:
    """Roles are found from the loop itself, not from local names: the counter
    is the name on the left of the `<` test, the bound is its right side, the
    chunk is what the counter advances by."""
    t = lp.test
    test_ok = isinstance(t, ast.Compare) and len(t.ops) == 1 and isinstance(t.ops[0], ast.Lt) and isinstance(t.left, ast.Name)
    if not test_ok:
        # `n > j`
        if isinstance(t, ast.Compare) and len(t.ops) == 1 and isinstance(t.ops[0], ast.Gt) and isinstance(t.comparators[0], ast.Name):
            t = ast.Compare(left=t.comparators[0], ops=[ast.Lt()], comparators=[t.left])
            test_ok = True
    if not test_ok:
        return False, None, []
    jname = t.left.id  # type: ignore[attr-defined]
    lw.names[jname] = "j"
    right = t.comparators[0]
    if isinstance(right, ast.Name):
        lw.names[right.id] = "n"
    env: Dict[str, Poly] = {}
    effects: List[Effect] = []
    lw._block(lp.body, env, effects, [])
    adv = [e for e in effects if e.kind == "attr" and e.op == "+=" and e.name == "j"]
    cv = adv[0].args[0] if len(adv) == 1 else None
    return test_ok, cv, effects


def _loop_roles(lp: ast.While) -> Tuple[Optional[str], Optional[str]]:
    t = lp.test
    if isinstance(t, ast.Compare) and len(t.ops) == 1 and isinstance(t.ops[0], ast.Lt) and isinstance(t.left, ast.Name):
        r = t.comparators[0]
        return t.left.id, (r.id if isinstance(r, ast.Name) else None)
    if isinstance(t, ast.Compare) and len(t.ops) == 1 and isinstance(t.ops[0], ast.Gt) and isinstance(t.comparators[0], ast.Name):
        return t.comparators[0].id, (t.left.id if isinstance(t.left, ast.Name) else None)
    return None, None


def _inits_before(fn: ast.FunctionDef, lp: ast.AST) -> Dict[str, str]:
    """name -> source of the last value assigned before the loop (top level)."""
    out: Dict[str, str] = {}
    for st in fn.body:
        if st is lp:
            break
        if isinstance(st, ast.AnnAssign) and isinstance(st.target, ast.Name) and st.value is not None:
            out[st.target.id] = src_of(st.value)
        elif isinstance(st, ast.Assign) and len(st.targets) == 1:
            tg = st.targets[0]
            if isinstance(tg, ast.Name):
                out[tg.id] = src_of(st.value)
            elif isinstance(tg, ast.Tuple) and isinstance(st.value, ast.Tuple) and len(tg.elts) == len(st.value.elts):
                for a, v in zip(tg.elts, st.value.elts):
                    if isinstance(a, ast.Name):
                        out[a.id] = src_of(v)
    return out


class LoopFacts:
    def __init__(self) -> None:
        self.ok = False
        self.why = ""
        self.line = 0
        self.counter: Optional[str] = None
        self.bound_src: Optional[str] = None
        self.counter_init: Optional[str] = None
        self.bound_init: Optional[str] = None
        self.bodies: List[Dict[str, Any]] = []  # per body path: guards, c, i_adv, calls, stores, path


def _canon(p: Poly, subs: List[Tuple[Any, Poly]]) -> Poly:
    from .rules_d2 import _replace_atom

    for atom, by in subs:
        p = _replace_atom(p, atom, by)
    return p


def chunk_loop(flow: Any, fn: ast.FunctionDef, cursor: str) -> LoopFacts:
    """The single `while counter < bound` loop of a chunking function, from the
    path engine: per body path the chunk size (what the counter advances by),
    the stream cursor advance, the calls and the direct stream stores, all in
    the canonical variables i (stream cursor), j (counter), n (bound)."""
    from .pyflow import single_atom as _sa

    lf = LoopFacts()
    paths = flow.run(fn)
    loops = []
    for p in paths:
        for e in p.effects:
            if e.kind == "loop" and e.name == "while":
                loops.append((p, e))
    nodes = {id(e.node) for _, e in loops}
    if len(nodes) != 1:
        lf.why = f"not a single chunk loop ({len(nodes)} while loops on the paths)"
        return lf
    p0, lp = loops[0]
    st = lp.node
    lf.line = getattr(st, "lineno", 0)
    jn, bn = _loop_roles(st)
    if jn is None:
        lf.why = f"loop test `{src_of(st.test)}` is not `counter < bound`"
        return lf
    lf.counter = jn
    t = st.test
    right = t.comparators[0] if isinstance(t.ops[0], ast.Lt) else t.left
    lf.bound_src = src_of(right)
    inits = _inits_before(fn, st)
    lf.counter_init = inits.get(jn)
    lf.bound_init = inits.get(bn) if bn is not None else src_of(right)
    jsym = V(jn + lp.op)
    for bp in lp.sub or []:
        if bp.done == "raise":
            continue
        bound = flow._pure(right, bp)
        subs: List[Tuple[Any, Poly]] = [(("var", jn + lp.op), j_), (("var", cursor + lp.op), i_)]
        ba = _sa(bound)
        if ba is not None:
            subs.append((ba, n_))
        newj = bp.env.get(jn)
        cval = _canon(newj - jsym, subs) if newj is not None else None
        i_adv = None
        for e in bp.effects:
            if e.kind == "setattr" and e.name == cursor and "old" in e.kw:
                i_adv = _canon(e.args[-1] - e.kw["old"], subs) if i_adv is None else i_adv + _canon(e.args[-1] - e.kw["old"], subs)
            elif e.kind == "store" and e.name == cursor and e.op == "+=":
                i_adv = _canon(e.args[1], subs) if i_adv is None else i_adv + _canon(e.args[1], subs)
        calls = [(e.name, [_canon(a, subs) for a in e.args], e) for e in bp.effects if e.kind == "call"]
        stores = [(e, [_canon(a, subs) for a in e.args]) for e in bp.effects if e.kind == "store" and e.name in ("s", "ctx.s")]
        others = [e for e in bp.effects if e.kind in ("loop", "other")]
        lits = []
        for k, tr in bp.guards:
            if k[0] == "cmp":
                lits.append((k[1], _canon(k[2], subs), tr))
        lf.bodies.append({"path": bp, "c": cval, "i_adv": i_adv, "calls": calls, "stores": stores, "others": others, "lits": lits, "guards": bp.guard_text()})
    lf.ok = bool(lf.bodies)
    if not lf.ok:
        lf.why = "loop body has no path"
    return lf


def facts_of(body: Dict[str, Any]) -> Facts:
    facts = Facts()
    for op, d, tr in body["lits"]:
        # d op 0 with op in <, <=, == (integers)
        if op == "<":
            facts.assume(d, -float("inf"), -1, "branch") if tr else facts.assume(d, 0, float("inf"), "branch")
        elif op == "<=":
            facts.assume(d, -float("inf"), 0, "branch") if tr else facts.assume(d, 1, float("inf"), "branch")
        elif op == "==" and tr:
            facts.assume(d, 0, 0, "branch")
    return facts


def judge_loop(res: RuleResult, lang: str, file: str, fname: str, lf: LoopFacts, enc_prim: str, dec_prim: str, enc_key: Any, arg_pos: Tuple[Optional[int], int, int]) -> Optional[List[Dict[str, Any]]]:
    """D1 part of the loop: cursors advance together, dispatch by direction,
    no unmasked direct store.  Returns the body summaries for E1."""
    from .rules_d2 import truth

    part = lang
    if not lf.ok:
        res.unsure(f"D1: {lang}:{fname}: {lf.why}")
        return None
    res.inst(part=part, function=fname, loop=True, counter=lf.counter, bound=lf.bound_src, chunks=sorted({show(b["c"]) for b in lf.bodies if b["c"] is not None}))

    def bad(tag: str, msg: str, construct: str = "", witness: str = "") -> None:
        f = Finding("D1", file, lf.line, fname, construct, msg, witness=witness, tag=f"{lang}:{fname}:{tag}")
        f.part = part
        res.bad(f)

    for b in lf.bodies:
        c = b["c"]
        if c is None:
            res.unsure(f"D1: {lang}:{fname}: counter value after one iteration not found")
            continue
        if c == C(0):
            bad("advance-j", f"cursor `{lf.counter}` is not advanced in the chunk loop", witness="any field wider than one chunk")
        if b["i_adv"] is None:
            bad("advance-i", "the stream cursor is not advanced in the chunk loop", witness="any field wider than one chunk")
        elif b["i_adv"] != c:
            bad("advance-i", f"the stream cursor advances by `{show(b['i_adv'])}`, the field counter by `{show(c)}`: stream and value cursors go out of step", construct=show(b["i_adv"]), witness="uint16 at bit offset 3")
        for e, args in b["stores"]:
            idx, val = args
            parts = _and_parts(val)
            masked = parts is not None and any(_strip_trunc_mask(q) in (SPEC["encode"]["mask"],) or _strip_trunc_mask(q) == spec_mask(mod8(i_)).subst("c", c) for q in parts)
            if e.op != "|=" or not masked:
                f = Finding("D1", file, getattr(e.node, "lineno", lf.line), fname, repr(e), f"the chunk loop stores into the stream with `{e.op}` of a value that is not `(...) & mask` (path: {b['guards'] or 'always'}): bits beyond the field's width (sign extension, out-of-range values) reach the neighbouring field or the padding", witness="int12 holding -1 at a byte-aligned position followed by another field", tag=f"{lang}:{fname}:unmasked-store")
                f.part = part
                res.bad(f)
        for e in b["others"]:
            res.unsure(f"D1: {lang}:{fname}: `{e.name}` inside the chunk loop is outside the enumerated forms")
        enc = truth(b["path"], enc_key)
        encs = [x for x in b["calls"] if x[0] == enc_prim]
        decs = [x for x in b["calls"] if x[0] == dec_prim]
        ipos, jpos, cpos = arg_pos
        if enc is None:
            if encs or decs or not b["stores"]:
                bad("dispatch", "encode/decode is not selected by the encode flag", construct=str([x[0] for x in b["calls"]]), witness="encode() reads the buffer instead of writing it")
            continue
        mine, other = (encs, decs) if enc else (decs, encs)
        if other or len(mine) != 1:
            if not mine and not other and b["stores"]:
                continue  # direct stores judged above
            bad("dispatch", f"on the {'encode' if enc else 'decode'} path the chunk is handled by {[x[0] for x in b['calls']]}, expected exactly one {enc_prim if enc else dec_prim}", construct=str([x[0] for x in b["calls"]]), witness="encode() reads the buffer instead of writing it")
            continue
        a = mine[0][1]
        got_j, got_c = (a[jpos] if jpos < len(a) else None), (a[cpos] if cpos < len(a) else None)
        if got_j != j_ or got_c != c or (ipos is not None and (ipos >= len(a) or a[ipos] != i_)):
            bad(f"dispatch:{mine[0][0]}", f"{mine[0][0]} is not called with (stream cursor, field counter, chunk size) of this iteration: got ({show(a[ipos]) if ipos is not None and ipos < len(a) else '-'}, {show(got_j) if got_j is not None else None}, {show(got_c) if got_c is not None else None})", construct=str([show(x) for x in a]), witness="uint16 at bit offset 3")
    return lf.bodies


def _loop_chunk_names(lw: PyLower, lp: ast.While, cv: Optional[Poly]) -> Dict[str, Poly]:
    """locals of the loop body whose value is the chunk size"""
    env: Dict[str, Poly] = {}
    eff: List[Effect] = []
    lw._block(lp.body, env, eff, [])
    return {k: v for k, v in env.items() if cv is not None and v == cv}


def _chunk_of_loop_go(glw: GoLower, lp: Any) -> Tuple[bool, Optional[Poly], List[Effect]]:
    c = lp.cond
    while c is not None and c.k == "paren":
        c = c.x
    ok = c is not None and c.k == "bin" and c.op == "<" and c.l.k == "id" and lp.init is not None and lp.init.k == "assign" and go_src(lp.init.lhs[0]) == c.l.name and go_src(lp.init.rhs[0]) == "0"
    if not ok:
        return False, None, []
    glw.names[c.l.name] = "j"
    if c.r.k == "id":
        glw.names[c.r.name] = "n"
    env: Dict[str, Poly] = {}
    eff: List[Effect] = []
    stmts = list(lp.body.stmts) + ([lp.post] if lp.get("post") is not None else [])
    glw._block(stmts, env, eff, [])
    adv = [e for e in eff if e.kind == "attr" and e.op == "+=" and e.name == "j"]
    return True, (adv[0].args[0] if len(adv) == 1 else None), eff


def _no_cursor_move(res: RuleResult, lang: str, file: str, fname: str, line: int, effects: List[Effect]) -> None:
    """the chunk loop analysis treats the single-chunk functions as not moving the stream cursor"""
    for e in effects:
        if e.kind == "attr" and e.name == "i":
            f = Finding("D1", file, getattr(e.node, "lineno", line), fname, repr(e), "the single-chunk function moves the stream cursor itself: the loop advances it a second time", witness="every field after the first chunk", tag=f"{lang}:{fname}:cursor-move")
            f.part = lang
            res.bad(f)


def loop_sites(repo: Repo) -> List[Dict[str, Any]]:
    """The three chunk loops with their path-engine configuration."""
    from .flows import go_runtime, py_runtime
    from .pyflow import PyFlow

    out: List[Dict[str, Any]] = []
    enc_key = ("truthy", V("is_encode"))
    try:
        L = py_runtime(repo)
        out.append({"lang": "py", "file": BP, "fname": "process_base_type", "fn": L.func("process_base_type"), "flow": L.flow(None, primitives=("encode_single_byte", "decode_single_byte"), no_havoc=("encode_single_byte", "decode_single_byte"), names={"ctx.i": "i", "ctx.s": "s", "ctx.is_encode": "is_encode"}, typed={"ctx": L.methods.get("ProcessContext", {})}, inline_props=True), "enc": "encode_single_byte", "dec": "decode_single_byte", "pos": (None, 3, 4), "enc_key": enc_key})
    except Inconclusive as e:
        out.append({"lang": "py", "error": str(e)})
    try:
        G = go_runtime(repo)
        out.append({"lang": "go", "file": GO_RT, "fname": "processBaseType", "fn": G.func("processBaseType"), "flow": G.flow(None, primitives=("encodeSingleByte", "decodeSingleByte"), no_havoc=("encodeSingleByte", "decodeSingleByte"), names={"ctx.i": "i", "ctx.s": "s", "ctx.isEncode": "is_encode"}, typed={"ctx": G.methods.get("ProcessContext", {})}, inline_props=True), "enc": "encodeSingleByte", "dec": "decodeSingleByte", "pos": (None, 3, 4), "enc_key": enc_key})
    except Inconclusive as e:
        out.append({"lang": "go", "error": str(e)})
    try:
        m = get_model(repo)
        fm = m.mod("renderer/formatter.py")
        F = fm.classes.get("Formatter")
        if F is None or "format_op_mode_endecode_single_type" not in F.methods:
            raise Inconclusive("Formatter.format_op_mode_endecode_single_type vanished")
        methods = {k: v.node for k, v in F.methods.items()}

        def inl(name: str, fn: ast.FunctionDef) -> bool:
            return not name.startswith(("format_", "post_format")) and "raise NotImplementedError" not in src_of(fn)

        flow = PyFlow(funcs={}, methods=methods, names={"i[0]": "i"}, primitives=("format_op_mode_encode_single_byte", "format_op_mode_decode_single_byte"), inline_filter=inl, pure=("nbits",))
        out.append({"lang": "planner", "file": FMT, "fname": "Formatter.format_op_mode_endecode_single_type", "fn": methods["format_op_mode_endecode_single_type"], "flow": flow, "enc": "format_op_mode_encode_single_byte", "dec": "format_op_mode_decode_single_byte", "pos": (2, 3, 4), "enc_key": enc_key})
    except Inconclusive as e:
        out.append({"lang": "planner", "error": str(e)})
    return out


def chunk_effects(L: Any, fname: str, hooks: Dict[str, Any], getter: str, setter: str) -> List[List[Effect]]:
    """Effects of a single-chunk coder from the path engine, in the vocabulary check_chunk reads:
    store s [index, value] / call <setter> [lshift, value] / attr i (cursor writes).  Methods and
    properties of the context object are inlined, the pure shift / mask helpers get their normal
    forms from `hooks`."""
    from .fold import replace_atoms
    from .normal import call as _call
    from .pyflow import single_atom as _sa

    fn = L.func(fname)
    ps = [a_.arg for a_ in fn.args.args]
    if len(ps) != 5:
        raise Inconclusive(f"{fname}: parameter list is {ps}")
    ctxn = ps[0]
    typed = {ctxn: L.methods.get("ProcessContext", {})}
    names = {f"{ctxn}.i": "i", f"{ctxn}.s": "s"}
    flow = L.flow(None, typed=typed, names=names, inline_props=True, value_hooks=hooks, primitives=(getter, setter), havoc_on=())
    paths = [p_ for p_ in flow.run(fn, {ps[0]: V(ctxn), ps[1]: V(ps[1]), ps[2]: V(ps[2]), ps[3]: V("j"), ps[4]: V("c")}) if p_.done != "raise"]
    if not paths or len(paths) > 4:
        raise Inconclusive(f"{fname}: {len(paths)} paths (a chunk coder with at most 4 straight-line paths is expected)")

    from .normal import sshift as _sshift

    guards: List[Tuple[Any, bool]] = []

    def nonneg(k: Poly) -> bool:
        # the path's own branch conditions say k >= 0 (guards are normalised to `P < 0` / `P <= 0`)
        zero = Poly.const(0)
        for key, truth in guards:
            if not (isinstance(key, tuple) and len(key) == 3 and key[0] == "cmp" and key[1] in ("<", "<=")):
                continue
            if truth and key[2] == zero - k:
                return True
            if not truth and key[2] == k:
                return True
        return False

    def canon(a: Tuple[Any, ...]) -> Optional[Poly]:
        # accessor.bp_get_byte(di, rshift) -> bp_get_byte(rshift)
        if a[0] == "mcall" and a[1] == getter and len(a[2]) >= 2:
            return _call(getter, replace_atoms(a[2][-1], canon))
        # x >> k on a path whose branch condition gives k >= 0 is the signed shift by k
        if a[0] == "shr" and len(a) == 3 and nonneg(a[2]):
            return _sshift(replace_atoms(a[1], canon), a[2])
        return None

    outs: List[List[Effect]] = []
    for p_ in paths:
      guards[:] = list(p_.guards)
      out: List[Effect] = []
      outs.append(out)
      for e in p_.effects:
        if e.kind == "store" and e.name in ("s", f"{ctxn}.s"):
            out.append(Effect("store", "s", [replace_atoms(x, canon) for x in e.args], e.op, [], e.node))
        elif e.kind == "call" and e.name == setter:
            out.append(Effect("call", setter, [replace_atoms(x, canon) for x in e.args[-2:]], "", [], e.node))
        elif e.kind == "setattr" and e.name == "i":
            out.append(Effect("attr", "i", [replace_atoms(x, canon) for x in e.args], e.op, [], e.node))
        elif e.kind == "loop":
            out.append(Effect("compound", "loop", [], "", [], e.node))
    return outs


@rule("D1", "single-chunk encode/decode of every implementation equals the specification normal form; both cursors advance by the chunk")
def d1(repo: Repo) -> RuleResult:
    res = RuleResult("D1", floor=9)
    # ---------------- Python runtime
    m, bp, funcs, lw = _py_runtime(repo)
    from .flows import go_runtime as _gort, py_runtime as _pyrt

    try:
        PL = _pyrt(repo)
        hooks_py = {k_: (lambda args, k_=k_: lw.inline(funcs[k_], list(args), 0)) for k_ in ("smart_shift", "get_mask") if k_ in funcs}
        for direction, fname in (("encode", "encode_single_byte"), ("decode", "decode_single_byte")):
            if not PL.has(fname):
                res.unsure(f"D1: bp.py:{fname} vanished")
                continue
            try:
                eff = chunk_effects(PL, fname, hooks_py, "bp_get_byte", "bp_set_byte")
            except Inconclusive as e:
                res.unsure(f"D1: py:{fname}: {e}")
                continue
            fn = PL.func(fname)
            for eff1 in eff:  # every path of the chunk coder must be the normal form
                check_chunk(res, "py", BP, direction, fname, fn.lineno, eff1, "bp_get_byte", "bp_set_byte")
                _no_cursor_move(res, "py", BP, fname, fn.lineno, eff1)
    except Inconclusive as e:
        res.unsure(f"D1: py runtime: {e}")
    sites = {x["lang"]: x for x in loop_sites(repo)}
    for lang in ("py", "go", "planner"):
        st_ = sites.get(lang)
        if st_ is None or "error" in st_:
            res.unsure(f"D1: {lang}: chunk loop: {st_['error'] if st_ else 'site missing'}")
            continue
        try:
            lf = chunk_loop(st_["flow"], st_["fn"], "i")
        except Inconclusive as e:
            res.unsure(f"D1: {lang}:{st_['fname']}: {e}")
            continue
        judge_loop(res, lang, st_["file"], st_["fname"], lf, st_["enc"], st_["dec"], st_["enc_key"], st_["pos"])
        if lf.ok and lf.counter_init != "0":
            res.unsure(f"D1: {lang}:{st_['fname']}: the chunk counter `{lf.counter}` is not initialised with 0 before the loop (found `{lf.counter_init}`)")
        if lang == "planner" and lf.ok and lf.bound_init != "t.nbits()":
            bound = lf.bound_init
            if bound is not None and "nbits" in bound:
                f = Finding("D1", FMT, st_["fn"].lineno, st_["fname"], bound, f"planner: the chunk loop runs to `{bound}`, not to the type's bit size t.nbits()", witness="uint12 with -O: bits beyond the field are emitted / dropped", tag="planner:bound")
                f.part = "planner"
                res.bad(f)
            else:
                res.unsure(f"D1: planner: loop bound `{bound}` not recognised")
    res.note("py: " + "; ".join(sorted(set(lw.notes))))

    # ---------------- Go runtime
    try:
        g = get_go(repo)
        glw = GoLower(g.funcs, names={"ctx.i": "i", "ctx.s": "s", "nbits": "n"})
        GL = _gort(repo)
        hooks_go = {k_: (lambda args, k_=k_: glw.inline(g.funcs[k_], list(args), 0)) for k_ in ("smartShift", "getMask") if k_ in g.funcs}
        for direction, fname in (("encode", "encodeSingleByte"), ("decode", "decodeSingleByte")):
            fn = g.func(fname)
            try:
                eff = chunk_effects(GL, fname, hooks_go, "BpGetByte", "BpSetByte")
            except Inconclusive as e:
                res.unsure(f"D1: go:{fname}: {e}")
                continue
            for eff1 in eff:
                check_chunk(res, "go", GO_RT, direction, fname, fn.line, eff1, "BpGetByte", "BpSetByte")
                _no_cursor_move(res, "go", GO_RT, fname, fn.line, eff1)
        res.note("go: " + "; ".join(sorted(set(glw.notes))))
    except Inconclusive as e:
        res.unsure(f"D1: go runtime: {e}")

    # ---------------- planner (optimization mode)
    try:
        m2, fm, pfuncs, plw = _planner(repo)
        from .flows import compiler_flow as _cfp
        from .normal import V as _Vp
        from .pyflow import single_atom as _sap

        pflow = _cfp(repo, "Formatter", "renderer/formatter.py", inline=lambda n_, f_: not n_.startswith("format_"))
        for direction, fname, item in (("encode", "format_op_mode_encode_single_byte", "format_op_mode_encoder_item"), ("decode", "format_op_mode_decode_single_byte", "format_op_mode_decoder_item")):
            fn = pfuncs.get(fname)
            if fn is None:
                res.unsure(f"D1: planner {fname} vanished")
                continue
            ps_ = [a_.arg for a_ in fn.args.args]
            if len(ps_) != 6:
                res.unsure(f"D1: planner {fname}: parameter list is {ps_}")
                continue
            # (self, t, chain, i, j, c): stream cursor, field cursor, chunk size by position
            envp = {ps_[0]: _Vp("self"), ps_[1]: _Vp("t"), ps_[2]: _Vp("chain"), ps_[3]: _Vp("i"), ps_[4]: _Vp("j"), ps_[5]: _Vp("c")}
            rets = [p_ for p_ in pflow.run(fn, envp) if p_.done == "return" and p_.ret is not None]
            res.inst(part="planner", function=fname, direction=direction, returns=[show(r.ret) for r in rets])
            if len(rets) != 1 or rets[0].guards:
                res.unsure(f"D1: planner {fname}: not a single unconditional return (shape gate)")
                continue
            a = _sap(rets[0].ret)
            if a is None or a[0] != "mcall" or a[1] != item:
                res.unsure(f"D1: planner {fname}: does not return {item}(...)")
                continue
            args = list(a[2][1:])
            # parameters of the item formatter: (chain, t, si, fi, shift, mask, r)
            pnames = [x.arg for x in pfuncs[item].args.args if x.arg != "self"] if item in pfuncs else []
            pos_args = [x for x in args if not ((_sap(x) or ("",))[0] == "kw")]
            kw_args = {_sap(x)[1]: _sap(x)[2] for x in args if (_sap(x) or ("",))[0] == "kw"}
            got = dict(zip(pnames, pos_args))
            got.update(kw_args)
            if pnames != ["chain", "t", "si", "fi", "shift", "mask", "r"] or set(got) != set(pnames):
                res.unsure(f"D1: planner: {item} takes {pnames} and is called with {sorted(got)}")
                continue
            spec = SPEC[direction]
            own = mod8(i_) if direction == "encode" else mod8(j_)
            want = {"si": div8(i_), "fi": div8(j_), "shift": spec["shift"], "mask": spec["mask"], "r": own}
            wit = {"si": "any field not starting in stream byte 0", "fi": "uint16: second value byte", "shift": "uint8 at bit offset 3", "mask": "a 3-bit chunk at offset 2", "r": "`=` instead of `|=` clobbers bits already placed in the byte"}
            for k2, w in want.items():
                if got[k2] != w:
                    f = Finding("D1", FMT, fn.lineno, f"Formatter.{fname}", f"{k2} = {show(got[k2])}", f"planner {direction}: `{k2}` is `{show(got[k2])}`, the layout rule requires `{show(w)}`", witness=wit[k2] + " with -O", tag=f"planner:{fname}:{k2}")
                    f.part = "planner"
                    res.bad(f)
        pass
    except Inconclusive as e:
        res.unsure(f"D1: planner: {e}")
    return res


@rule("E1", "chunk size obligations: 1 <= c <= 8, the chunk fits both bytes, never beyond the field")
def e1(repo: Repo) -> RuleResult:
    res = RuleResult("E1", floor=15)
    for st_ in loop_sites(repo):
        lang = st_["lang"]
        if "error" in st_:
            res.unsure(f"E1: {lang}: {st_['error']}")
            continue
        try:
            lf = chunk_loop(st_["flow"], st_["fn"], "i")
        except Inconclusive as e:
            res.unsure(f"E1: {lang}: {e}")
            continue
        if not lf.ok:
            res.unsure(f"E1: {lang} chunk loop not found: {lf.why}")
            continue
        seen = set()
        for b in lf.bodies:
            if b["c"] is None:
                res.unsure(f"E1: {lang} chunk size not found")
                continue
            key = (show(b["c"]), tuple(sorted((op, show(d), tr) for op, d, tr in b["lits"])))
            if key in seen:
                continue
            seen.add(key)
            # the direction literal does not matter for the arithmetic: judge each distinct (chunk, numeric guards) once
            under = " and ".join(g for g in b["guards"] if "is_encode" not in g)
            obligations(res, "E1", lang, st_["file"], st_["fname"], lf.line, b["c"], facts_of(b), under)
    return res
