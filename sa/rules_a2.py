"""
A6 who-may-write the AST, A10 nondeterminism sources, T1 termination shape.
"""

from __future__ import annotations

import ast
from typing import Any, Dict, List, Optional, Set, Tuple

from .callgraph import CG, Unit
from .core import Finding, Inconclusive, Repo, RuleResult, enclosing, parent, qualname, rule, short, src_of
from .pymodel import ClassInfo, FuncInfo, Inst, Map, Model, Seq, Typer, get_model
from .rules_a import graphs

MUTATORS = {"push_member", "set_name", "set_comment_block", "freeze"}
COLL_MUTATORS = {"append", "extend", "insert", "pop", "remove", "clear", "update", "setdefault", "popitem", "add", "discard", "sort", "reverse"}


def _all_funcs(m: Model, pred) -> List[FuncInfo]:
    out = []
    for mod in m.mods.values():
        if pred(mod.rel):
            out.extend(mod.funcs.values())
            for c in mod.classes.values():
                out.extend(c.methods.values())
    return out


def ast_writes(m: Model, fi: FuncInfo, node_cls: ClassInfo) -> List[Tuple[ast.AST, str]]:
    """Constructs in fi that modify an AST node (attribute store / delete,
    mutator call, mutation of one of its collections)."""
    ty = Typer(m, fi, fi.cls)
    out: List[Tuple[ast.AST, str]] = []

    def is_node(e: ast.AST) -> Optional[str]:
        t = ty.type_of(e)
        for a in t:
            if isinstance(a, Inst) and m.is_subclass(a.cls, node_cls):
                return a.cls.name
        return None

    for n in ast.walk(fi.node):
        tgts: List[ast.AST] = []
        if isinstance(n, ast.Assign):
            tgts = list(n.targets)
        elif isinstance(n, (ast.AugAssign, ast.AnnAssign)):
            tgts = [n.target]
        elif isinstance(n, ast.Delete):
            tgts = list(n.targets)
        for t in tgts:
            for x in ast.walk(t):
                if isinstance(x, ast.Attribute) and isinstance(x.ctx, (ast.Store, ast.Del)):
                    k = is_node(x.value)
                    if k and not (isinstance(x.value, ast.Name) and x.value.id == "self" and fi.cls is not None and m.is_subclass(fi.cls, node_cls)):
                        out.append((n, f"stores attribute `{x.attr}` of a {k}"))
                if isinstance(x, ast.Subscript) and isinstance(x.ctx, (ast.Store, ast.Del)) and isinstance(x.value, ast.Attribute):
                    k = is_node(x.value.value)
                    if k:
                        out.append((n, f"writes into `{x.value.attr}` of a {k}"))
        if isinstance(n, ast.Call) and isinstance(n.func, ast.Attribute):
            f = n.func
            if f.attr in MUTATORS:
                k = is_node(f.value)
                if k:
                    out.append((n, f"calls {f.attr}() on a {k}"))
            if f.attr in COLL_MUTATORS and isinstance(f.value, ast.Attribute):
                k = is_node(f.value.value)
                if k:
                    out.append((n, f"mutates `{f.value.attr}` of a {k} with .{f.attr}()"))
            if isinstance(n.func, ast.Attribute) and src_of(n.func) == "object.__setattr__":
                out.append((n, "object.__setattr__ bypasses the frozen guard"))
        if isinstance(n, ast.Call) and isinstance(n.func, ast.Name) and n.func.id in ("setattr", "delattr") and n.args:
            k = is_node(n.args[0])
            if k:
                out.append((n, f"{n.func.id}() on a {k}"))
    return out


@rule("A6", "linter and renderers never modify the AST (only parser, lexer and _ast do)")
def a6(repo: Repo) -> RuleResult:
    res = RuleResult("A6", floor=1)
    G = graphs(repo)
    m = G.model
    node = G.node_cls
    readers = _all_funcs(m, lambda rel: rel.endswith("bitproto/linter.py") or "/renderer/" in rel)
    n_funcs = 0
    for fi in readers:
        n_funcs += 1
        for n, what in ast_writes(m, fi, node):
            part = "lint" if fi.rel.endswith("linter.py") else "render"
            f = Finding("A6", fi.rel, n.lineno, fi.qual, src_of(n), f"{what}: {'linting' if part == 'lint' else 'rendering'} changes the schema (and with cached/frozen nodes raises or changes later output)", witness="compile twice in one process / with and without -q", tag=f"{fi.qual}:{short(src_of(n), 60)}")
            f.part = part
            res.bad(f)
    res.inst(part="readers", functions=n_funcs)
    # positive control: the same detector must see the parser's writes
    writers = _all_funcs(m, lambda rel: rel.endswith("bitproto/parser.py"))
    seen = []
    for fi in writers:
        for n, what in ast_writes(m, fi, node):
            seen.append(f"{fi.qual}: {what}")
    res.inst(part="control", parser_writes=len(seen), sample=seen[:4])
    if len(seen) < 8:
        res.unsure(f"A6: positive control failed: the detector sees only {len(seen)} AST writes in parser.py (>= 8 confirmed by hand)")
    return res


# --------------------------------------------------------------------------
# A10 nondeterminism
# --------------------------------------------------------------------------

ND_CALLS = {
    "hash", "id", "os.getcwd", "os.getcwdb", "os.path.abspath", "os.path.realpath", "os.listdir", "os.scandir", "os.walk", "os.getpid",
    "os.getenv", "os.urandom", "glob.glob", "time.time", "time.monotonic", "time.strftime", "time.localtime", "random.random",
    "random.choice", "random.shuffle", "random.randint", "uuid.uuid4", "uuid.uuid1", "datetime.now", "datetime.datetime.now",
    "datetime.date.today", "platform.node", "socket.gethostname", "tempfile.mkdtemp", "tempfile.mktemp",
    # questions about a possibly relative path are answered relative to the working directory
    "os.path.isfile", "os.path.exists", "os.path.isdir", "os.path.lexists", "os.access", "os.stat", "os.path.getsize", "os.path.getmtime",
}
ND_ALLOWED = {
    ("safe_hash.__hash__", "hash"): "identity hash, never iterated or emitted",
    ("safe_hash.__hash__", "id"): "identity hash, never iterated or emitted",
    ("Renderer.get_outdir_default", "os.getcwd"): "documented default of the output *directory*",
    ("Renderer.get_outdir_default", "os.path.abspath"): "documented default of the output *directory*",
}


def _only_feeds_import_path(call: ast.Call, fn: ast.AST) -> bool:
    """os.getcwd() is returned, or bound to a local whose only uses are arguments of os.path.join / a return."""
    par = parent(call)
    if isinstance(par, ast.Return):
        return True
    if isinstance(par, ast.Call) and src_of(par.func) == "os.path.join":
        return True
    if isinstance(par, ast.IfExp):
        return _only_feeds_import_path(par, fn)  # type: ignore[arg-type]
    if isinstance(par, (ast.Assign, ast.AnnAssign)):
        tg = par.targets[0] if isinstance(par, ast.Assign) else par.target
        if isinstance(tg, ast.Name):
            uses = [u for u in ast.walk(fn) if isinstance(u, ast.Name) and u.id == tg.id and isinstance(u.ctx, ast.Load)]
            return bool(uses) and all(isinstance(parent(u), ast.Return) or (isinstance(parent(u), ast.Call) and src_of(parent(u).func) == "os.path.join") for u in uses)
    return False


@rule("A10", "no nondeterminism source or post-import global state on the compile path")
def a10(repo: Repo) -> RuleResult:
    res = RuleResult("A10", floor=3)
    m = get_model(repo)
    funcs = _all_funcs(m, lambda rel: rel.startswith("compiler/bitproto/"))
    n_calls = 0
    for fi in funcs:
        ty: Optional[Typer] = None
        mod = m.mods[fi.rel]
        for n in ast.walk(fi.node):
            if isinstance(n, ast.Call):
                name = None
                if isinstance(n.func, ast.Name) and n.func.id in ("hash", "id"):
                    name = n.func.id
                elif isinstance(n.func, ast.Attribute):
                    r = m.resolve_expr_static(mod, n.func)
                    if isinstance(r, tuple) and r[0] == "ext":
                        name = r[1]
                    else:
                        name = src_of(n.func)
                if name in ND_CALLS:
                    n_calls += 1
                    q = qualname(n)
                    why = ND_ALLOWED.get((q, name))
                    if why is None and name == "os.getcwd" and q.startswith("Parser."):
                        # the base directory of imports when a string is parsed: wherever the helpers put it,
                        # B5 establishes that it only reaches the child parser under `not current_filepath()`
                        try:
                            from .rules_b import import_path_analysis

                            _i, bad_i, unsure_i, helpers_i = import_path_analysis(repo)
                            if q.split(".", 1)[1] in helpers_i and not bad_i and not unsure_i and _only_feeds_import_path(n, fi.node):
                                why = "only when parsing from a string: base directory of imports (B5 import-path)"
                        except Inconclusive:
                            pass
                    res.inst(part="sources", where=q, call=name, allowed=why)
                    if why is None:
                        res.bad(Finding("A10", fi.rel, n.lineno, q, src_of(n), f"{name}() on the compile path: output may depend on process / directory / time", witness="compile the same schema from two working directories / with two PYTHONHASHSEED values", tag=f"{q}:{name}"))
            if isinstance(n, ast.Attribute) and src_of(n) == "os.environ":
                res.bad(Finding("A10", fi.rel, n.lineno, qualname(n), src_of(n), "the environment is read on the compile path", tag=f"{qualname(n)}:environ"))
            # iteration over sets
            iters: List[ast.AST] = []
            if isinstance(n, ast.For):
                iters.append(n.iter)
            elif isinstance(n, ast.comprehension):
                iters.append(n.iter)
            elif isinstance(n, ast.Call) and isinstance(n.func, ast.Name) and n.func.id in ("list", "tuple", "sorted", "enumerate") and n.args:
                if n.func.id != "sorted":
                    iters.append(n.args[0])
            elif isinstance(n, ast.Call) and isinstance(n.func, ast.Attribute) and n.func.attr == "join" and n.args:
                iters.append(n.args[0])
            def _setlike(x: ast.AST) -> bool:
                if isinstance(x, (ast.Set, ast.SetComp)):
                    return True
                if isinstance(x, ast.Call) and isinstance(x.func, ast.Name) and x.func.id in ("set", "frozenset"):
                    return True
                if isinstance(x, ast.BinOp) and isinstance(x.op, (ast.BitOr, ast.BitAnd, ast.Sub, ast.BitXor)) and (_setlike(x.left) or _setlike(x.right)):
                    return True
                if isinstance(x, ast.Call) and isinstance(x.func, ast.Attribute) and x.func.attr in ("union", "intersection", "difference", "symmetric_difference", "copy") and _setlike(x.func.value):
                    return True
                return False

            for it in iters:
                is_set = _setlike(it)
                if not is_set and isinstance(it, ast.Name):
                    # a local bound to a set anywhere in this function
                    for a_ in ast.walk(fi.node):
                        if isinstance(a_, (ast.Assign, ast.AnnAssign)) and a_.value is not None:
                            tgs = a_.targets if isinstance(a_, ast.Assign) else [a_.target]
                            if any(isinstance(t_, ast.Name) and t_.id == it.id for t_ in tgs) and (_setlike(a_.value) or (isinstance(a_.value, ast.Name) and False)):
                                is_set = True
                if not is_set:
                    if ty is None:
                        ty = Typer(m, fi, fi.cls)
                    t = ty.type_of(it)
                    is_set = any(isinstance(a, Seq) and a.kind == "set" for a in t)
                if is_set:
                    res.bad(Finding("A10", fi.rel, it.lineno, qualname(it), src_of(it), "iteration over a set: the order depends on the hash seed / object identities", witness="PYTHONHASHSEED=1 vs 2", tag=f"{qualname(it)}:set-iter"))
            if isinstance(n, ast.Global):
                res.bad(Finding("A10", fi.rel, n.lineno, qualname(n), src_of(n), "module-level state is rebound after import: a second compilation in the same process sees it", tag=f"{qualname(n)}:global"))
            # class attribute / module container writes
            tg: List[ast.AST] = []
            if isinstance(n, ast.Assign):
                tg = list(n.targets)
            elif isinstance(n, ast.AugAssign):
                tg = [n.target]
            for t in tg:
                if isinstance(t, ast.Attribute):
                    r = m.resolve_expr_static(mod, t.value) if isinstance(t.value, (ast.Name, ast.Attribute)) else None
                    if isinstance(r, ClassInfo) or src_of(t.value) in ("self.__class__", "type(self)", "cls"):
                        if "frozen" in qualname(n) or "safe_hash" in qualname(n):
                            continue
                        res.bad(Finding("A10", fi.rel, n.lineno, qualname(n), src_of(n), "a class attribute is written at run time: state leaks between compilations in one process", tag=f"{qualname(n)}:class-attr"))
                if isinstance(t, ast.Subscript) and isinstance(t.value, ast.Name):
                    if t.value.id in mod.assigns and (Typer(m, fi, fi.cls).local(t.value.id) is None):
                        res.bad(Finding("A10", fi.rel, n.lineno, qualname(n), src_of(n), "a module-level container is written at run time", tag=f"{qualname(n)}:module-container"))
            if isinstance(n, ast.Call) and isinstance(n.func, ast.Attribute) and n.func.attr in COLL_MUTATORS and isinstance(n.func.value, ast.Name):
                nm = n.func.value.id
                if nm in mod.assigns and Typer(m, fi, fi.cls).local(nm) is None and isinstance(mod.assigns[nm], (ast.List, ast.Dict, ast.Set, ast.Call)):
                    res.bad(Finding("A10", fi.rel, n.lineno, qualname(n), src_of(n), "a module-level container is mutated at run time", tag=f"{qualname(n)}:module-container"))
    res.inst(part="sources", functions=len(funcs), nd_calls=n_calls)
    # files written by the compiler start empty: what an earlier run left in the output directory must not survive
    n_open = 0
    for fi in funcs:
        for n in ast.walk(fi.node):
            if not isinstance(n, ast.Call):
                continue
            fname_ = src_of(n.func)
            if fname_ in ("open", "io.open", "codecs.open"):
                mode = n.args[1] if len(n.args) > 1 else next((k_.value for k_ in n.keywords if k_.arg == "mode"), None)
                if mode is None:
                    continue  # reading
                n_open += 1
                mv = mode.value if isinstance(mode, ast.Constant) and isinstance(mode.value, str) else None
                if mv is None:
                    res.unsure(f"A10: {qualname(n)}: open() with a computed mode `{src_of(mode)}`")
                elif ("a" in mv or "+" in mv or "x" in mv) and "w" not in mv:
                    res.bad(Finding("A10", fi.rel, n.lineno, qualname(n), src_of(n), f"a file is opened for writing with mode {mv!r}, which keeps (or depends on) what is already there: the bytes on disk depend on earlier runs", witness="compile with -O, then without, into the same directory", tag=f"{qualname(n)}:open-mode"))
            elif fname_ == "os.open":
                flags = n.args[1] if len(n.args) > 1 else next((k_.value for k_ in n.keywords if k_.arg == "flags"), None)
                names_ = {src_of(x) for x in ast.walk(flags)} if flags is not None else set()
                if names_ & {"os.O_WRONLY", "os.O_RDWR"}:
                    n_open += 1
                    if "os.O_TRUNC" not in names_ and "os.O_EXCL" not in names_:
                        res.bad(Finding("A10", fi.rel, n.lineno, qualname(n), src_of(n), "a file is opened for writing without O_TRUNC: the tail of a longer file left by an earlier run survives, the bytes on disk depend on the history of the output directory", witness="compile with -O --endian both, then with --endian little, into the same directory", tag=f"{qualname(n)}:no-trunc"))
    res.inst(part="sources", files_opened_for_writing=n_open)

    def _mutable_literal(v: Optional[ast.AST]) -> bool:
        if isinstance(v, (ast.List, ast.Dict, ast.Set, ast.ListComp, ast.DictComp, ast.SetComp)):
            return True
        return isinstance(v, ast.Call) and isinstance(v.func, ast.Name) and v.func.id in ("list", "dict", "set", "defaultdict", "OrderedDict", "deque", "bytearray", "Counter")

    # class-level containers reached through self / cls and mutated at run time: one object for all instances
    n_cls_containers = 0
    for c in m.all_classes():
        if not c.rel.startswith("compiler/bitproto/"):
            continue
        shared = {a for a, v in c.attrs_val.items() if _mutable_literal(v)}
        n_cls_containers += len(shared)
        if not shared:
            continue
        users = [k for k in m.all_classes() if k.rel.startswith("compiler/bitproto/") and c in m.mro(k)]
        rebound = {n.attr for k in users for fi in k.methods.values() for n in ast.walk(fi.node) if isinstance(n, ast.Attribute) and isinstance(n.ctx, ast.Store) and isinstance(n.value, ast.Name) and n.value.id == "self"}
        for k in users:
            for fi in k.methods.values():
                for n in ast.walk(fi.node):
                    tgt = None
                    if isinstance(n, ast.Call) and isinstance(n.func, ast.Attribute) and n.func.attr in COLL_MUTATORS:
                        tgt = n.func.value
                    elif isinstance(n, (ast.Assign, ast.AugAssign)):
                        for t in (n.targets if isinstance(n, ast.Assign) else [n.target]):
                            if isinstance(t, ast.Subscript):
                                tgt = t.value
                    elif isinstance(n, ast.Delete):
                        for t in n.targets:
                            if isinstance(t, ast.Subscript):
                                tgt = t.value
                    if isinstance(tgt, ast.Attribute) and tgt.attr in shared and tgt.attr not in rebound and (src_of(tgt.value) in ("self", "cls", "type(self)", "self.__class__", c.name) or src_of(tgt.value) in {u.name for u in users}):
                        res.bad(Finding("A10", fi.rel, n.lineno, fi.qual, src_of(n), f"`{src_of(tgt)}` is the container created once in the body of class {c.name} and shared by every instance (and subclass): what one compilation or one target language stores there is seen by the next", witness="compile for C and then for Go in one process: the second output depends on the first", tag=f"{fi.qual}:class-container:{tgt.attr}"))
    res.inst(part="sources", class_level_containers=n_cls_containers)
    # mutable default arguments that are stored or mutated: one object for all calls
    n_defaults = 0
    for fi in funcs:
        a = fi.node.args
        pos = a.posonlyargs + a.args
        pairs = list(zip(pos[len(pos) - len(a.defaults):], a.defaults)) + [(x, d) for x, d in zip(a.kwonlyargs, a.kw_defaults) if d is not None]
        for arg, d in pairs:
            if not _mutable_literal(d):
                continue
            n_defaults += 1
            why = None
            for n in ast.walk(fi.node):
                if isinstance(n, (ast.Assign, ast.AnnAssign)) and isinstance(n.value, ast.Name) and n.value.id == arg.arg and any(isinstance(t, ast.Attribute) for t in (n.targets if isinstance(n, ast.Assign) else [n.target])):
                    why = f"stored as `{src_of(n)}`"
                elif isinstance(n, ast.Call) and isinstance(n.func, ast.Attribute) and n.func.attr in COLL_MUTATORS and isinstance(n.func.value, ast.Name) and n.func.value.id == arg.arg:
                    why = f"mutated by `{src_of(n)}`"
                elif isinstance(n, (ast.Assign, ast.AugAssign)) and any(isinstance(t, ast.Subscript) and isinstance(t.value, ast.Name) and t.value.id == arg.arg for t in (n.targets if isinstance(n, ast.Assign) else [n.target])):
                    why = f"written by `{src_of(n)}`"
                elif isinstance(n, ast.Return) and isinstance(n.value, ast.Name) and n.value.id == arg.arg:
                    why = "returned to the caller"
            if why:
                res.bad(Finding("A10", fi.rel, fi.node.lineno, fi.qual, f"{arg.arg}={src_of(d)}", f"the default value of `{arg.arg}` is one mutable object for all calls and it is {why}: what one compilation leaves in it is seen by the next", witness="two compilations in one process: comments of the first schema appear in the output of the second", tag=f"{fi.qual}:mutable-default:{arg.arg}"))
    res.inst(part="sources", mutable_defaults=n_defaults)
    # CFormatter._op_mode_big_endian: set, and reset in finally
    try:
        fi = m.func("impls/c/formatter.py", "CFormatter.format_op_mode_message_endian")
        # the function itself, or the @contextmanager methods it enters with `with self.<cm>(...)`
        scopes = [fi.node]
        cf = m.cls("CFormatter", "impls/c/formatter.py")
        for w in ast.walk(fi.node):
            if isinstance(w, ast.With):
                for it_ in w.items:
                    ce = it_.context_expr
                    if isinstance(ce, ast.Call) and isinstance(ce.func, ast.Attribute) and isinstance(ce.func.value, ast.Name) and ce.func.value.id == "self":
                        cmf = m.lookup(cf, ce.func.attr)
                        if cmf is not None and any("contextmanager" in src_of(d_) for d_ in cmf.node.decorator_list):
                            scopes.append(cmf.node)
        sets = [n for sc in scopes for n in ast.walk(sc) if isinstance(n, ast.Assign) and src_of(n.targets[0]) == "self._op_mode_big_endian"]
        res.inst(part="endian-flag", sets=[src_of(s) for s in sets])
        ok = False
        for sc in scopes:
            for tr in [n for n in ast.walk(sc) if isinstance(n, ast.Try)]:
                resets = any(isinstance(s, ast.Assign) and src_of(s) == "self._op_mode_big_endian = False" for s in tr.finalbody)
                # the work (the formatting calls, or the yield that stands for the with-body) is inside the try
                covers = any(isinstance(x, (ast.Yield, ast.Call)) for b_ in tr.body for x in ast.walk(b_))
                if resets and covers:
                    ok = True
        if not ok:
            res.bad(Finding("A10", fi.rel, fi.node.lineno, fi.qual, "", "the big-endian mode flag is not reset in a finally block: after an error the next message is rendered in the wrong variant", tag="endian-flag:reset"))
        if not all(src_of(s.targets[0]).startswith("self.") for s in sets):
            res.bad(Finding("A10", fi.rel, fi.node.lineno, fi.qual, "", "the mode flag is written on the class, not the instance", tag="endian-flag:class"))
    except Inconclusive:
        res.note("CFormatter.format_op_mode_message_endian not present (no endian flag to check)")
    return res


# --------------------------------------------------------------------------
# T1 termination shape
# --------------------------------------------------------------------------

# recursion cycles confirmed by hand: each descends a finite acyclic structure
RECURSION_OK = {
    "Scope.get_member": "recurses with a strictly shorter tuple of names",
    "Scope.filter": "descends member scopes; a scope becomes a member only when complete (B5), so the scope tree is finite and acyclic",
    "Formatter.format_type": "descends element_type / alias target; types refer only to earlier, completed definitions (B5)",
    "Typer": "",
}
RECURSION_PREFIX_OK = (
    "format_", "formart_", "render_", "_format_", "Block.", "BlockComposition.", "BlockWrapper.", "BlockConditional.", "post_format_",
)


@rule("T1", "every while loop advances a counter towards its bound; recursion descends finite acyclic structures")
def t1(repo: Repo) -> RuleResult:
    res = RuleResult("T1", floor=2)
    G = graphs(repo)
    m = G.model
    funcs = _all_funcs(m, lambda rel: rel.startswith("compiler/bitproto/"))
    for fi in funcs:
        for n in ast.walk(fi.node):
            if not isinstance(n, ast.While):
                continue
            t = n.test
            res.inst(part="while", where=fi.qual, test=src_of(t))
            ok = False
            why = "loop test is not `counter < bound`"
            if isinstance(t, ast.Compare) and len(t.ops) == 1 and isinstance(t.ops[0], (ast.Lt, ast.LtE)) and isinstance(t.left, ast.Name):
                ctr = t.left.id
                bound_names = {x.id for x in ast.walk(t.comparators[0]) if isinstance(x, ast.Name)}
                incs = [st for st in n.body if isinstance(st, ast.AugAssign) and isinstance(st.op, ast.Add) and src_of(st.target) == ctr]
                other_writes = [x for x in ast.walk(n) if isinstance(x, (ast.Assign, ast.AugAssign)) and any(src_of(tt) == ctr for tt in (x.targets if isinstance(x, ast.Assign) else [x.target])) and not (isinstance(x, ast.AugAssign) and isinstance(x.op, ast.Add))]
                bound_writes = [x for x in ast.walk(n) if isinstance(x, (ast.Assign, ast.AugAssign)) and any(isinstance(tt, ast.Name) and tt.id in bound_names for tt in (x.targets if isinstance(x, ast.Assign) else [x.target]))]
                has_continue = any(isinstance(x, ast.Continue) for x in ast.walk(n))
                if not incs:
                    why = f"`{ctr}` is not incremented unconditionally at the top level of the loop body"
                elif other_writes:
                    why = f"`{ctr}` is also written by `{src_of(other_writes[0])}`"
                elif bound_writes:
                    why = f"the bound is modified inside the loop (`{src_of(bound_writes[0])}`)"
                elif has_continue:
                    why = "a `continue` may skip the increment"
                else:
                    step = incs[-1].value
                    if isinstance(step, ast.Constant) and isinstance(step.value, int) and step.value >= 1:
                        ok = True
                    elif isinstance(step, ast.Name):
                        # step variable: must be proven >= 1 by rule E-planner
                        from .core import all_rules

                        ep = all_rules().get("E1")
                        if ep is not None:
                            r = ep(repo)
                            ok = not [f for f in r.findings if f.part == "planner"] and not r.inconclusive
                            why = "the step is a variable whose positivity rule E1 could not establish"
                        else:
                            ok = False
                            why = "the step is a variable and rule E1 (step >= 1) is not available"
                    else:
                        why = f"step `{src_of(step)}` is not a positive constant"
            # descent of the type structure: while isinstance(x, (Alias, Enum)): x = x.type
            if not ok and isinstance(t, ast.Call) and isinstance(t.func, ast.Name) and t.func.id == "isinstance" and len(t.args) == 2 and isinstance(t.args[0], ast.Name):
                v_ = t.args[0].id
                writes = [x for x in ast.walk(n) if isinstance(x, (ast.Assign, ast.AugAssign, ast.AnnAssign)) and any(isinstance(tt, ast.Name) and tt.id == v_ for tt in (x.targets if isinstance(x, ast.Assign) else [x.target]))]
                descends = [x for x in writes if isinstance(x, ast.Assign) and isinstance(x.value, ast.Attribute) and isinstance(x.value.value, ast.Name) and x.value.value.id == v_ and x.value.attr in ("type", "element_type")]
                top = [x for x in n.body if x in descends]
                if writes and len(writes) == len(descends) and top and not any(isinstance(x, ast.Continue) for x in ast.walk(n)):
                    ok = True
                    res.inst(part="while", where=fi.qual, test=src_of(t), descends="each iteration replaces the variable by the type it refers to; types refer only to earlier, completed definitions (B5), so the chain is finite")
                else:
                    why = "the loop tests the class of a variable that is not replaced by its .type / .element_type on every iteration"
            if not ok:
                f = Finding("T1", fi.rel, n.lineno, fi.qual, src_of(t), f"this loop may not terminate: {why}", witness="an input that takes the non-advancing path hangs the compiler", tag=f"{fi.qual}:while")
                res.bad(f)
    # recursion
    for label, cg in [("parse", G.parse), ("lint", G.lint)] + [("render:" + k, v[0]) for k, v in G.render.items()]:
        sccs = _sccs({u: [e.callee for e in edges] for u, edges in cg.units.items()})
        for comp in sccs:
            names = sorted({u.fn.qual for u in comp})
            res.inst(part="recursion", graph=label, cycle=names[:6], size=len(comp))
            for nme in names:
                base = nme
                if base in RECURSION_OK:
                    continue
                short_name = base.split(".")[-1]
                if short_name.startswith(RECURSION_PREFIX_OK) or base.startswith(RECURSION_PREFIX_OK) or short_name in ("_render_with_ctx", "_render_from_block", "_defer_from_block", "_defer_with_ctx", "render", "defer", "blocks", "block", "wraps", "dispatch", "before", "after", "condition", "nbits", "nbytes", "parse", "parse_string", "parse_child", "p_import", "__init__", "type_name"):
                    continue
                if short_name.startswith(("p_", "t_")) or base.startswith(("Parser.", "Lexer.")):
                    continue  # reached through the ply edge of a child parser: bounded by the import-cycle check (C1)
                if base.startswith(("Scope.", "ScopeWithOptions.", "Message.", "Enum.", "Array.", "Alias.", "Node.", "Proto.", "Option.", "Constant.", "Uint.", "Int.", "MessageField.", "EnumField.", "BoundDefinition.", "OptionDescriptor_.", "_TokenBound.", "Base.", "Type.")) or base in ("cast_or_raise", "cache_if_frozen_condition", "write_stderr"):
                    continue  # AST methods on the recursive parse path (child parser) or size recursion over the acyclic type graph
                res.unsure(f"T1: untriaged recursion through {nme} in {label} (cycle of {len(comp)} units)")
    return res


def _sccs(graph: Dict[Any, List[Any]]) -> List[List[Any]]:
    index: Dict[Any, int] = {}
    low: Dict[Any, int] = {}
    on: Set[Any] = set()
    stack: List[Any] = []
    out: List[List[Any]] = []
    counter = [0]
    import sys

    sys.setrecursionlimit(10000)

    def strong(v: Any) -> None:
        index[v] = low[v] = counter[0]
        counter[0] += 1
        stack.append(v)
        on.add(v)
        for w in graph.get(v, []):
            if w not in graph:
                continue
            if w not in index:
                strong(w)
                low[v] = min(low[v], low[w])
            elif w in on:
                low[v] = min(low[v], index[w])
        if low[v] == index[v]:
            comp = []
            while True:
                w = stack.pop()
                on.discard(w)
                comp.append(w)
                if w == v:
                    break
            if len(comp) > 1 or v in graph.get(v, []):
                out.append(comp)

    for v in list(graph):
        if v not in index:
            strong(v)
    return out
