"""
E7 - interval reasoning over E6 polynomials with residue bounds
(mod8(x) in [0,7]) and symbolic bounds from min (c = min(a,b,..) => c <= each
argument, c >= the least lower bound).  A finite split of an abstract domain;
no concrete run of any analysed function.
"""

from __future__ import annotations

import math
from typing import Dict, List, Optional, Tuple

from .normal import Atom, C, Poly, show

INF = math.inf
Interval = Tuple[float, float]


class Facts:
    """Known intervals for specific polynomials (matched by normal form)."""

    def __init__(self) -> None:
        self.known: Dict[Tuple, Interval] = {}
        self.polys: Dict[Tuple, Poly] = {}
        self.text: List[str] = []

    def assume(self, p: Poly, lo: float, hi: float, why: str = "") -> None:
        k = p.key()
        old = self.known.get(k, (-INF, INF))
        self.known[k] = (max(old[0], lo), min(old[1], hi))
        self.polys[k] = p
        self.text.append(f"{show(p)} in [{lo}, {hi}]" + (f"  ({why})" if why else ""))

    def lookup(self, p: Poly) -> Optional[Interval]:
        return self.known.get(p.key())


def _mul(a: Interval, b: Interval) -> Interval:
    cands = []
    for x in a:
        for y in b:
            if (x in (INF, -INF) and y == 0) or (y in (INF, -INF) and x == 0):
                cands.append(0.0)
            else:
                cands.append(x * y)
    return (min(cands), max(cands))


def _add(a: Interval, b: Interval) -> Interval:
    return (a[0] + b[0], a[1] + b[1])


def atom_interval(a: Atom, facts: Facts) -> Interval:
    k = a[0]
    if k == "mod8":
        return (0, 7)
    if k == "trunc8":
        return (0, 255)
    if k == "min":
        ivs = [interval(x, facts) for x in a[1]]
        return (min(i[0] for i in ivs), min(i[1] for i in ivs))
    if k == "pow2":
        e = interval(a[1], facts)
        lo = 0.0 if e[0] == -INF else (2.0 ** e[0] if e[0] < 1024 else INF)
        hi = INF if e[1] == INF or e[1] >= 1024 else 2.0 ** e[1]
        return (lo, hi)
    if k == "div8":
        x = interval(a[1], facts)
        return (math.floor(x[0] / 8) if x[0] != -INF else -INF, math.floor(x[1] / 8) if x[1] != INF else INF)
    if k == "and":
        # x & m with a non-negative operand is within [0, that operand]
        ivs = [interval(x, facts) for x in a[1]]
        nonneg = [i for i in ivs if i[0] >= 0]
        if nonneg:
            return (0, min(i[1] for i in nonneg))
        return (-INF, INF)
    single = Poly.atom(a)
    f = facts.lookup(single)
    if f is not None:
        return f
    return (-INF, INF)


def _plain_interval(p: Poly, facts: Facts) -> Interval:
    f = facts.lookup(p)
    total: Interval = (0, 0)
    for m, c in p.terms.items():
        iv: Interval = (c, c)
        for a, e in m:
            ai = atom_interval(a, facts)
            for _ in range(e):
                iv = _mul(iv, ai)
        total = _add(total, iv)
    if f is not None:
        total = (max(total[0], f[0]), min(total[1], f[1]))
    return total


def interval(p: Poly, facts: Facts) -> Interval:
    """Bounds of p: interval arithmetic over its terms, tightened by writing
    p = r + sum(+-q_k) over up to three known facts q_k (a finite search over
    sign combinations; each candidate is again plain interval arithmetic)."""
    import itertools

    total = _plain_interval(p, facts)
    if p.const_value() is not None or not facts.polys:
        return total
    items = [(facts.polys[k_], facts.known[k_]) for k_ in facts.polys]
    items = [(q, iv) for q, iv in items if q.const_value() is None][:8]
    for size in (1, 2, 3):
        for combo in itertools.combinations(range(len(items)), size):
            for signs in itertools.product((1, -1), repeat=size):
                r = p
                lo_sum, hi_sum = 0.0, 0.0
                for idx, sg in zip(combo, signs):
                    q, iv = items[idx]
                    r = r - q.scale(sg)
                    if sg > 0:
                        lo_sum, hi_sum = lo_sum + iv[0], hi_sum + iv[1]
                    else:
                        lo_sum, hi_sum = lo_sum - iv[1], hi_sum - iv[0]
                # only worthwhile when the facts cancel something
                if len(r.terms) >= len(p.terms) + size - 1 and size > 1:
                    continue
                ri = _plain_interval(r, facts)
                total = (max(total[0], ri[0] + lo_sum), min(total[1], ri[1] + hi_sum))
    return total


def _min_atoms(p: Poly) -> List[Tuple[Atom, int]]:
    out = []
    for m, c in p.terms.items():
        if len(m) == 1 and m[0][1] == 1 and m[0][0][0] == "min":
            out.append((m[0][0], c))
    return out


def _replace_atom(p: Poly, atom: Atom, by: Poly) -> Poly:
    out = C(0)
    for m, c in p.terms.items():
        if len(m) == 1 and m[0][1] == 1 and m[0][0] == atom:
            out = out + by.scale(c)
        else:
            out = out + Poly({m: c})
    return out


def prove_le(lhs: Poly, rhs: Poly, facts: Facts, depth: int = 0) -> Tuple[bool, str]:
    """lhs <= rhs on every abstract state satisfying facts."""
    d = lhs - rhs
    hi = interval(d, facts)[1]
    if hi <= 0:
        return True, f"{show(d)} <= {hi}"
    if depth < 3:
        for atom, coeff in _min_atoms(d):
            args = list(atom[1])
            if coeff > 0:
                # min(...) <= each argument: one argument suffices
                for a in args:
                    ok, why = prove_le(_replace_atom(d, atom, a), C(0), facts, depth + 1)
                    if ok:
                        return True, f"min <= {show(a)}; {why}"
            else:
                # -min(...) : need every argument
                oks = [prove_le(_replace_atom(d, atom, a), C(0), facts, depth + 1) for a in args]
                if all(o for o, _ in oks):
                    return True, "for each argument of min: " + "; ".join(w for _, w in oks)
    return False, f"upper bound of {show(d)} is {hi}"


def prove_ge(lhs: Poly, rhs: Poly, facts: Facts) -> Tuple[bool, str]:
    return prove_le(rhs, lhs, facts)
