"""Constructors of the path engine for the three runtimes and the compiler."""

from __future__ import annotations

import ast
from typing import Any, Callable, Dict, List, Optional, Sequence, Tuple

from .cmodel import get_c
from .core import Inconclusive, Repo
from .gomodel import get_go
from .node2py import Conv
from .pyflow import PyFlow, class_methods, dataclass_fields, module_funcs
from .pymodel import get_model


class Lang:
    """One runtime, lowered to Python ast: functions by name, methods by
    (type, name), constructor field orders."""

    def __init__(self, lang: str, rel: str) -> None:
        self.lang = lang
        self.rel = rel
        self.funcs: Dict[str, ast.FunctionDef] = {}
        self.methods: Dict[str, Dict[str, ast.FunctionDef]] = {}
        self.classes: Dict[str, List[str]] = {}
        self.notes: List[str] = []
        self.consts: Dict[str, ast.AST] = {}  # package / module level constants
        self.super_targets: Dict[str, Dict[int, ast.FunctionDef]] = {}  # class -> id(super().m() call) -> implementation

    def func(self, key: str) -> ast.FunctionDef:
        if "." in key:
            c, m = key.split(".", 1)
            f = self.methods.get(c, {}).get(m)
        else:
            f = self.funcs.get(key)
        if f is None:
            raise Inconclusive(f"{self.lang}: anchor function vanished: {key}")
        return f

    def has(self, key: str) -> bool:
        try:
            self.func(key)
            return True
        except Inconclusive:
            return False

    def flow(self, cls: Optional[str] = None, primitives: Sequence[str] = (), self_names: Optional[Sequence[str]] = None, **kw: Any) -> PyFlow:
        methods = self.methods.get(cls, {}) if cls else {}
        if self_names is None:
            self_names = ("self", "cls", "Self")
            if cls and methods:
                firsts = {m.args.args[0].arg for m in methods.values() if m.args.args}
                self_names = tuple(sorted(firsts | set(self_names)))
        if self.consts:
            kw.setdefault("consts", self.consts)
        if cls and cls in self.super_targets:
            kw.setdefault("super_targets", self.super_targets[cls])
        return PyFlow(funcs=self.funcs, methods=methods, classes=self.classes, primitives=primitives, self_names=self_names, **kw)


def py_runtime(repo: Repo) -> Lang:
    def build() -> Lang:
        rel = "lib/py/bitprotolib/bp.py"
        tree = ast.parse(repo.src(rel))
        from .core import link_parents

        link_parents(tree)
        L = Lang("py", rel)
        L.funcs = module_funcs(tree)
        L.classes = dataclass_fields(tree)
        seen: Dict[str, int] = {}
        own: Dict[str, Dict[str, ast.FunctionDef]] = {n.name: class_methods(n) for n in tree.body if isinstance(n, ast.ClassDef)}
        bases: Dict[str, List[str]] = {n.name: [b.id for b in n.bases if isinstance(b, ast.Name) and b.id in own] for n in tree.body if isinstance(n, ast.ClassDef)}

        def mro_of(c: str, seen_: Tuple[str, ...] = ()) -> List[str]:
            out_ = [c]
            for b in bases.get(c, []):
                if b not in seen_:
                    for x in mro_of(b, seen_ + (c,)):
                        if x not in out_:
                            out_.append(x)
            return out_

        for cname in own:
            chain = mro_of(cname)
            merged: Dict[str, ast.FunctionDef] = {}
            for k in chain:
                for mn, fn_ in own[k].items():
                    merged.setdefault(mn, fn_)
            L.methods[cname] = merged
            # super().m(...) inside a method of class k (k in the chain) reaches the next definition after k
            for i_, k in enumerate(chain):
                for fn_ in own[k].values():
                    for c_ in ast.walk(fn_):
                        if isinstance(c_, ast.Call) and isinstance(c_.func, ast.Attribute) and isinstance(c_.func.value, ast.Call) and isinstance(c_.func.value.func, ast.Name) and c_.func.value.func.id == "super":
                            for k2 in chain[i_ + 1 :]:
                                if c_.func.attr in own[k2]:
                                    L.super_targets.setdefault(cname, {})[id(c_)] = own[k2][c_.func.attr]
                                    break
        for n in tree.body:
            if isinstance(n, ast.ClassDef):
                pass
            tg = None
            if isinstance(n, ast.Assign) and len(n.targets) == 1 and isinstance(n.targets[0], ast.Name):
                tg, val = n.targets[0].id, n.value
            elif isinstance(n, ast.AnnAssign) and isinstance(n.target, ast.Name) and n.value is not None:
                tg, val = n.target.id, n.value
            if tg is not None:
                seen[tg] = seen.get(tg, 0) + 1
                if isinstance(val, ast.Constant) and isinstance(val.value, (int, str, bool)):
                    L.consts[tg] = val
        for k_, c_ in seen.items():
            if c_ > 1:
                L.consts.pop(k_, None)
        return L

    return repo.memo("flows:py", build)


def go_runtime(repo: Repo) -> Lang:
    def build() -> Lang:
        g = get_go(repo)
        L = Lang("go", g.rel)
        conv = Conv("go")
        for key, fn in g.funcs.items():
            if fn.get("body") is None:
                continue
            if "." in key:
                c, m = key.split(".", 1)
                L.methods.setdefault(c, {})[m] = conv.func(fn, m)
            else:
                L.funcs[key] = conv.func(fn)
        for name, t in g.types.items():
            ty = t.type
            if ty is not None and ty.k == "struct":
                L.classes[name] = [f.name for f in ty.fields if f.get("name")]
        for d in g.tree.decls:
            if d.k == "const" and len(d.vals) == len(d.names):
                for nm, v in zip(d.names, d.vals):
                    try:
                        L.consts[nm] = conv.expr(v)
                    except Exception:
                        pass
        L.notes = conv.notes
        return L

    return repo.memo("flows:go", build)


def c_runtime(repo: Repo, big_endian: bool = False) -> Lang:
    def build() -> Lang:
        c = get_c(repo, big_endian)
        L = Lang("c-be" if big_endian else "c", "lib/c/bitproto.c")
        conv = Conv("c")
        for key, fn in c.funcs.items():
            L.funcs[key] = conv.func(fn)
        for name, fields in c.structs.items():
            L.classes[name] = [f for f, _ in fields]
            L.classes["struct " + name] = [f for f, _ in fields]
        return L

    return repo.memo("flows:c:be" if big_endian else "flows:c:le", build)


def value_kind_decider(kind: str, subject: str = "value") -> Callable[[Any], Optional[bool]]:
    """Decides the literals of a dispatch on the Python kind of a schema value
    (`true` / `false` / `int` / `str`): isinstance tests (bool is an int),
    identity tests against True / False, truthiness is left open."""
    from .normal import show

    def dec(key: Any) -> Optional[bool]:
        if key[0] == "isinstance" and show(key[1]) == subject:
            names = set(key[2])
            if kind in ("true", "false"):
                return bool(names & {"bool", "int"})
            return kind in names
        if key[0] in ("isbool", "eqbool") and subject in (show(key[1]), show(key[2])):
            other = key[1] if show(key[2]) == subject else key[2]
            cv = other.const_value()
            if cv is None:
                return None
            if kind in ("true", "false"):
                return bool(cv) == (kind == "true")
            if kind == "str":
                return False
            return False if key[0] == "isbool" else None  # an int may == True
        return None

    return dec


def compiler_flow(repo: Repo, cls_name: str, rel_hint: Optional[str] = None, inline: Optional[Callable[[str, ast.FunctionDef], bool]] = None, module_funcs: bool = False, **kw: Any) -> PyFlow:
    """Path engine for methods of a compiler class: methods are resolved
    through the MRO of that (concrete) class, abstract hooks are never inlined,
    class-level and module-level literal constants are visible."""
    from .core import src_of

    m = get_model(repo)
    c = m.cls(cls_name, rel_hint)
    methods: Dict[str, ast.FunctionDef] = {}
    consts: Dict[str, ast.AST] = {}
    funcs: Dict[str, ast.FunctionDef] = {}
    for k in m.mro(c):
        for name, fi in k.methods.items():
            methods.setdefault(name, fi.node)
        is_dc = any("dataclass" in d for d in k.deco_names())
        for name, v in k.attrs_val.items():
            if is_dc and name in k.attrs_ann and "ClassVar" not in ast.unparse(k.attrs_ann[name]):
                continue  # a dataclass field default is per-instance state, not a constant
            consts.setdefault(name, v)
        mod = m.mods.get(k.rel)
        if mod is not None:
            for name, v in mod.assigns.items():
                consts.setdefault(name, v)
            for name, fi in mod.funcs.items():
                funcs.setdefault(name, fi.node)

    # class attributes that some method assigns through self are state, not constants
    for k in m.mro(c):
        for fi in k.methods.values():
            for n in ast.walk(fi.node):
                if isinstance(n, ast.Attribute) and isinstance(n.ctx, ast.Store) and isinstance(n.value, ast.Name) and n.value.id in ("self", "cls"):
                    consts.pop(n.attr, None)

    # the same constants spelled through the class name (Enum members: CaseStyle.SNAKE)
    for k in m.mro(c):
        for name in list(k.attrs_val):
            if name in consts and consts[name] is k.attrs_val[name]:
                consts.setdefault(f"{k.name}.{name}", consts[name])

    def default_inline(name: str, fn: ast.FunctionDef) -> bool:
        return "raise NotImplementedError" not in src_of(fn)

    def flt(name: str, fn: ast.FunctionDef) -> bool:
        if "raise NotImplementedError" in src_of(fn) and len(fn.body) <= 2:
            return False
        return inline(name, fn) if inline is not None else True

    kw.setdefault("funcs", funcs if module_funcs else {})
    from .pymodel import super_targets

    kw.setdefault("super_targets", super_targets(m, c))
    return PyFlow(methods=methods, consts=consts, inline_filter=flt, **kw)
