"""
Family C - writer / reader / specification tables (Python side).
C1 constraint table, C5 naming tables, C7 lint table, C9 option accessors,
A7 cache discipline (it guards C1's duplicate checks).
"""

from __future__ import annotations

import ast
import re
import math
from typing import Any, Dict, List, Optional, Set, Tuple

from .core import Finding, Inconclusive, Repo, RuleResult, enclosing, parent, qualname, rule, short, src_of
from .guards import _const_int, _split, facts_at
from .normal import show as show_poly
from .pymodel import ClassInfo, FuncInfo, Inst, Model, Typer, get_model

AST = "compiler/bitproto/_ast.py"
INF = math.inf


# --------------------------------------------------------------------------
# interval extraction from guards
# --------------------------------------------------------------------------


def _nnf(e: ast.AST, neg: bool) -> Any:
    """Negation normal form: ('and'|'or', [..]) | ('atom', cmp-node, negated)."""
    if isinstance(e, ast.UnaryOp) and isinstance(e.op, ast.Not):
        return _nnf(e.operand, not neg)
    if isinstance(e, ast.BoolOp):
        op = "and" if isinstance(e.op, ast.And) else "or"
        if neg:
            op = "or" if op == "and" else "and"
        return (op, [_nnf(v, neg) for v in e.values])
    if isinstance(e, ast.Compare) and len(e.ops) > 1:
        # a < x <= b  ==  a < x and x <= b
        parts = []
        left = e.left
        for op, right in zip(e.ops, e.comparators):
            parts.append(ast.Compare(left=left, ops=[op], comparators=[right]))
            left = right
        return _nnf(ast.BoolOp(op=ast.And(), values=parts), neg)
    return ("atom", e, neg)


_FLIP = {ast.Lt: ast.Gt, ast.Gt: ast.Lt, ast.LtE: ast.GtE, ast.GtE: ast.LtE, ast.Eq: ast.Eq, ast.NotEq: ast.NotEq}
_NEG = {ast.Lt: ast.GtE, ast.GtE: ast.Lt, ast.Gt: ast.LtE, ast.LtE: ast.Gt, ast.Eq: ast.NotEq, ast.NotEq: ast.Eq}


def _atom_bound(cmp: ast.AST, negated: bool, var: str) -> Optional[Tuple[float, float]]:
    """Interval of integer values of `var` satisfying the (possibly negated)
    comparison, or None when the atom is not `var <op> const`."""
    if not (isinstance(cmp, ast.Compare) and len(cmp.ops) == 1):
        return None
    l, op, r = cmp.left, type(cmp.ops[0]), cmp.comparators[0]
    if src_of(r) == var and _const_int(l) is not None:
        l, r, op = r, l, _FLIP.get(op)
    if op is None or src_of(l) != var:
        return None
    k = _const_int(r)
    if k is None:
        return None
    if negated:
        op = _NEG.get(op)
    if op is ast.Lt:
        return (-INF, k - 1)
    if op is ast.LtE:
        return (-INF, k)
    if op is ast.Gt:
        return (k + 1, INF)
    if op is ast.GtE:
        return (k, INF)
    if op is ast.Eq:
        return (k, k)
    return None


def accept_interval(raise_node: ast.AST, fn: ast.AST, var: str) -> Optional[Tuple[float, float]]:
    """Integer interval of `var` for which the raise at raise_node is NOT
    reached, considering only the guards that mention var.  None if the guard
    shape is outside (conjunction-of-bounds accepted / disjunction rejected)."""
    facts = [(t, truth) for t, truth in facts_at(raise_node, fn, skip_raise_siblings=True) if var in src_of(t)]
    if not facts:
        return None
    # raise condition = AND of facts; accepted = OR of negated facts; we need
    # a single fact whose negation is a conjunction of bounds, or several
    # facts each a single bound (then accepted is a union - not an interval).
    if len(facts) != 1:
        return None
    t, truth = facts[0]
    acc = _nnf(t, truth)  # accepted = not(raise) ; raise = (t == truth)
    atoms: List[Tuple[ast.AST, bool]] = []

    def flat(n: Any) -> bool:
        if n[0] == "atom":
            atoms.append((n[1], n[2]))
            return True
        if n[0] == "and":
            return all(flat(x) for x in n[1])
        return False

    if not flat(acc):
        return None
    lo, hi = -INF, INF
    for a, neg in atoms:
        b = _atom_bound(a, neg, var)
        if b is None:
            return None
        lo, hi = max(lo, b[0]), min(hi, b[1])
    return (lo, hi)


def _raises_of(fn: ast.AST, cls: str) -> List[ast.Raise]:
    out = []
    for n in ast.walk(fn):
        if isinstance(n, ast.Raise) and n.exc is not None:
            c = n.exc.func if isinstance(n.exc, ast.Call) else n.exc
            name = c.id if isinstance(c, ast.Name) else (c.value.id if isinstance(c, ast.Attribute) and isinstance(c.value, ast.Name) else None)
            if name == cls:
                out.append(n)
    return out


# (error class, file suffix, owner qualname, variable, accepted interval, failing example)
INTERVAL_CATALOGUE = [
    ("InvalidUintCap", "_ast.py", "Uint.validate_post_freeze", "self.cap", (1, 64), "uint0 / uint65"),
    ("InvalidIntCap", "_ast.py", "Int.validate_post_freeze", "self.cap", (1, 64), "int0 / int65"),
    ("InvalidArrayCap", "_ast.py", "Array.validate_array_cap", "self.cap", (1, 65535), "byte[0] / byte[65536]"),
    ("InvalidMessageFieldNumber", "_ast.py", "MessageField.validate_post_freeze", "self.number", (1, 255), "uint8 a = 0 / uint8 a = 256"),
    ("InvalidEnumFieldValue", "_ast.py", "EnumField.validate_post_freeze", "self.value", (0, INF), "(negative enum value)"),
    ("MessageSizeOverflows", "_ast.py", "Message.validate_post_freeze", "self.nbits()", (-INF, 65535), "a message of 65536 bits"),
]

# every ParserError subclass raised anywhere maps to one catalogue entry
ERROR_CATALOGUE = {
    "InvalidUintCap": "integer widths 1..64",
    "InvalidIntCap": "integer widths 1..64",
    "InvalidArrayCap": "array capacities 1..65535 (and integer-constant capacities)",
    "InvalidMessageFieldNumber": "field numbers 1..255",
    "InvalidEnumFieldValue": "enum values >= 0",
    "EnumFieldValueOverflow": "enum values representable in the enum's width",
    "DuplicatedEnumFieldValue": "enum values unique",
    "DuplicatedMessageFieldNumber": "field numbers unique per message",
    "DuplicatedDefinition": "names unique per scope",
    "DuplicatedImport": "imports not duplicated",
    "CyclicImport": "imports not cyclic",
    "MessageSizeOverflows": "message <= 65535 bits and <= max_bytes",
    "UnsupportedArrayType": "arrays are one-dimensional over supported element types",
    "InvalidAliasedType": "aliases name only unnamed types",
    "UnsupportedOption": "options are known",
    "InvalidOptionValue": "options are well-typed",
    "ReferencedConstantNotDefined": "referenced constant declared earlier",
    "ReferencedNotConstant": "referenced definition is of the right kind",
    "ReferencedTypeNotDefined": "referenced type declared earlier",
    "ReferencedNotType": "referenced definition is of the right kind",
    "CalculationExpressionError": "constant expressions over integer constants",
    "AliasInMessageUnsupported": "nothing declared in a scope that forbids it",
    "ConstInMessageUnsupported": "nothing declared in a scope that forbids it",
    "ImportInMessageUnsupported": "nothing declared in a scope that forbids it",
    "StatementInMessageUnsupported": "nothing declared in a scope that forbids it",
    "AliasInEnumUnsupported": "nothing declared in a scope that forbids it",
    "ConstInEnumUnsupported": "nothing declared in a scope that forbids it",
    "ImportInEnumUnsupported": "nothing declared in a scope that forbids it",
    "OptionInEnumUnsupported": "nothing declared in a scope that forbids it",
    "EnumInEnumUnsupported": "nothing declared in a scope that forbids it",
    "MessageInEnumUnsupported": "nothing declared in a scope that forbids it",
    "MessageFieldInEnumUnsupported": "nothing declared in a scope that forbids it",
    "UnsupportedToDeclareProtoNameOutofProtoScope": "nothing declared in a scope that forbids it",
    "ProtoNameUndefined": "a file declares its proto name",
    "ExtensibleGrammarFoundInTraditionalMode": "-O refuses extensible markers (C17)",
    "InvalidEscapingChar": "lexical: supported string escapes",
    "LexerError": "lexical: invalid token",
    "GrammarError": "syntax error",
}


@rule("C1", "every documented constraint has a correctly bounded check, and every parser-error raise belongs to a documented constraint")
def c1(repo: Repo) -> RuleResult:
    res = RuleResult("C1", floor=25)
    m = get_model(repo)

    # ---- interval entries: the validator hook is summarised (class helpers inlined) and folded over
    #      boundary values of the constrained quantity; it must raise exactly outside the documented range
    from .flows import compiler_flow
    from .fold import by_name, lit_value
    from .normal import show as _show
    from .pyflow import _atoms_of

    def hook_paths(cname: str, meth: str) -> Tuple[Any, List[Any]]:
        c_ = m.cls(cname, "_ast.py")
        f_ = m.lookup(c_, meth)
        if f_ is None:
            raise Inconclusive(f"{cname}.{meth} vanished")
        prim = ("nbits", "nbytes", "get_option_as_int_or_raise", "is_frozen", "ahead_nbits", "fields", "sorted_fields")
        fl_ = compiler_flow(repo, cname, "_ast.py", module_funcs=True, primitives=prim, pure=prim + ("from_token",))
        return f_, fl_.run(f_.node)

    def outcome(paths: List[Any], repl: Any, exc: str, relevant: Tuple[str, ...]) -> Tuple[Optional[bool], Optional[str]]:
        """(raises exc?, undecided literal) at one point of the grid"""
        raising = returning = False
        undecided = None
        for p_ in paths:
            vals = [lit_value(k_, t_, repl) for k_, t_ in p_.guards]
            if any(v is False for v in vals):
                continue
            for (k_, t_), v in zip(p_.guards, vals):
                if v is None and any(any(r_ in _show(x) for r_ in relevant) for x in k_[1:] if hasattr(x, "terms")):
                    undecided = " and ".join(p_.guard_text())
            rz = [e for e in p_.effects if e.kind == "raise"]
            if p_.done == "raise" and rz and exc in rz[-1].name:
                raising = True
            elif p_.done == "raise":
                pass  # another constraint's error
            else:
                returning = True
        if undecided:
            return None, undecided
        if raising and not returning:
            return True, None
        if returning and not raising:
            return False, None
        return None, "both outcomes feasible" if raising else "no feasible path"

    def point(var: str, v: int) -> Any:
        calls = {"get_option_as_int_or_raise": 0}
        vals = {"self._is_missing": 0}
        if var.endswith("()"):
            nm = var[:-2]  # receiver-qualified: only the node's own size is fixed, not its children's
            calls[nm] = v
            if nm.endswith(".nbits"):
                calls[nm[: -len("nbits")] + "nbytes"] = (v + 7) // 8
        else:
            vals[var] = v
        return by_name(vals, calls)

    def const_methods(cname: str) -> Dict[str, int]:
        """zero-argument methods of the class that return one constant (ahead_nbits() == 16)"""
        out_: Dict[str, int] = {}
        try:
            c0 = m.cls(cname, "_ast.py")
            for nm_ in ("ahead_nbits",):
                f0 = m.lookup(c0, nm_)
                if f0 is None or len(f0.node.args.args) != 1:
                    continue
                vals_ = {n_.value.value for n_ in ast.walk(f0.node) if isinstance(n_, ast.Return) and isinstance(n_.value, ast.Constant) and isinstance(n_.value.value, int)}
                rets_ = [n_ for n_ in ast.walk(f0.node) if isinstance(n_, ast.Return)]
                if len(vals_) == 1 and len(rets_) == 1:
                    out_[nm_] = vals_.pop()
        except Inconclusive:
            pass
        return out_

    for cls, rel, qual, var, want, example in INTERVAL_CATALOGUE:
        cname, meth = qual.split(".")
        try:
            fi, paths = hook_paths(cname, meth)
        except Inconclusive as e:
            res.unsure(f"C1: {e}")
            continue
        _cm = const_methods(cname)
        _point0 = point

        def point(var_: str, v_: int, _cm: Dict[str, int] = _cm, _p0: Any = _point0) -> Any:  # type: ignore[no-redef]
            base_ = _p0(var_, v_)

            def repl(a_: Any) -> Any:
                if a_[0] == "mcall" and a_[1] in _cm and len(a_[2]) == 1:
                    from .normal import C as _Ck

                    return _Ck(_cm[a_[1]])
                return base_(a_)

            return repl
        if not any(e.kind == "raise" and cls in e.name for p_ in paths for e in p_.effects):
            res.bad(Finding("C1", fi.rel, fi.node.lineno, qual, "", f"{cls} is no longer raised here: the constraint `{ERROR_CATALOGUE[cls]}` is not enforced", witness=example, tag=f"{cls}:missing"))
            continue
        lo, hi = want
        grid = sorted({x for b_ in (lo, hi) if b_ not in (INF, -INF) for x in (int(b_) - 2, int(b_) - 1, int(b_), int(b_) + 1, int(b_) + 2)} | {-1, 0, 1, 10 ** 6})
        wrong: List[str] = []
        undec = None
        for v in grid:
            r_, u_ = outcome(paths, point(var, v), cls, (var.replace("()", ""), "nbits", "nbytes", "cap", "number", "value"))
            if r_ is None:
                undec = u_
                break
            inside = lo <= v <= hi
            if r_ == inside:
                wrong.append(f"{var} = {v} is {'rejected' if r_ else 'accepted'}")
        res.inst(part="interval", error=cls, where=qual, documented=str(want), grid=len(grid), wrong=wrong[:3], undecided=undec)
        if undec is not None:
            # is the bound applied to another quantity?
            names = set()
            for p_ in paths:
                if p_.done == "raise" and any(cls in e.name for e in p_.effects if e.kind == "raise"):
                    for k_, _t in p_.guards:
                        for x in k_[1:]:
                            if hasattr(x, "terms"):
                                names |= {(a_[1] if a_[0] == "var" else a_[1] + "()") for a_ in _atoms_of(x) if a_[0] in ("var", "mcall", "call")}
            exact = False
            compared = []
            for p_ in paths:
                if p_.done == "raise" and any(cls in e.name for e in p_.effects if e.kind == "raise"):
                    for k_, _t in p_.guards:
                        if k_[0] == "cmp":
                            txt_ = _show(k_[2])
                            compared.append(txt_)
                            if var in txt_.replace("self.nbits()", "self.nbits()") and (var if not var.endswith("()") else var) in txt_:
                                # the quantity itself (not a child's size) takes part in the comparison
                                import re as _re

                                if _re.search(r"(?<![\w.$])" + _re.escape(var), txt_):
                                    exact = True
            if compared and not exact:
                other = compared[-1]
                res.bad(Finding("C1", fi.rel, fi.node.lineno, qual, undec, f"the documented limit on `{var}` is applied to `{other}` instead", witness=example + " (e.g. an extensible message whose fields alone fit but whose 16-bit prefix pushes it over the limit)", tag=f"{cls}:quantity"))
            else:
                res.unsure(f"C1: {qual}: `raise {cls}` is not decided by {var} alone ({undec})")
            continue
        if wrong:
            res.bad(Finding("C1", fi.rel, fi.node.lineno, qual, "; ".join(wrong[:4]), f"accepted range of {var} differs from the documented {_fmt(want)}: {'; '.join(wrong[:4])}", witness="; ".join(wrong[:2]) or example, tag=f"{cls}:interval"))

    # ---- Uint/Int validators skip only the _is_missing sentinel
    for cname, cls in (("Uint", "InvalidUintCap"), ("Int", "InvalidIntCap")):
        qual = f"{cname}.validate_post_freeze"
        try:
            fi, paths = hook_paths(cname, "validate_post_freeze")
        except Inconclusive as e:
            res.unsure(f"C1: {e}")
            continue
        skipped = []
        for v in (0, 65):
            r_, u_ = outcome(paths, by_name({"self.cap": v, "self._is_missing": 1}), cls, ("cap",))
            skipped.append(r_)
        res.inst(part="interval", where=qual, missing_sentinel_skips=skipped)
        other_lits = sorted({_show(k_[1]) for p_ in paths for k_, _t in p_.guards if k_[0] == "truthy" and _show(k_[1]) not in ("self._is_missing",)})
        # a condition that is a call the engine did not see through says nothing about the schema: inconclusive
        opaque_lits = [t_ for t_ in other_lits if "(" in t_ and not t_.startswith("self.")]
        if other_lits and opaque_lits:
            res.unsure(f"C1: {qual}: condition(s) {opaque_lits} of the width check not understood")
        elif other_lits:
            res.bad(Finding("C1", fi.rel, fi.node.lineno, qual, str(other_lits), "the width check is skipped under a condition other than the internal missing-type sentinel", tag=f"{qual}:skip"))

    # ---- max_bytes: raise iff max_bytes > 0 and nbytes() > max_bytes
    try:
        fi, paths = hook_paths("Message", "validate_post_freeze")
        wrong = []
        undec = None
        for M in (0, 1, 4):
            for nb in (0, 1, 3, 4, 5, 9):
                r_, u_ = outcome(paths, by_name({}, {"get_option_as_int_or_raise": M, "nbytes": nb, "nbits": nb * 8}), "MessageSizeOverflows", ("nbytes", "nbits", "get_option"))
                if r_ is None:
                    undec = u_
                    break
                if r_ != (M > 0 and nb > M):
                    wrong.append(f"max_bytes = {M}, {nb} bytes: {'rejected' if r_ else 'accepted'}")
            if undec:
                break
        opt_args = {_show(a_[2][1]) for p_ in paths for k_, _t in p_.guards for x in k_[1:] if hasattr(x, "terms") for a_ in _atoms_of(x) if a_[0] == "mcall" and a_[1] == "get_option_as_int_or_raise" and len(a_[2]) > 1}
        res.inst(part="max_bytes", wrong=wrong[:3], undecided=undec, option=sorted(opt_args))
        if undec:
            res.unsure(f"C1: Message.validate_post_freeze: max_bytes enforcement not decided by (max_bytes, nbytes): {undec}")
        elif wrong:
            res.bad(Finding("C1", fi.rel, fi.node.lineno, "Message.validate_post_freeze", "; ".join(wrong[:4]), "max_bytes is not enforced as `max_bytes > 0 and nbytes() > max_bytes`: " + "; ".join(wrong[:3]), witness="option max_bytes = 4 with a 4-byte / 5-byte message", tag="max_bytes:form"))
        if opt_args != {"'max_bytes'"}:
            if not opt_args:
                res.bad(Finding("C1", fi.rel, fi.node.lineno, "Message.validate_post_freeze", "", "the max_bytes option is not enforced (no limit read from the message's options)", witness="message M { option max_bytes = 1; uint32 a = 1 }", tag="max_bytes:missing"))
            else:
                res.bad(Finding("C1", fi.rel, fi.node.lineno, "Message.validate_post_freeze", str(sorted(opt_args)), "max_bytes is not read from this message's max_bytes option", tag="max_bytes:source"))
    except Inconclusive as e:
        res.unsure(f"C1: {e}")

    # ---- enum value overflow / duplicates / duplicate field numbers
    def membership(qual: str, cls: str, spec: Any, test_text: str, example: str) -> None:
        """`cls` is raised on exactly the paths of the validator on which `spec` holds.  spec(path)
        -> True / False / None (the path does not decide it, e.g. an earlier error ended it)."""
        cname, meth = qual.split(".")
        try:
            c_ = m.cls(cname, "_ast.py")
            f_ = m.lookup(c_, meth)
            if f_ is None:
                raise Inconclusive(f"{qual} vanished")
            prim = ("nbits", "nbytes", "is_frozen", "ahead_nbits", "fields", "sorted_fields", "value_to_names", "number_to_field", "element_type_constraints")
            fl_ = compiler_flow(repo, cname, "_ast.py", primitives=prim, pure=prim + ("from_token",))
            from .normal import V as _V1

            prm = [a_.arg for a_ in f_.node.args.args]
            env = {prm[0]: _V1("self")}
            if len(prm) > 1:
                env[prm[1]] = _V1("field")
            paths = fl_.run(f_.node, env)
        except Inconclusive as e:
            res.unsure(f"C1: {e}")
            return
        n_raise = 0
        wrong = None
        for p_ in paths:
            raised = p_.done == "raise" and any(e.kind == "raise" and e.name.split(".")[0] == cls for e in p_.effects)
            n_raise += int(raised)
            holds = spec(p_)
            if holds is None:
                if raised:
                    wrong = f"raised under {p_.guard_text()}, which does not decide `{test_text}`"
                continue
            if holds != raised:
                wrong = ("not raised" if holds else "raised") + f" under {p_.guard_text()}"
        res.inst(part="membership", error=cls, where=qual, raises=n_raise)
        if n_raise == 0:
            res.bad(Finding("C1", f_.rel, f_.node.lineno, qual, "", f"{cls} is no longer raised: `{ERROR_CATALOGUE[cls]}` is not enforced", witness=example, tag=f"{cls}:missing"))
        elif wrong:
            res.bad(Finding("C1", f_.rel, f_.node.lineno, qual, wrong, f"{cls} is not raised exactly under `{test_text}`: {wrong}", witness=example, tag=f"{cls}:form"))

    def lit_of(kind: str, a_: str, b_: Any) -> Any:
        def spec(p_: Any) -> Optional[bool]:
            for k_, t_ in p_.guards:
                if k_[0] == kind and kind == "contains" and _show(k_[1]) == a_ and _show(k_[2]) == b_:
                    return t_
                if k_[0] == kind and kind == "isinstance" and _show(k_[1]) == a_ and tuple(k_[2]) == tuple(b_):
                    return t_
            return None

        return spec

    def overflow_spec(p_: Any) -> Optional[bool]:
        # folded over (value, width): the member does not fit iff value.bit_length() > nbits
        verdicts = set()
        for v_ in (0, 1, 2, 3, 4, 7, 8, 255, 256):
            for n_ in (1, 2, 3, 8):
                repl = by_name({"field.value": v_}, {"field.value.bit_length": v_.bit_length(), "bit_length": v_.bit_length(), "self.nbits": n_, "nbits": n_, "self.type.nbits": n_})
                own = [(k_, t_) for k_, t_ in p_.guards if k_[0] == "cmp"]
                vals = [lit_value(k_, t_, repl) for k_, t_ in own]
                if any(x is None for x in vals):
                    return None
                feasible_here = all(vals)
                if not own:
                    return None
                verdicts.add((feasible_here, v_.bit_length() > n_))
        # the path is the overflow path iff it is feasible exactly at the overflowing grid points
        if all(f_ == o_ for f_, o_ in verdicts):
            return True
        if all((not f_) or (not o_) for f_, o_ in verdicts):
            return False
        return None

    membership("Enum.validate_enum_field_on_push", "EnumFieldValueOverflow", overflow_spec, "field.value.bit_length() > self.nbits()", "enum E : uint2 { A = 4 }  (and A = 3 must pass)")
    membership("Enum.validate_enum_field_on_push", "DuplicatedEnumFieldValue", lit_of("contains", "self.value_to_names()", "field.value"), "field.value in self.value_to_names()", "enum E : uint2 { A = 1; B = 1 }")
    membership("Message.validate_message_field_on_push", "DuplicatedMessageFieldNumber", lit_of("contains", "self.number_to_field()", "field.number"), "field.number in self.number_to_field()", "message M { bool a = 1; bool b = 1 }")
    membership("Array.validate_array_element_type", "UnsupportedArrayType", (lambda p_: (lambda v: None if v is None else not v)(lit_of("isinstance", "self.element_type", ("self.element_type_constraints()",))(p_))), "not isinstance(self.element_type, self.element_type_constraints())", "type A = byte[2]; message M { A[2] x = 1 }")
    membership("Alias.validate_type", "InvalidAliasedType", lit_of("isinstance", "self.type", ("Definition",)), "isinstance(self.type, Definition)", "message M {} type A = M")

    # validators are actually dispatched from the on-push hooks
    for qual, test, callee in (
        ("Enum.validate_member_on_push", "isinstance(member, EnumField)", "self.validate_enum_field_on_push(member)"),
        ("Message.validate_member_on_push", "isinstance(member, MessageField)", "self.validate_message_field_on_push(member)"),
        ("ScopeWithOptions.validate_member_on_push", "isinstance(member, Option)", "self.validate_option_on_push("),
    ):
        fi2 = m.func("_ast.py", qual)
        calls = [n for n in ast.walk(fi2.node) if isinstance(n, ast.Call) and src_of(n).startswith(callee.rstrip(")").rstrip("(")) ]
        res.inst(part="dispatch", where=qual, calls=len(calls))
        ok = False
        for c in calls:
            conds = {("" if truth else "not ") + src_of(t) for t, truth in facts_at(c, fi2.node)}
            if conds == {test}:
                ok = True
        if not ok:
            res.bad(Finding("C1", fi2.rel, fi2.node.lineno, qual, "", f"`{callee}` is not called exactly under `{test}`", tag=f"{qual}:dispatch"))

    # element_type_constraints excludes Array (one-dimensional arrays)
    arr = m.cls("Array", "_ast.py")
    etc = m.lookup(arr, "element_type_constraints")
    names = [e.id for n in ast.walk(etc.node) if isinstance(n, ast.Return) and isinstance(n.value, ast.Tuple) for e in n.value.elts if isinstance(e, ast.Name)] if etc else []
    res.inst(part="membership", where="Array.element_type_constraints", classes=names)
    if "Array" in names or "Type" in names or "CompositeType" in names:
        res.bad(Finding("C1", AST, etc.node.lineno if etc else 0, "Array.element_type_constraints", str(names), "arrays of arrays are admitted", witness="message M { byte[2][2] x = 1 } via an alias", tag="element_type_constraints"))
    if set(names) != {"Bool", "Byte", "Int", "Uint", "Enum", "Message", "Alias"}:
        # any superclass-equivalent set is fine as long as it denotes the same concrete classes
        from .rules_a import type_domains

        doms = type_domains(repo)
        if {c.name for c in doms["ElemType"]} != {"Bool", "Byte", "Int", "Uint", "Enum", "Message", "Alias"}:
            res.bad(Finding("C1", AST, etc.node.lineno if etc else 0, "Array.element_type_constraints", str(names), "the admitted element kinds differ from the documented bool/byte/int/uint/enum/message/alias", tag="element_type_constraints:set"))

    # options: unknown / wrong type / validator - from the paths of the push validator (helpers inlined)
    fi = m.func("_ast.py", "ScopeWithOptions.validate_option_on_push")
    res.inst(part="options", where=fi.qual)
    try:
        po = fi.node.args.args[1].arg
        fl_ = compiler_flow(repo, "ScopeWithOptions", "_ast.py", primitives=("get_option_descriptor",), pure=("get_option_descriptor", "from_token"))
        from .normal import V as _V

        paths = fl_.run(fi.node, {fi.node.args.args[0].arg: _V("self"), po: _V("option")})
        DESC = "self.get_option_descriptor(option.name)"
        unknown_ok = type_ok = validator_ok = False
        lookup_ok = any(DESC in g for p_ in paths for g in p_.guard_text())
        for p_ in paths:
            rz = [e for e in p_.effects if e.kind == "raise"]
            if p_.done != "raise" or not rz:
                continue
            g = p_.guards
            if "UnsupportedOption" in rz[-1].name:
                if g and ((g[-1][0][0] == "truthy" and _show(g[-1][0][1]) == DESC and g[-1][1] is False) or (g[-1][0][0] == "isnone" and _show(g[-1][0][1]) == DESC and g[-1][1] is True)):
                    unknown_ok = True
            if "InvalidOptionValue" in rz[-1].name and g:
                k_, t_ = g[-1]
                if k_[0] == "isinstance" and t_ is False and _show(k_[1]) == "option" and list(k_[2]) == [DESC + ".class_"]:
                    type_ok = True
                if k_[0] == "truthy" and t_ is False and _show(k_[1]) in (f"{DESC}.validator(option.value)", f"({DESC}.validator)(option.value)") or (k_[0] == "truthy" and t_ is False and "validator" in _show(k_[1]) and _show(k_[1]).endswith("(option.value)")):
                    validator_ok = True
                elif k_[0] == "truthy" and t_ is False and _show(k_[1]).startswith(DESC + ".") and _show(k_[1]).endswith("(option.value)"):
                    # a predicate method of the descriptor: it must be the validator applied to the value
                    # (true without a validator)
                    mname_ = _show(k_[1])[len(DESC) + 1 : -len("(option.value)")]
                    owners_ = [c_ for c_ in get_model(repo).all_classes() if c_.rel.endswith("_ast.py") and mname_ in c_.methods and len(c_.methods[mname_].node.args.args) == 2]
                    if len(owners_) == 1:
                        fm_ = owners_[0].methods[mname_]
                        flm_ = compiler_flow(repo, owners_[0].name, "_ast.py")
                        pa_ = [a_.arg for a_ in fm_.node.args.args]
                        rets_ = [q_ for q_ in flm_.run(fm_.node, {pa_[0]: _V("self"), pa_[1]: _V("value")}) if q_.done == "return" and q_.ret is not None]
                        applied_ = False
                        sound_ = bool(rets_)
                        for q_ in rets_:
                            rt_ = _show(q_.ret)
                            if rt_ in ("self.validator(value)", "bool(self.validator(value))", "(self.validator)(value)"):
                                applied_ = True
                            elif q_.ret.const_value() == 1 and any(g_[0][0] in ("isnone", "truthy") and _show(g_[0][1]) == "self.validator" and (g_[1] is True if g_[0][0] == "isnone" else g_[1] is False) for g_ in q_.guards):
                                pass
                            else:
                                sound_ = False
                        if applied_ and sound_:
                            validator_ok = True
        if not unknown_ok:
            res.bad(Finding("C1", fi.rel, fi.node.lineno, fi.qual, "", "an option without descriptor is not rejected with UnsupportedOption", witness="option foo.bar = 1", tag="option:unknown"))
        if not lookup_ok:
            res.bad(Finding("C1", fi.rel, fi.node.lineno, fi.qual, "", "the descriptor is not looked up by the option's own name", tag="option:lookup"))
        if not type_ok:
            res.bad(Finding("C1", fi.rel, fi.node.lineno, fi.qual, "", "an option whose value type differs from its descriptor is not rejected", witness='option c.struct_packing_alignment = "x"', tag="option:type"))
        if not validator_ok:
            res.bad(Finding("C1", fi.rel, fi.node.lineno, fi.qual, "", "the option's validator is not applied to its value", witness="option c.struct_packing_alignment = 9", tag="option:validator"))
    except Inconclusive as e:
        res.unsure(f"C1: {fi.qual}: {e}")

    # option validators in options.py
    opts = read_option_descriptors(repo)
    want_validators = {"max_bytes": (0, INF), "c.struct_packing_alignment": (0, 8)}
    for name, (lo, hi) in want_validators.items():
        d = next((o for o in opts if o["name"] == name), None)
        if d is None:
            res.bad(Finding("C1", "compiler/bitproto/options.py", 0, "options", name, f"documented option {name} is not described", tag=f"option:{name}:missing"))
            continue
        v = d["validator"]
        got = None
        if isinstance(v, ast.Name):
            # a named predicate of options.py with a single `return <expression>`
            om = m.mod("bitproto/options.py")
            hf = om.funcs.get(v.id)
            if hf is not None and len(hf.node.args.args) == 1:
                body_ = [b_ for b_ in hf.node.body if not (isinstance(b_, ast.Expr) and isinstance(b_.value, ast.Constant))]
                if len(body_) == 1 and isinstance(body_[0], ast.Return) and body_[0].value is not None:
                    v = ast.Lambda(args=hf.node.args, body=body_[0].value)
        if isinstance(v, ast.Lambda) and len(v.args.args) == 1:
            var = v.args.args[0].arg
            # accepted = lambda body true
            atoms: List[Tuple[ast.AST, bool]] = []
            n = _nnf(v.body, False)

            def flat(x: Any) -> bool:
                if x[0] == "atom":
                    atoms.append((x[1], x[2]))
                    return True
                return x[0] == "and" and all(flat(y) for y in x[1])

            if flat(n):
                l2, h2 = -INF, INF
                good = True
                for a, neg in atoms:
                    b = _atom_bound(a, neg, var)
                    if b is None:
                        good = False
                        break
                    l2, h2 = max(l2, b[0]), min(h2, b[1])
                if good:
                    got = (l2, h2)
        res.inst(part="options", option=name, accepted=str(got), documented=str((lo, hi)))
        # a division by the value itself inside the validator: zero must have been excluded before
        if isinstance(v, ast.Lambda) and len(v.args.args) == 1:
            var0 = v.args.args[0].arg
            divs = [d_ for d_ in ast.walk(v.body) if isinstance(d_, ast.BinOp) and isinstance(d_.op, (ast.Mod, ast.Div, ast.FloorDiv)) and isinstance(d_.right, ast.Name) and d_.right.id == var0]
            if divs:
                # bounds of the conjuncts evaluated before the division
                l0_, h0_ = -INF, INF
                top = v.body
                if isinstance(top, ast.BoolOp) and isinstance(top.op, ast.And):
                    for cj in top.values:
                        if any(d_ is x_ for d_ in divs for x_ in ast.walk(cj)):
                            break
                        b0_ = _atom_bound(cj, False, var0) if not isinstance(cj, ast.BoolOp) else None
                        if b0_ is None and isinstance(cj, ast.Compare) and len(cj.ops) == 2:
                            # a chained comparison  lo <= v <= hi
                            parts_ = [ast.Compare(left=cj.left, ops=[cj.ops[0]], comparators=[cj.comparators[0]]), ast.Compare(left=cj.comparators[0], ops=[cj.ops[1]], comparators=[cj.comparators[1]])]
                            bs_ = [_atom_bound(x_, False, var0) for x_ in parts_]
                            if all(b_ is not None for b_ in bs_):
                                b0_ = (max(bs_[0][0], bs_[1][0]), min(bs_[0][1], bs_[1][1]))
                        if b0_ is not None:
                            l0_, h0_ = max(l0_, b0_[0]), min(h0_, b0_[1])
                if l0_ <= 0 <= h0_:
                    res.bad(Finding("C1", "compiler/bitproto/options.py", getattr(v, "lineno", 0), f"options.{name}", src_of(v), f"the validator of option {name} divides by the option value (`{src_of(divs[0])}`) although 0 passes the tests in front of it: ZeroDivisionError instead of a diagnostic", witness=f"option {name} = 0", tag=f"option:{name}:zero-division"))
                    res.findings[-1].part = "options-total"
                    continue
        if got is None:
            # any other spelling (named predicates calling each other, negations): the validator evaluated by the
            # path engine on a grid of values around the documented bounds
            try:
                from .normal import C as _Cg
                from .pyflow import PyFlow as _PFg

                om_g = m.mod("bitproto/options.py")
                fn_g = None
                cand = v
                if isinstance(cand, ast.Name) and cand.id in om_g.funcs:
                    fn_g = om_g.funcs[cand.id].node
                elif isinstance(cand, ast.Lambda):
                    fn_g = ast.FunctionDef(name="<validator>", args=cand.args, body=[ast.Return(value=cand.body)], decorator_list=[], returns=None, type_comment=None)
                    ast.copy_location(fn_g, cand)
                    ast.fix_missing_locations(fn_g)
                if fn_g is not None and len(fn_g.args.args) == 1:
                    flg = _PFg(funcs={k_: f_.node for k_, f_ in om_g.funcs.items()}, consts=dict(om_g.assigns), havoc_on=())
                    grid_g = sorted({x_ for b_ in (lo, hi) if b_ not in (INF, -INF) for x_ in (int(b_) - 2, int(b_) - 1, int(b_), int(b_) + 1, int(b_) + 2)} | {-1, 0, 1, 10 ** 6})
                    wrong_g = []
                    decided_g = True
                    for x_ in grid_g:
                        outs_ = set()
                        for p_ in flg.run(fn_g, {fn_g.args.args[0].arg: _Cg(x_)}):
                            if p_.done != "return" or p_.ret is None or p_.guards:
                                decided_g = False
                                break
                            cv_ = p_.ret.const_value()
                            if cv_ is None:
                                decided_g = False
                                break
                            outs_.add(bool(cv_))
                        if not decided_g or len(outs_) != 1:
                            decided_g = False
                            break
                        if outs_.pop() != (lo <= x_ <= hi):
                            wrong_g.append(x_)
                    if decided_g:
                        res.inst(part="options", option=name, evaluated_on=len(grid_g), wrong=wrong_g[:3])
                        if wrong_g:
                            res.bad(Finding("C1", "compiler/bitproto/options.py", getattr(cand, "lineno", 0), "options", src_of(cand), f"option {name}: the validator's verdict differs from the documented {_fmt((lo, hi))} at {wrong_g[:4]}", tag=f"option:{name}:range"))
                        continue
            except Inconclusive:
                pass
            res.unsure(f"C1: validator of option {name} is not a conjunction of bounds")
        elif got != (lo, hi):
            res.bad(Finding("C1", "compiler/bitproto/options.py", v.lineno, "options", src_of(v), f"option {name} accepts {_fmt(got)}, documented {_fmt((lo, hi))}", tag=f"option:{name}:range"))

    # kind checks in the grammar actions
    pm = m.mod("bitproto/parser.py")
    pc = pm.classes["Parser"]
    # per action: error class -> (subject, condition); the subject is the value the action looks at
    # (the lookup result / the reduced symbol), the condition is judged on every path of the action
    LOOKUP = "self._lookup_referenced_member(p[1])"
    KIND_TABLE = (
        ("p_constant_reference_for_array_capacity", "InvalidArrayCap", "p[1]", ("notinst", "IntegerConstant")),
        ("p_constant_reference_for_calculation", "CalculationExpressionError", "p[1]", ("notinst", "IntegerConstant")),
        ("p_type_reference", "ReferencedNotType", LOOKUP, ("notinst", "Type")),
        ("p_type_reference", "ReferencedTypeNotDefined", LOOKUP, ("none",)),
        ("p_constant_reference", "ReferencedNotConstant", LOOKUP, ("notinst", "Constant")),
        ("p_constant_reference", "ReferencedConstantNotDefined", LOOKUP, ("none",)),
    )
    try:
        from .flows import compiler_flow as _cf0
        from .grammar import get_grammar as _gg0
        from .normal import V as _V0
        from .normal import show as _sh0

        g0_ = _gg0(repo)
        flow0 = _cf0(repo, "Parser", "parser.py", inline=lambda n_, f_: n_.startswith("_") and n_ != "_lookup_referenced_member")
        for qual, cls, subject, cond in KIND_TABLE:
            act0 = g0_.actions.get(qual)
            if act0 is None:
                res.unsure(f"C1: Parser.{qual} vanished")
                continue
            prm0 = [a.arg for a in act0.node.args.args]
            n_raise = 0
            wrong = None
            for p_ in flow0.run(act0.node, {prm0[0]: _V0("self"), prm0[1]: _V0("p")}):
                raised = p_.done == "raise" and any(e.kind == "raise" and e.name == cls for e in p_.effects)
                n_raise += int(raised)
                isnone = None
                isinst = None
                for k_, t_ in p_.guards:
                    if k_[0] == "isnone" and _sh0(k_[1]) == subject:
                        isnone = t_
                    elif k_[0] == "isinstance" and _sh0(k_[1]) == subject and cond[0] == "notinst" and cond[1] in k_[2]:
                        isinst = t_ if len(k_[2]) == 1 else (True if t_ is False else None) if False else (t_ if len(k_[2]) == 1 else None)
                    elif k_[0] == "truthy" and _sh0(k_[1]) == subject:
                        isnone = (not t_) if t_ is False else isnone  # falsy is wider than None: only `not x` as a None test on definitions
                if cond[0] == "none":
                    holds = isnone
                else:
                    holds = None if isinst is None else ((not isinst) and isnone is not True)
                    if isnone is True:
                        holds = False
                if holds is None:
                    if raised:
                        wrong = f"raised under {p_.guard_text()}, which does not decide the condition"
                    continue
                if holds != raised:
                    wrong = ("not raised" if holds else "raised") + f" under {p_.guard_text()}"
            res.inst(part="kind", where=qual, error=cls, raises=n_raise)
            test = f"{subject} is None" if cond[0] == "none" else f"not isinstance({subject}, {cond[1]})"
            if n_raise == 0 or wrong:
                res.bad(Finding("C1", pm.rel, act0.node.lineno, f"Parser.{qual}", wrong or "", f"{cls} is not raised exactly under `{test}`" + (f" ({wrong})" if wrong else ""), witness={"InvalidArrayCap": 'const S = "x"; message M { byte[S] a = 1 }', "ReferencedNotType": "const C = 1; message M { C a = 1 }"}.get(cls, ""), tag=f"kind:{qual}:{cls}"))
    except Inconclusive as e:
        res.unsure(f"C1: kind checks: {e}")

    # imports: cycle and duplicates precede parse_child and compare with samefile
    f2 = pc.methods.get("p_import")
    if f2 is None:
        res.unsure("C1: Parser.p_import vanished")
    else:
        order = []
        for n in ast.walk(f2.node):
            if isinstance(n, ast.Raise) and n.exc is not None:
                nm = src_of(n.exc.func) if isinstance(n.exc, ast.Call) else src_of(n.exc)
                order.append((n.lineno, nm))
            if isinstance(n, ast.Call) and src_of(n.func) == "self.parse_child":
                order.append((n.lineno, "parse_child"))
        order.sort()
        seq = [x for _, x in order]
        res.inst(part="imports", order=seq)
        if "parse_child" not in seq or "CyclicImport" not in seq or "DuplicatedImport" not in seq:
            res.bad(Finding("C1", pm.rel, f2.node.lineno, "Parser.p_import", str(seq), "cycle / duplicate import check missing", witness="a.bitproto imports b.bitproto imports a.bitproto", tag="import:checks"))
        elif not (seq.index("CyclicImport") < seq.index("parse_child") and seq.index("DuplicatedImport") < seq.index("parse_child")):
            res.bad(Finding("C1", pm.rel, f2.node.lineno, "Parser.p_import", str(seq), "the import checks run after the child was parsed (a cyclic import recurses until the stack overflows)", witness="a.bitproto imports itself", tag="import:order"))
        from .exists import exists_at

        pmeths = {k_: v_.node for k_, v_ in pc.methods.items()}
        # the path that is checked is the one handed to parse_child
        fp = next((src_of(n.args[0]) for n in ast.walk(f2.node) if isinstance(n, ast.Call) and src_of(n.func) == "self.parse_child" and n.args), "filepath")
        cyc = _raises_of(f2.node, "CyclicImport")
        if cyc:
            ex = exists_at(cyc[0], f2.node, pmeths)
            res.inst(part="imports", error="CyclicImport", iff_some=ex)
            if ex is None:
                res.unsure("C1: p_import: the condition CyclicImport is raised under is not a recognised search of the parsing stack")
            elif ex[0] != "self.filepath_stack" or ex[1] not in (f"os.path.samefile({fp}, _v0)", f"os.path.samefile(_v0, {fp})"):
                res.bad(Finding("C1", pm.rel, cyc[0].lineno, "Parser.p_import", str(ex), "CyclicImport is not raised exactly when the file is already on the parsing stack", tag="import:cycle-cond"))
        dup = _raises_of(f2.node, "DuplicatedImport")
        if dup:
            ex = exists_at(dup[0], f2.node, pmeths)
            res.inst(part="imports", error="DuplicatedImport", iff_some=ex)
            if ex is None:
                res.unsure("C1: p_import: the condition DuplicatedImport is raised under is not a recognised search of the imports of the current proto")
            elif ex[0] != "self.current_proto().protos(recursive=False)" or ex[1] not in (f"os.path.samefile(_v1.filepath, {fp})", f"os.path.samefile({fp}, _v1.filepath)"):
                res.bad(Finding("C1", pm.rel, dup[0].lineno, "Parser.p_import", str(ex), "DuplicatedImport is not raised exactly when a proto already imported by this file is the same file", tag="import:dup-cond"))
        # the name the import is pushed under is rejected exactly when the current proto already has it
        try:
            from .flows import compiler_flow as _cf
            from .grammar import get_grammar as _gg
            from .normal import V as _V
            from .normal import show as _sh

            act_ = _gg(repo).actions.get("p_import")
            flow_ = _cf(repo, "Parser", "parser.py", inline=lambda n_, f_: False, primitives=("push_member", "parse_child"))
            prm_ = [a.arg for a in act_.node.args.args]
            bad_ = None
            n_push = n_dd = 0
            for p_ in flow_.run(act_.node, {prm_[0]: _V("self"), prm_[1]: _V("p")}):
                taken = [(k_, t_) for k_, t_ in p_.guards if k_[0] == "contains" and _sh(k_[1]) == "self.current_proto().members"]
                raised = p_.done == "raise" and any(e.kind == "raise" and e.name == "DuplicatedDefinition" for e in p_.effects)
                pushes = [e for e in p_.effects if e.kind == "call" and e.name == "push_member"]
                if raised:
                    n_dd += 1
                    if not (taken and taken[-1][1]):
                        bad_ = "DuplicatedDefinition is raised on a path that did not find the name in the current proto"
                if pushes:
                    n_push += 1
                    nm_ = pushes[0].kw.get("name", pushes[0].args[1] if len(pushes[0].args) > 1 else None)
                    if not taken or taken[-1][1] or nm_ is None or taken[-1][0][2] != nm_:
                        bad_ = f"the proto is pushed under `{_sh(nm_) if nm_ is not None else None}` on a path that has not established that this name is free in the current proto"
            res.inst(part="imports", error="DuplicatedDefinition", raise_paths=n_dd, push_paths=n_push)
            if bad_ or n_dd == 0 or n_push == 0:
                res.bad(Finding("C1", pm.rel, f2.node.lineno, "Parser.p_import", bad_ or "", "an import (as) name that is already taken is not rejected" + (f": {bad_}" if bad_ else ""), witness='message lib {} import lib "lib.bitproto"', tag="import:name-taken"))
        except Inconclusive as e:
            res.unsure(f"C1: p_import: {e}")

    # ---- converse: every raised ParserError subclass is catalogued
    perr = m.cls("ParserError", "errors.py")
    for mod in m.mods.values():
        if not mod.rel.startswith("compiler/bitproto/") or "/renderer/" in mod.rel:
            continue
        for n in ast.walk(mod.tree):
            if isinstance(n, ast.Raise) and n.exc is not None:
                c = n.exc.func if isinstance(n.exc, ast.Call) else n.exc
                name = c.id if isinstance(c, ast.Name) else (c.value.id if isinstance(c, ast.Attribute) and isinstance(c.value, ast.Name) else None)
                cands = [k for k in m.all_classes() if k.name == name]
                if not cands or not m.is_subclass(cands[0], perr):
                    continue
                res.inst(part="converse", where=qualname(n), error=name)
                if name not in ERROR_CATALOGUE:
                    res.unsure(f"C1: {mod.rel}:{n.lineno} raises {name}, which the constraint catalogue does not know (a new constraint, or a refactoring: extend the catalogue by hand)")
    for f in res.findings:
        if not f.part:
            if f.tag.startswith("import:"):
                f.part = "imports"
            elif "MessageSizeOverflows" in f.tag or "InvalidArrayCap" in f.tag or "validate_array_cap" in f.where or ("validate_post_freeze" in f.where and "max_bytes" not in f.message):
                f.part = "prefix-range"  # what the 16-bit prefix of extensible items can represent
            else:
                f.part = "constraints"
    return res


def _missing_guard_ok(r: ast.AST, fn: ast.AST) -> bool:
    return True


def _if_of(n: ast.AST) -> ast.AST:
    p = n
    while p is not None and not isinstance(p, ast.If):
        p = parent(p)  # type: ignore[assignment]
    return p.test if p is not None else n  # type: ignore[union-attr]


def _fmt(iv: Tuple[float, float]) -> str:
    lo = "-inf" if iv[0] == -INF else str(int(iv[0]))
    hi = "+inf" if iv[1] == INF else str(int(iv[1]))
    return f"[{lo}, {hi}]"


# --------------------------------------------------------------------------
# option descriptors (C9)
# --------------------------------------------------------------------------


def read_option_descriptors(repo: Repo) -> List[Dict[str, Any]]:
    tree = repo.py("compiler/bitproto/options.py")
    out: List[Dict[str, Any]] = []
    for st in tree.body:
        tgt = st.targets[0] if isinstance(st, ast.Assign) else (st.target if isinstance(st, ast.AnnAssign) else None)
        val = getattr(st, "value", None)
        if isinstance(tgt, ast.Name) and isinstance(val, ast.Tuple):
            for e in val.elts:
                if isinstance(e, ast.Call) and src_of(e.func) == "OptionDescriptor":
                    args = list(e.args)
                    kws = {k.arg: k.value for k in e.keywords}
                    name = args[0] if args else kws.get("name")
                    default = args[1] if len(args) > 1 else kws.get("default")
                    validator = args[2] if len(args) > 2 else kws.get("validator")
                    if isinstance(name, ast.Constant) and isinstance(default, ast.Constant):
                        out.append({"tuple": tgt.id, "name": name.value, "default": default.value, "validator": validator})
    if not out:
        raise Inconclusive("options.py: no OptionDescriptor literal found")
    return out


@rule("C9", "every get_option_as_*_or_raise(name) names a described option of the receiver's scope whose default has that type")
def c9(repo: Repo) -> RuleResult:
    res = RuleResult("C9", floor=4)
    m = get_model(repo)
    opts = read_option_descriptors(repo)
    # scope class -> descriptor tuple name
    tuple_of: Dict[str, str] = {}
    for c in m.all_classes():
        if c.rel == AST and "__option_descriptors__" in c.attrs_val:
            tuple_of[c.name] = src_of(c.attrs_val["__option_descriptors__"])
    res.note(f"descriptor tuples: {tuple_of}")
    kinds = {"int": int, "string": str, "bool": bool}
    for mod in m.mods.values():
        if not mod.rel.startswith("compiler/bitproto/"):
            continue
        funcs = list(mod.funcs.values()) + [f for c in mod.classes.values() for f in c.methods.values()]
        for fi in funcs:
            for n in ast.walk(fi.node):
                if not (isinstance(n, ast.Call) and isinstance(n.func, ast.Attribute) and n.func.attr.startswith("get_option_as_") and n.func.attr.endswith("_or_raise")):
                    continue
                if fi.qual.startswith("ScopeWithOptions.get_option_as_"):
                    continue
                kind = n.func.attr[len("get_option_as_") : -len("_or_raise")]
                ty = Typer(m, fi, fi.cls)
                recv = ty.type_of(n.func.value)
                rc = sorted({a.cls.name for a in recv if isinstance(a, Inst)})
                if not rc and isinstance(n.func.value, ast.Attribute):
                    # `<definition>.bound` where the narrowing of <definition> is an early return: the declared
                    # type of that attribute wherever a schema class declares it
                    for c_ in m.all_classes():
                        an_ = c_.attrs_ann.get(n.func.value.attr) if c_.rel.endswith("_ast.py") else None
                        pf_ = c_.methods.get(n.func.value.attr) if c_.rel.endswith("_ast.py") else None
                        if an_ is None and pf_ is not None and pf_.is_property and pf_.node.returns is not None:
                            an_ = pf_.node.returns
                        if an_ is not None:
                            try:
                                rc = sorted(set(rc) | {a.cls.name for a in Typer(m, fi, c_).ann(an_) if isinstance(a, Inst)})
                            except Exception:
                                pass
                names: List[str] = []
                arg = n.args[0] if n.args else None
                if isinstance(arg, ast.Constant) and isinstance(arg.value, str):
                    names = [arg.value]
                elif isinstance(arg, ast.Name):
                    for a in ast.walk(fi.node):
                        if isinstance(a, ast.Assign) and src_of(a.targets[0]) == arg.id and isinstance(a.value, ast.Constant) and isinstance(a.value.value, str):
                            names.append(a.value.value)
                    # a module-level constant
                    mc = mod.assigns.get(arg.id)
                    if not names and isinstance(mc, ast.Constant) and isinstance(mc.value, str):
                        names.append(mc.value)
                    # option_name = self.definition_name_prefix_option_name(): literals returned by the overrides
                    for a in ast.walk(fi.node):
                        if isinstance(a, ast.Assign) and src_of(a.targets[0]) == arg.id and isinstance(a.value, ast.Call) and isinstance(a.value.func, ast.Attribute):
                            meth = a.value.func.attr
                            for c in m.all_classes():
                                f2 = c.methods.get(meth)
                                if f2 is not None:
                                    for r in ast.walk(f2.node):
                                        if isinstance(r, ast.Return) and isinstance(r.value, ast.Constant) and isinstance(r.value.value, str) and r.value.value:
                                            names.append(r.value.value)
                res.inst(where=fi.qual, call=src_of(n), receiver=rc, names=names)
                if not names or not rc:
                    res.unsure(f"C9: {fi.qual}: option name or receiver of `{src_of(n)}` not resolvable")
                    continue
                for nm in names:
                    ok = False
                    for r in rc:
                        # receiver class or a subclass with descriptors
                        cands = [r] + [c.name for c in m.all_classes() if c.rel == AST and any(k.name == r for k in m.mro(c))]
                        for cn in cands:
                            tn = tuple_of.get(cn)
                            for o in opts:
                                if o["tuple"] == tn and o["name"] == nm and type(o["default"]) is kinds.get(kind):
                                    ok = True
                    if not ok:
                        res.bad(Finding("C9", fi.rel, n.lineno, fi.qual, src_of(n), f"option {nm!r} is not described for {rc} with a {kind} default: the accessor raises an internal error", witness="any schema reaching this code", tag=f"{fi.qual}:{nm}"))
    return res


# --------------------------------------------------------------------------
# A7 cache discipline
# --------------------------------------------------------------------------


@rule("A7", "methods that read state written during parsing are cached only once their node is frozen")
def a7(repo: Repo) -> RuleResult:
    res = RuleResult("A7", floor=10)
    m = get_model(repo)
    node = m.cls("Node", "_ast.py")
    # dataclass fields of node classes = state written during parsing
    fields: Set[str] = set()
    for c in m.all_classes():
        if c.rel == AST and m.is_subclass(c, node):
            fields |= set(c.attrs_ann)
    fields -= {"__frozen__", "__option_descriptors__"}

    def reads_state(fi: FuncInfo, seen: Set[str]) -> Optional[str]:
        if fi.qual in seen:
            return None
        seen.add(fi.qual)
        for n in ast.walk(fi.node):
            if isinstance(n, ast.Attribute) and isinstance(n.value, ast.Name) and n.value.id == "self":
                if n.attr in fields and isinstance(n.ctx, ast.Load):
                    return f"self.{n.attr}"
                if fi.cls is not None:
                    for k in m.subclasses(fi.cls) + m.mro(fi.cls):
                        f2 = k.methods.get(n.attr)
                        if f2 is not None:
                            r = reads_state(f2, seen)
                            if r:
                                return f"{f2.qual} -> {r}"
        return None

    for c in m.all_classes():
        if c.rel != AST:
            continue
        for name, fi in c.methods.items():
            decos = fi.decorators
            if "cache" in decos or "lru_cache" in decos:
                r = reads_state(fi, set())
                res.inst(part="unconditional", where=fi.qual, reads=r)
                if r:
                    res.bad(Finding("A7", AST, fi.node.lineno, fi.qual, "@cache", f"unconditionally cached although it reads {r}, which changes while the scope is still being parsed: later members are invisible to the duplicate / size checks", witness="message M { bool a = 1; bool b = 1 } accepted (second field number compared with a stale table)", tag=f"{fi.qual}:cache"))
            elif "cache_if_frozen" in decos:
                res.inst(part="conditional", where=fi.qual)
    # a memo table keys by equality and hash: True == 1 == 1.0 and False == 0.  A memoised function
    # must not tell apart (by identity or by class) arguments its key equates.
    n_memo = 0
    for mod in m.mods.values():
        if not mod.rel.startswith("compiler/bitproto/"):
            continue
        for fi in list(mod.funcs.values()) + [f for c in mod.classes.values() for f in c.methods.values()]:
            if not ({"cache", "lru_cache", "cache_if_frozen", "memoize", "memoized"} & set(fi.decorators)):
                continue
            n_memo += 1
            params = [a.arg for a in fi.node.args.args if a.arg not in ("self", "cls")]
            res.inst(part="key", where=fi.qual, params=params)
            for n in ast.walk(fi.node):
                why = None
                if isinstance(n, ast.Compare) and len(n.ops) == 1 and isinstance(n.ops[0], (ast.Is, ast.IsNot)) and isinstance(n.left, ast.Name) and n.left.id in params and isinstance(n.comparators[0], ast.Constant) and isinstance(n.comparators[0].value, bool):
                    why = f"`{src_of(n)}` tells {n.comparators[0].value} from {int(n.comparators[0].value)}"
                elif isinstance(n, ast.Call) and isinstance(n.func, ast.Name) and n.func.id == "isinstance" and len(n.args) == 2 and isinstance(n.args[0], ast.Name) and n.args[0].id in params and any(isinstance(x, ast.Name) and x.id in ("bool", "int", "float") for x in ast.walk(n.args[1])):
                    why = f"`{src_of(n)}` tells numbers of different classes apart"
                elif isinstance(n, ast.Call) and isinstance(n.func, ast.Name) and n.func.id == "type" and len(n.args) == 1 and isinstance(n.args[0], ast.Name) and n.args[0].id in params:
                    why = f"`{src_of(n)}` looks at the class of the argument"
                if why:
                    f = Finding("A7", fi.rel, n.lineno, fi.qual, src_of(n), f"memoised by argument value, but {why}: the memo table equates them (True == 1, False == 0, equal hashes), so whichever is asked first decides the result for the other", witness="const ENABLED = true; const VERSION = 1  ->  #define VERSION true", tag=f"{fi.qual}:key-conflation")
                    f.part = "key"
                    res.bad(f)
                    break
    # hand-written memo tables keyed by a definition's simple name: names are unique within one scope
    # only (nested definitions, imported files), the value computed from the definition is not
    n_named = 0
    for mod in m.mods.values():
        if not mod.rel.startswith("compiler/bitproto/") or mod.rel.endswith(("/_ast.py", "/parser.py")):
            continue
        for fi in list(mod.funcs.values()) + [f for c in mod.classes.values() for f in c.methods.values()]:
            params = {a.arg for a in fi.node.args.args if a.arg not in ("self", "cls")}
            for n in ast.walk(fi.node):
                if not (isinstance(n, ast.Assign) and len(n.targets) == 1 and isinstance(n.targets[0], ast.Subscript)):
                    continue
                key = n.targets[0].slice
                ktxt = src_of(key)
                # a local bound once to the key expression
                if isinstance(key, ast.Name):
                    kb = [a_ for a_ in ast.walk(fi.node) if isinstance(a_, ast.Assign) and len(a_.targets) == 1 and isinstance(a_.targets[0], ast.Name) and a_.targets[0].id == key.id]
                    if len(kb) == 1:
                        key = kb[0].value
                # the key says less than the object: its simple name, its repr / str (which print the simple name)
                named = [x for x in ast.walk(key) if isinstance(x, ast.Attribute) and x.attr == "name" and isinstance(x.value, ast.Name) and x.value.id in params]
                named += [x.args[0] for x in ast.walk(key) if isinstance(x, ast.Call) and isinstance(x.func, ast.Name) and x.func.id in ("repr", "str", "format") and len(x.args) == 1 and isinstance(x.args[0], ast.Name) and x.args[0].id in params]
                named += [x.value for x in ast.walk(key) if isinstance(x, ast.FormattedValue) and isinstance(x.value, ast.Name) and x.value.id in params]
                if not named:
                    continue
                named = [ast.Attribute(value=x, attr="name") if isinstance(x, ast.Name) else x for x in named]
                n_named += 1
                cont = src_of(n.targets[0].value)
                # a memo: the same container is asked for the same key in this function
                reads = [x for x in ast.walk(fi.node) if (isinstance(x, ast.Compare) and len(x.ops) == 1 and isinstance(x.ops[0], (ast.In, ast.NotIn)) and src_of(x.left) == ktxt and src_of(x.comparators[0]) == cont) or (isinstance(x, ast.Subscript) and x is not n.targets[0] and src_of(x.value) == cont and src_of(x.slice) == ktxt and isinstance(x.ctx, ast.Load)) or (isinstance(x, ast.Call) and isinstance(x.func, ast.Attribute) and x.func.attr == "get" and src_of(x.func.value) == cont and x.args and src_of(x.args[0]) == ktxt)]
                subj = named[0].value.id
                from_subject = any(isinstance(x, ast.Name) and x.id == subj for x in ast.walk(n.value))
                if reads and from_subject:
                    f = Finding("A7", fi.rel, n.lineno, fi.qual, src_of(n), f"`{cont}` memoises a value computed from `{subj}` under `{src_of(key)}`, which carries no more than its simple name: two definitions of that name (nested in different messages, or in an imported file) get each other's value", witness="message A { enum Kind : uint8 {} }  message B { enum Kind : uint16 {} }: the second Kind is rendered with the first one's type", tag=f"{fi.qual}:name-keyed-memo")
                    f.part = "key"
                    res.bad(f)
    res.inst(part="key", memoised_functions=n_memo, name_keyed_stores=n_named)
    # the condition itself
    cond = m.func("_ast.py", "cache_if_frozen_condition").node
    from .normal import show as _shc
    from .pyflow import PyFlow as _PFc

    try:
        prm_c = [a_.arg for a_ in cond.args.args]
        recv_txt = f"{cond.args.vararg.arg}[0]" if cond.args.vararg is not None else (f"{prm_c[1]}[0]" if len(prm_c) > 1 else "args[0]")
        mod_c = m.mods[m.func("_ast.py", "cache_if_frozen_condition").rel]
        cpaths = [p_ for p_ in _PFc(funcs={}, consts=dict(mod_c.assigns), havoc_on=(), pure=("getattr",)).run(cond) if p_.done == "return" and p_.ret is not None]
        rvals = sorted({_shc(p_.ret) for p_ in cpaths})
    except Inconclusive as e:
        res.unsure(f"A7: cache_if_frozen_condition: {e}")
        rvals = []
        recv_txt = ""
    res.inst(part="condition", returns=rvals)
    positive = [v_ for v_ in rvals if v_ not in ("0", "False")]
    if rvals and (len(positive) != 1 or positive[0] not in (f"getattr({recv_txt}, '__frozen__', False)", f"getattr({recv_txt}, '__frozen__', 0)", f"{recv_txt}.is_frozen()", f"{recv_txt}.__frozen__")):
        res.bad(Finding("A7", AST, cond.lineno, "cache_if_frozen_condition", "", "the cache condition is not `the node is frozen`", witness="duplicate field numbers accepted", tag="cache_if_frozen_condition"))
    cc = m.func("bitproto/utils.py", "conditional_cache").node
    res.inst(part="condition", where="conditional_cache")
    try:
        from .normal import show as _sh
        from .pyflow import PyFlow

        inner = [f_ for f_ in ast.walk(cc) if isinstance(f_, ast.FunctionDef) and f_ is not cc and any(isinstance(c_, ast.Call) and isinstance(c_.func, ast.Name) and c_.func.id == "condition" for c_ in ast.walk(f_)) and not any(isinstance(g_, ast.FunctionDef) and g_ is not f_ and any(isinstance(c_, ast.Call) and isinstance(c_.func, ast.Name) and c_.func.id == "condition" for c_ in ast.walk(g_)) for g_ in ast.walk(f_))]
        cached_names = set()
        user = None
        for f_ in ast.walk(cc):
            if isinstance(f_, ast.FunctionDef) and f_ is not cc and user is None and f_.args.args and any(g_ in inner for g_ in ast.walk(f_) if g_ is not f_):
                user = f_.args.args[0].arg
        for a_ in ast.walk(cc):
            if isinstance(a_, ast.Assign) and any(isinstance(c_, ast.Call) and isinstance(c_.func, ast.Name) and c_.func.id in ("cache", "lru_cache") for c_ in ast.walk(a_.value)):
                cached_names |= {t_.id for t_ in a_.targets if isinstance(t_, ast.Name)}
        ok = bool(inner) and user is not None
        why = ""
        if ok:
            for p_ in PyFlow(funcs={}, havoc_on=(), pure=("condition",)).run(inner[0]):
                cond_t = None
                for k_, t_ in p_.guards:
                    if k_[0] == "truthy" and _sh(k_[1]).startswith("condition("):
                        cond_t = t_
                calls_ = [e.name for e in p_.effects if e.kind == "call" and e.name != "condition"]
                if cond_t is False and calls_ != [user]:
                    ok, why = False, f"while the condition is false the wrapper calls {calls_}"
                if cond_t is True and not (len(calls_) == 1 and calls_[0] in cached_names):
                    ok, why = False, f"while the condition is true the wrapper calls {calls_}"
                if cond_t is None and calls_:
                    ok, why = False, "a call is not selected by the condition"
        if not ok:
            res.bad(Finding("A7", "compiler/bitproto/utils.py", cc.lineno, "conditional_cache", why, "the wrapped function is not executed directly while the condition is false" + (f" ({why})" if why else ""), tag="conditional_cache"))
    except Inconclusive as e:
        res.unsure(f"A7: conditional_cache: {e}")
    # memoised results are shared objects: no caller may mutate them in place
    MUT = {"append", "extend", "insert", "pop", "remove", "clear", "update", "setdefault", "popitem", "add", "discard", "sort", "reverse"}
    memo: Set[str] = set()  # method names whose result is the cache's own object
    for c in m.all_classes():
        if c.rel != AST:
            continue
        for name, fi in c.methods.items():
            if {"cache", "lru_cache", "cache_if_frozen", "cached_property"} & set(fi.decorators):
                memo.add(name)
    # functions that hand a memoised result on unchanged
    changed = True
    while changed:
        changed = False
        for c in m.all_classes():
            if c.rel != AST:
                continue
            for name, fi in c.methods.items():
                if name in memo:
                    continue
                rets = [n for n in ast.walk(fi.node) if isinstance(n, ast.Return) and n.value is not None]
                if rets and all(isinstance(r.value, ast.Call) and isinstance(r.value.func, ast.Attribute) and r.value.func.attr in memo for r in rets):
                    memo.add(name)
                    changed = True
    n_sites = 0
    for mod in m.mods.values():
        if not mod.rel.startswith("compiler/bitproto/"):
            continue
        fns = list(mod.funcs.values()) + [f for c in mod.classes.values() for f in c.methods.values()]
        for fi in fns:
            # locals bound directly to a memoised call
            bound: Dict[str, ast.AST] = {}
            for n in ast.walk(fi.node):
                if isinstance(n, (ast.Assign, ast.AnnAssign)) and n.value is not None:
                    tgs = n.targets if isinstance(n, ast.Assign) else [n.target]
                    v = n.value
                    if isinstance(v, ast.Call) and isinstance(v.func, ast.Attribute) and v.func.attr in memo:
                        for t in tgs:
                            if isinstance(t, ast.Name):
                                bound[t.id] = v
                                n_sites += 1
            for n in ast.walk(fi.node):
                tgt = None
                how = ""
                if isinstance(n, ast.Call) and isinstance(n.func, ast.Attribute) and n.func.attr in MUT:
                    tgt, how = n.func.value, f".{n.func.attr}()"
                elif isinstance(n, (ast.Assign, ast.AugAssign)):
                    for t in (n.targets if isinstance(n, ast.Assign) else [n.target]):
                        if isinstance(t, ast.Subscript):
                            tgt, how = t.value, "[...] ="
                        elif isinstance(n, ast.AugAssign) and isinstance(t, ast.Name) and isinstance(n.op, ast.Add):
                            tgt, how = t, "+="
                elif isinstance(n, ast.Delete):
                    for t in n.targets:
                        if isinstance(t, ast.Subscript):
                            tgt, how = t.value, "del [...]"
                if tgt is None:
                    continue
                src_call = None
                if isinstance(tgt, ast.Name) and tgt.id in bound:
                    # not rebound to something fresh in between (any other assignment to the name)
                    others = [a_ for a_ in ast.walk(fi.node) if isinstance(a_, (ast.Assign, ast.AnnAssign)) and any(isinstance(t_, ast.Name) and t_.id == tgt.id for t_ in (a_.targets if isinstance(a_, ast.Assign) else [a_.target])) and a_.value is not bound[tgt.id]]
                    fresh = [a_ for a_ in others if a_.value is not None and not (isinstance(a_.value, ast.Call) and isinstance(a_.value.func, ast.Attribute) and a_.value.func.attr in memo)]
                    if fresh and all(getattr(a_, "lineno", 0) > getattr(bound[tgt.id], "lineno", 0) and getattr(a_, "lineno", 0) < n.lineno for a_ in fresh):
                        continue
                    src_call = bound[tgt.id]
                elif isinstance(tgt, ast.Call) and isinstance(tgt.func, ast.Attribute) and tgt.func.attr in memo:
                    src_call = tgt
                if src_call is None:
                    continue
                # inside the memoised function itself the list is still being built
                if fi.node.name in memo and fi.cls is not None and fi.cls.rel == AST:
                    continue
                f_ = Finding("A7", fi.rel, n.lineno, fi.qual, src_of(n)[:120], f"`{src_of(tgt)[:60]}` is the result of the memoised `{src_of(src_call.func)}` (the cache hands out its own list on a frozen node) and is mutated in place with `{how}`: every later caller with the same arguments - the renderers - sees the changed object", witness="compile a schema with a nested definition once with the linter and once with -q: the emission order differs", tag=f"{fi.qual}:memo-mutation:{tgt.id if isinstance(tgt, ast.Name) else 'call'}")
                f_.part = "memo-results"
                res.bad(f_)
    res.inst(part="memo-results", memoised=len(memo), bound_sites=n_sites)
    # identity hash only inside safe_hash
    um = m.mod("bitproto/utils.py")
    for n in ast.walk(um.tree):
        if isinstance(n, ast.Call) and isinstance(n.func, ast.Name) and n.func.id == "id":
            where = qualname(n)
            res.inst(part="identity", where=where)
            if "safe_hash" not in where:
                res.bad(Finding("A7", um.rel, n.lineno, where, src_of(n), "id() is used outside safe_hash.__hash__", tag=f"id:{where}"))
    return res


# --------------------------------------------------------------------------
# C7 lint table
# --------------------------------------------------------------------------

LINT_CONVENTIONS = {
    # target class -> accepted predicate idioms for "name violates the convention"
    "Alias": ("pascal",),
    "Enum": ("pascal", "has-zero"),
    "Message": ("pascal",),
    "MessageField": ("snake",),
    "Constant": ("upper",),
    "EnumField": ("upper",),
    "BoundDefinition": ("indent",),
}


def _lint_rule_summary(repo: Repo, lm: Any, c: Any, chk: Any) -> Dict[str, Any]:
    """What a lint rule's check() does, from its paths:
    {'kind': pascal|snake|upper|has-zero|indent|?, 'defect': why the warning is not
    returned exactly when the convention is broken (or None), 'paths': n}"""
    from .exists import exists_of_expr
    from .fold import by_name, lit_value
    from .normal import V, show
    from .pyflow import PyFlow, single_atom

    chk_node = chk.node
    prm = [a_.arg for a_ in chk_node.args.args]
    dname = prm[1] if len(prm) > 1 else "definition"
    nname = prm[2] if len(prm) > 2 else "name"
    mro_methods: Dict[str, Any] = {}
    for k_c in get_model(repo).mro(c):
        for nm_, fi_ in k_c.methods.items():
            mro_methods.setdefault(nm_, fi_.node)
    flow = PyFlow(funcs={k: v.node for k, v in lm.funcs.items()}, methods=mro_methods, havoc_on=(), pure=("pascal_case", "snake_case", "upper_case", "isupper", "upper", "fields"), inline_filter=lambda n_, f_: "raise NotImplementedError" not in src_of(f_))
    env = {prm[0]: V("self"), dname: V("definition")}
    if len(prm) > 2:
        env[nname] = V("name")
    paths = [p_ for p_ in flow.run(chk_node, env) if p_.done == "return"]

    def warned(p_: Any) -> bool:
        a_ = single_atom(p_.ret) if p_.ret is not None else None
        return a_ is not None and a_[0] != "none"

    out: Dict[str, Any] = {"paths": len(paths), "kind": "?", "defect": None}
    if not paths or not any(warned(p_) for p_ in paths) or all(warned(p_) for p_ in paths):
        out["defect"] = "check() does not have both a warning path and a None path"
    kinds: Set[str] = set()
    CONV = {"pascal_case": "pascal", "snake_case": "snake", "upper_case": "upper", "upper": "upper"}
    for p_ in paths:
        subj = "name"
        for k_, t_ in p_.guards:
            if k_[0] == "truthy" and show(k_[1]) == "name":
                subj = "name" if t_ else "definition.name"
        holds: Optional[bool] = None
        for k_, t_ in p_.guards:
            if k_[0] == "cmp" and k_[1] == "==":
                d = k_[2]
                for fnm, kd in CONV.items():
                    for form in (f"{fnm}({subj})", f"{subj}.{fnm}()"):
                        if show(d) in (f"{form} - {subj}", f"-{form} + {subj}", f"{subj} - {form}", f"-{subj} + {form}"):
                            holds, kind_ = t_, kd
                            kinds.add(kd)
            elif k_[0] == "truthy" and show(k_[1]) == f"{subj}.isupper()":
                holds = t_
                kinds.add("upper")
        if holds is not None and warned(p_) != (not holds):
            out["defect"] = f"under {p_.guard_text()} the rule " + ("warns" if warned(p_) else "is silent")
    # enum has a zero member: silent iff some field has value 0
    loops_or_any = [n for n in ast.walk(chk_node) if isinstance(n, ast.For) or (isinstance(n, ast.Call) and isinstance(n.func, ast.Name) and n.func.id == "any")]
    if not kinds and loops_or_any:
        ex = None
        for n in ast.walk(chk_node):
            if isinstance(n, ast.Call) and isinstance(n.func, ast.Name) and n.func.id == "any":
                ex = exists_of_expr(n)
                # polarity: the None return is under the any()
                holder = [i for i in ast.walk(chk_node) if isinstance(i, ast.If) and any(x is n for x in ast.walk(i.test))]
                if ex and holder and not (len(holder[0].body) == 1 and isinstance(holder[0].body[0], ast.Return) and (holder[0].body[0].value is None or (isinstance(holder[0].body[0].value, ast.Constant) and holder[0].body[0].value.value is None)) and not isinstance(holder[0].test, ast.UnaryOp)):
                    out["defect"] = "the rule is not silent exactly when some member is 0"
            elif isinstance(n, ast.For) and len(n.body) == 1 and isinstance(n.body[0], ast.If) and len(n.body[0].body) == 1 and isinstance(n.body[0].body[0], ast.Return):
                r_ = n.body[0].body[0]
                from .exists import _canon

                ex = _canon(n.iter, n.target, n.body[0].test)
                if not (r_.value is None or (isinstance(r_.value, ast.Constant) and r_.value.value is None)):
                    out["defect"] = "the rule is not silent exactly when some member is 0"
        if ex is not None and ex[0] == f"{dname}.fields()" and ex[1].replace(" ", "") in ("_v0.value==0", "0==_v0.value"):
            kinds.add("has-zero")
            last = chk_node.body[-1]
            if not (isinstance(last, ast.Return) and isinstance(last.value, ast.Call)):
                out["defect"] = "without a member 0 the rule does not warn"
        elif ex is not None:
            out["search"] = ex
    # indent: folded over a grid of (indent, nesting depth)
    if not kinds and any(k_[0] == "cmp" and "definition.indent" in show(k_[2]) for p_ in paths for k_, _ in p_.guards):
        kinds.add("indent")
        for ind_ in (-1, 0, 2, 4, 8, 12):
            for depth in (0, 1, 2, 3, 4):
                repl = by_name({"definition.indent": ind_}, {"len": depth})
                live = [p_ for p_ in paths if all(lit_value(k_, t_, repl) is not False for k_, t_ in p_.guards)]
                undecided = [p_ for p_ in live if any(lit_value(k_, t_, repl) is None for k_, t_ in p_.guards)]
                expect = 4 * (depth - 1)
                want = ind_ > 0 and expect >= 0 and ind_ != expect
                if undecided or len(live) != 1:
                    out["kind"] = "?"
                    out["why"] = f"indent={ind_}, depth={depth}: {len(live)} feasible paths, {len(undecided)} undecided"
                    return out
                if warned(live[0]) != want:
                    out["defect"] = f"with indent {ind_} at nesting depth {depth} (expected indent {expect}) the rule " + ("warns" if warned(live[0]) else "is silent")
    out["kind"] = next(iter(kinds)) if len(kinds) == 1 else ("?" if not kinds else "+".join(sorted(kinds)))
    return out


@rule("C7", "each lint rule tests the style-guide convention of the kind it targets")
def c7(repo: Repo) -> RuleResult:
    res = RuleResult("C7", floor=8)
    m = get_model(repo)
    lm = m.mod("bitproto/linter.py")
    base = lm.classes.get("Rule")
    if base is None:
        raise Inconclusive("linter.py: Rule vanished")
    seen: Dict[str, Set[str]] = {}
    for c in lm.classes.values():
        if c is base or not m.is_subclass(c, base):
            continue
        tc = m.lookup(c, "target_class")
        chk = m.lookup(c, "check")
        if tc is None or chk is None or tc.cls is base or chk.cls is base:
            continue  # abstract (intermediate) classes: their concrete subclasses are the rules
        target = next((n.value.id for n in ast.walk(tc.node) if isinstance(n, ast.Return) and isinstance(n.value, ast.Name)), None)
        try:
            sm = _lint_rule_summary(repo, lm, c, chk)
        except Inconclusive as e:
            res.unsure(f"C7: {c.name}.check: {e}")
            continue
        kind = sm["kind"]
        res.inst(rule=c.name, target=target, predicate=kind, paths=sm["paths"])
        allowed = LINT_CONVENTIONS.get(target or "")
        if allowed is None:
            res.unsure(f"C7: {c.name} targets {target}, for which the style guide table has no convention")
            continue
        if kind == "?" or "+" in kind:
            res.unsure(f"C7: predicate of {c.name}.check is not an enumerated idiom" + (f" ({sm.get('why') or sm.get('search')})" if sm.get("why") or sm.get("search") else ""))
            continue
        if kind not in allowed:
            res.bad(Finding("C7", lm.rel, chk.node.lineno, f"{c.name}.check", kind, f"the rule for {target} tests the `{kind}` convention; the style guide asks {allowed} for this kind", witness=f"a conforming {target} name is warned about / a violating one passes", tag=f"{c.name}:kind"))
        seen.setdefault(target or "", set()).add(kind)
        if sm["defect"]:
            tag = "indent:cond" if kind == "indent" else f"{c.name}:polarity"
            res.bad(Finding("C7", lm.rel, chk.node.lineno, f"{c.name}.check", sm["defect"], f"the warning is not returned exactly when the {kind} convention is broken: {sm['defect']}", tag=tag))
    for target, need in (("Alias", "pascal"), ("Enum", "pascal"), ("Enum", "has-zero"), ("Message", "pascal"), ("MessageField", "snake"), ("Constant", "upper"), ("EnumField", "upper"), ("BoundDefinition", "indent")):
        if need not in seen.get(target, set()):
            res.bad(Finding("C7", lm.rel, 0, "linter", f"{target}:{need}", f"no lint rule tests the `{need}` convention for {target}", witness=f"a {target} violating it lints clean", tag=f"missing:{target}:{need}"))
    return res


# --------------------------------------------------------------------------
# C5 naming tables and API name templates
# --------------------------------------------------------------------------

# which converters are the identity on style-guide names of a kind
# (assumption about utils.py stated in the evidence, not decided here)
IDENTITY_ON = {
    "UPPER_SNAKE": {"keep", "upper", ("snake", "upper"), ("upper",), ("keep",)},
    "Pascal": {"keep", "pascal", ("pascal",), ("keep",)},
    "snake": {"keep", "snake", ("snake",), ("keep",)},
}
KIND_STYLE = {"Constant": "UPPER_SNAKE", "EnumField": "UPPER_SNAKE", "Alias": "Pascal", "Enum": "Pascal", "Message": "Pascal", "MessageField": "snake"}
# transformations the statement fixes
REQUIRED = {
    ("c", "Message"): {"pascal", ("pascal",)},  # Zoo_Monkey -> ZooMonkey
    ("py", "Message"): {"keep", ("keep",)},  # Zoo_Monkey
    ("go", "MessageField"): {"pascal", ("pascal",)},  # exported struct fields
    # members of an enum nested in messages are named <EnclosingMessages>_<MEMBER>; the PascalCase
    # message names have to become UPPER_SNAKE words (as in BYTES_LENGTH_<UPPER_SNAKE_NAME>)
    ("c", "EnumField"): {("snake", "upper")},
    ("go", "EnumField"): {("snake", "upper")},
    ("py", "EnumField"): {("snake", "upper")},
}
FORMATTERS = {"c": ("impls/c/formatter.py", "CFormatter"), "go": ("impls/go/formatter.py", "GoFormatter"), "py": ("impls/py/formatter.py", "PyFormatter")}


def read_case_style_mapping(repo: Repo, lang: str) -> Dict[str, Any]:
    """The table the formatter's case_style_mapping() returns, evaluated on its
    paths (module constants and the CaseStyleMapping(...) wrapper are seen through)."""
    from .flows import compiler_flow
    from .pyflow import single_atom, str_of

    m = get_model(repo)
    rel, cn = FORMATTERS[lang]
    fi = m.func(rel, f"{cn}.case_style_mapping")
    flow = compiler_flow(repo, cn, rel, module_funcs=True)
    tables = []
    for p_ in flow.run(fi.node):
        if p_.done != "return" or p_.ret is None:
            continue
        a_ = single_atom(p_.ret)
        while a_ is not None and a_[0] == "call" and len(a_[2]) == 1 and a_[1] in ("CaseStyleMapping", "dict", "Dict"):
            a_ = single_atom(a_[2][0])
        if a_ is None or a_[0] != "dict":
            raise Inconclusive(f"{cn}.case_style_mapping: returns `{show_poly(p_.ret)}`, not a table")
        out: Dict[str, Any] = {}
        for k, v in zip(a_[1], a_[2]):
            ka = single_atom(k)
            if ka is None or ka[0] != "var":
                raise Inconclusive(f"{cn}.case_style_mapping: key {show_poly(k)} is not a class name")
            sv = str_of(v)
            va = single_atom(v)
            if sv is not None:
                out[ka[1]] = sv
            elif va is not None and va[0] == "tuple" and all(str_of(x) is not None for x in va[1]):
                out[ka[1]] = tuple(str_of(x) for x in va[1])
            else:
                raise Inconclusive(f"{cn}.case_style_mapping: value {show_poly(v)} is not a literal")
        tables.append(out)
    if not tables or any(t != tables[0] for t in tables):
        raise Inconclusive(f"{cn}.case_style_mapping: no single table")
    return tables[0]


def effective_style(m: Model, table: Dict[str, Any], kind: str) -> Any:
    c = m.cls(kind, "_ast.py")
    for k in m.mro(c):
        if k.name in table:
            return table[k.name]
    return "keep"


def _unroll_enum_iteration(fn: ast.FunctionDef, cls_node: ast.ClassDef) -> ast.FunctionDef:
    """`for X in cls: BODY` in a classmethod of an Enum class, written out member by member in
    definition order, with `X.name` the member's identifier and X the member (`cls.M`).  Only when
    BODY does not store X and has no break / continue."""
    import copy

    from .core import link_parents

    members = [t.id for st in cls_node.body if isinstance(st, ast.Assign) for t in st.targets if isinstance(t, ast.Name) and t.id.isupper()]
    cls_param = fn.args.args[0].arg if fn.args.args else "cls"
    new_fn = copy.deepcopy(fn)
    changed = False

    def visit(block: List[ast.stmt]) -> List[ast.stmt]:
        nonlocal changed
        out: List[ast.stmt] = []
        for st in block:
            for field in ("body", "orelse", "finalbody"):
                sub = getattr(st, field, None)
                if isinstance(sub, list) and sub and isinstance(sub[0], ast.stmt):
                    setattr(st, field, visit(sub))
            if isinstance(st, ast.For) and isinstance(st.target, ast.Name) and isinstance(st.iter, ast.Name) and st.iter.id in (cls_param, cls_node.name) and not st.orelse and members and not any(isinstance(x, (ast.Break, ast.Continue)) for b in st.body for x in ast.walk(b)) and not any(isinstance(x, ast.Name) and x.id == st.target.id and isinstance(x.ctx, ast.Store) for b in st.body for x in ast.walk(b)):
                var = st.target.id
                for mname in members:
                    class T(ast.NodeTransformer):
                        def visit_Attribute(self, n: ast.Attribute) -> Any:
                            if isinstance(n.value, ast.Name) and n.value.id == var and n.attr == "name":
                                return ast.copy_location(ast.Constant(value=mname), n)
                            return self.generic_visit(n)

                        def visit_Name(self, n: ast.Name) -> Any:
                            if n.id == var and isinstance(n.ctx, ast.Load):
                                return ast.copy_location(ast.Attribute(value=ast.Name(id=st.iter.id, ctx=ast.Load()), attr=mname, ctx=ast.Load()), n)
                            return n

                    for b in st.body:
                        nb = T().visit(copy.deepcopy(b))
                        ast.fix_missing_locations(nb)
                        out.append(nb)
                changed = True
                continue
            out.append(st)
        return out

    new_fn.body = visit(new_fn.body)
    if not changed:
        return fn
    link_parents(new_fn)
    par = getattr(fn, "_parent", None)
    if par is not None:
        new_fn._parent = par  # type: ignore[attr-defined]
    return new_fn


@rule("C5", "case-style tables keep style-guide names (except where the scheme fixes a transformation); name templates follow the documented scheme")
def c5(repo: Repo) -> RuleResult:
    res = RuleResult("C5", floor=25)
    m = get_model(repo)
    for lang in ("c", "go", "py"):
        table = read_case_style_mapping(repo, lang)
        for v in table.values():
            if not isinstance(v, (str, tuple)) or (isinstance(v, tuple) and not all(isinstance(x, str) for x in v)):
                res.bad(Finding("C5", FORMATTERS[lang][0], 0, f"{FORMATTERS[lang][1]}.case_style_mapping", repr(v), "a mapping value is neither a style name nor a tuple of style names (format_case_style raises InternalError)", tag=f"{lang}:value-type"))
        for kind, style in KIND_STYLE.items():
            eff = effective_style(m, table, kind)
            allowed = REQUIRED.get((lang, kind)) or IDENTITY_ON[style]
            res.inst(part=lang, kind=kind, effective=repr(eff), allowed=sorted(map(repr, allowed)))
            known = {"keep", "snake", "upper", "pascal"}
            names = (eff,) if isinstance(eff, str) else tuple(eff)
            # unknown style names fall back to keep in CaseStyle.from_name
            norm = tuple(n if n in known else "keep" for n in names)
            norm_v: Any = norm[0] if len(norm) == 1 else norm
            if norm_v not in allowed and norm not in allowed:
                f = Finding("C5", "compiler/bitproto/renderer/" + FORMATTERS[lang][0], 0, f"{FORMATTERS[lang][1]}.case_style_mapping", f"{kind}: {eff!r}", f"{lang}: {kind} names are converted with {eff!r}; the naming scheme allows {sorted(map(repr, allowed))} (style-guide names must come out unchanged" + (", except the fixed transformation)" if (lang, kind) in REQUIRED else ")"), witness={"Message": "message Zoo { message Monkey {} }", "Constant": "const MAX_LEN = 1", "MessageField": "uint8 my_field = 1", "Enum": "enum Color : uint3 {}", "Alias": "type Timestamp = int64", "EnumField": "COLOR_RED = 1"}[kind], tag=f"{lang}:{kind}")
                f.part = lang
                res.bad(f)

    # converter table: style name -> function, evaluated through from_name() and converter()
    from .emit import block_flow, emitted
    from .flows import compiler_flow
    from .normal import C as K, V, show
    from .pyflow import S as STR, single_atom
    from .rules_d3 import _ret_shapes

    fm = m.mod("renderer/formatter.py")
    cs = fm.classes.get("CaseStyle")
    if cs is None or "converter" not in cs.methods or "from_name" not in cs.methods:
        res.unsure("C5: CaseStyle.from_name / converter vanished")
    else:
        want = {"snake": "snake_case", "upper": "upper_case", "pascal": "pascal_case", "keep": "keep_case", "no-such-style": "keep_case"}
        resolved: Dict[str, Any] = {}
        try:
            fl = compiler_flow(repo, "CaseStyle", "renderer/formatter.py", module_funcs=True)
            fn_from, fn_conv = _unroll_enum_iteration(cs.methods["from_name"].node, cs.node), cs.methods["converter"].node
            pn = [a.arg for a in fn_from.args.args]
            for nme in want:
                members = sorted({show(p_.ret) for p_ in fl.run(fn_from, {pn[0]: V("cls"), pn[1]: STR(nme)}) if p_.done == "return" and p_.ret is not None})
                if len(members) != 1:
                    resolved[nme] = f"<{len(members)} members>"
                    continue
                mv = [p_.ret for p_ in fl.run(fn_from, {pn[0]: V("cls"), pn[1]: STR(nme)}) if p_.done == "return"][0]
                funcs = sorted({show(p_.ret) for p_ in fl.run(fn_conv, {fn_conv.args.args[0].arg: mv}) if p_.done == "return" and p_.ret is not None})
                resolved[nme] = funcs[0] if len(funcs) == 1 else f"<{len(funcs)} converters: {funcs}>"
        except Inconclusive as e:
            res.unsure(f"C5: CaseStyle: {e}")
        res.inst(part="common", resolved=resolved)
        for nme, fnn in want.items():
            got = resolved.get(nme)
            if got == fnn:
                continue
            if got is None or got.startswith("<"):
                res.unsure(f"C5: CaseStyle: style name {nme!r} resolves to {got}")
                continue
            f = Finding("C5", fm.rel, cs.node.lineno, "CaseStyle", f"{nme} -> {got}", f"style name {nme!r} does not resolve to {fnn}()" + (f" (it resolves to {got}())" if got else ""), witness="a table entry 'snake' converts names with another function", tag=f"CaseStyle:{nme}")
            f.part = "common"
            res.bad(f)

    # nested names: prefix + enclosing names outermost first + own name
    fi = m.func("renderer/formatter.py", "Formatter._format_definition_name_inner_proto")
    res.inst(part="common", where=fi.qual)
    try:
        strs = ("_get_definition_name_prefix", "_get_definition_name", "delimer_inner_proto")
        fl = compiler_flow(repo, "Formatter", "renderer/formatter.py", inline=lambda n_, f_: False, stringy_calls=strs, pure=strs + ("scopes_with_namespace",))
        paths = [p_ for p_ in fl.run(fi.node, {"self": V("self"), fi.node.args.args[1].arg: V("d")}) if p_.done == "return" and p_.ret is not None]
        PRE = "self._get_definition_name_prefix(d)"
        OWN = "self._get_definition_name(d)"
        for p_ in paths:
            shape = show(p_.ret)
            a_ = single_atom(p_.ret)
            parts = list(a_[1]) if a_ is not None and a_[0] == "tpl" else None
            if parts is None or not parts or isinstance(parts[0], str) or show(parts[0]) != PRE or shape.count(PRE) != 1:
                if PRE in shape or OWN in shape:
                    f = Finding("C5", fi.rel, fi.node.lineno, fi.qual, shape, "the name is not prefix + joined names (prefix in front, once)", witness="c.name_prefix = \"My\": struct names come out without / with a misplaced prefix", tag="inner_proto:prefix")
                    f.part = "common"
                    res.bad(f)
                else:
                    res.unsure(f"C5: {fi.qual}: returned value `{shape}` not recognised")
                continue
            loops = [e for e in p_.effects if e.kind == "loop"]
            if not loops:
                if OWN not in shape:
                    res.unsure(f"C5: {fi.qual}: a path returns `{shape}` without the definition's own name")
                elif ".join(" in shape:
                    f = Finding("C5", fi.rel, fi.node.lineno, fi.qual, shape, "names are joined on a path that does not walk the enclosing scopes: only a fixed number of enclosing names can precede the definition's own name, deeper nesting loses its outer names", witness="message Node { message Link { message Hdr {} } } comes out as Link_Hdr and collides with a file-level Link.Hdr", tag="inner_proto:depth")
                    f.part = "nesting"
                    res.bad(f)
                continue
            lp = loops[0]
            it = show(lp.args[0]) if lp.args else ""
            rev = it.endswith("[::-1]") or it.startswith("reversed(")
            ins = [c_ for b_ in (lp.sub or []) for c_ in b_.effects if c_.kind == "call" and c_.name in ("insert", "append")]
            kinds = {(c_.name, show(c_.args[0]) if c_.name == "insert" and c_.args else "") for c_ in ins}
            front = kinds == {("insert", "0")}
            back = kinds == {("append", "")}
            # [own] + names appended innermost first, the whole list reversed where it is joined
            final_rev = ".join(reversed(" in shape.replace(" ", "") or "[::-1])" in shape.replace(" ", "")
            if ((rev and front) or ((not rev) and back and "namespace" in it)) and not final_rev:
                pass
            elif rev and back and final_rev:
                pass
            elif (rev and back) or ((not rev) and front):
                f = Finding("C5", fi.rel, fi.node.lineno, fi.qual, f"iterates {it}; {sorted(kinds)}", "enclosing scope names are not joined outermost first before the definition's own name", witness="message Zoo { message Cage { message Monkey {} } } must be Zoo_Cage_Monkey", tag="inner_proto:order")
                f.part = "common"
                res.bad(f)
            else:
                res.unsure(f"C5: {fi.qual}: enclosing names are collected by `{it}` / {sorted(kinds)}: order not recognised")
    except Inconclusive as e:
        res.unsure(f"C5: {fi.qual}: {e}")

    # API name templates
    def expect_return(relsfx: str, cn: str, meth: str, wants: Tuple[str, ...], part: str, what: str) -> None:
        qual = f"{cn}.{meth}"
        try:
            f2 = m.func(relsfx, qual)
            rets = _ret_shapes(repo, cn, relsfx, meth, pure=("upper_case", "snake_case", "pascal_case"))
        except Inconclusive as e:
            res.unsure(f"C5: {e}")
            return
        res.inst(part=part, where=qual, template=rets)
        if not rets or not all(r in wants for r in rets):
            f = Finding("C5", f2.rel, f2.node.lineno, qual, str(rets), f"{what}: template is {rets}, documented {list(wants)}", tag=f"{qual}:template")
            f.part = part
            res.bad(f)

    expect_return("impls/c/renderer_h.py", "BlockMessageEncoderBase", "function_name", ("Encode{self.message_name}",), "c", "C encoder name")
    expect_return("impls/c/renderer_h.py", "BlockMessageDecoderBase", "function_name", ("Decode{self.message_name}",), "c", "C decoder name")
    expect_return("impls/c/renderer_h.py", "BlockMessageJsonFormatterBase", "function_name", ("Json{self.message_name}",), "c", "C json function name")
    expect_return("renderer/block.py", "BlockBindMessage", "message_size_constant_name", ("BYTES_LENGTH_{upper_case(snake_case(self.message_name))}",), "common", "size constant name")
    expect_return("impls/py/renderer.py", "BlockMessageBase", "message_size_constant_name", ("BYTES_LENGTH",), "py", "Python size constant name")
    expect_return("renderer/block.py", "BlockBindMessage", "message_name", ("{self.formatter.format_message_name(self.d)}",), "common", "message name")

    # output file name
    fo = m.func("renderer/formatter.py", "Formatter.format_out_filename")
    pa = [a.arg for a in fo.node.args.args]
    ext = pa[2] if len(pa) > 2 else "extension"
    from .pyflow import tpl_shape

    shapes: List[Tuple[Optional[bool], str]] = []
    try:
        fl = compiler_flow(repo, "Formatter", "renderer/formatter.py", inline=lambda n_, f_: False, pure=("basename", "splitext"))
        for p_ in fl.run(fo.node):
            if p_.done != "return" or p_.ret is None:
                continue
            has_path = None
            for k_, t_ in p_.guards:
                if k_[0] in ("truthy", "isnone") and show(k_[1]) == "proto.filepath":
                    has_path = t_ if k_[0] == "truthy" else (not t_)
            shapes.append((has_path, tpl_shape(p_.ret) or "{" + show(p_.ret) + "}"))
    except Inconclusive as e:
        res.unsure(f"C5: {fo.qual}: {e}")
    res.inst(part="common", where=fo.qual, shapes=shapes)
    from_file = "{os.path.splitext(os.path.basename(proto.filepath))[0]}_bp{%s}" % ext
    from_name = "{proto.name}_bp{%s}" % ext
    for has_path, shp in shapes:
        ok_ = shp == from_file if has_path is not False else shp == from_name
        if ok_:
            continue
        if shp == from_name or "_bp" not in shp or not shp.endswith("{%s}" % ext) or "basename" not in shp:
            f = Finding("C5", fo.rel, fo.node.lineno, fo.qual, shp, "the output file name is not <schema file base name> + '_bp' + extension" + (" (the proto's name is used although the file path is known)" if shp == from_name else ""), witness="foo.bitproto with `proto bar` -> foo_bp.h", tag="out_filename")
            f.part = "common"
            res.bad(f)
        elif re.search(r"basename\(proto\.filepath\.(partition|split|rpartition|rsplit)\(", shp) or re.search(r"proto\.filepath\.(partition|split)\('\.'", shp):
            f = Finding("C5", fo.rel, fo.node.lineno, fo.qual, shp, "the extension is cut from the whole path, not from the file's base name: a dot in a directory part of the path (./x.bitproto, ../protos/x.bitproto, dir.v1/x.bitproto) changes the output file name, the #include and the import lines", witness="bitproto c ./main.bitproto  ->  _bp.h instead of main_bp.h", tag="out-filename:whole-path")
            f.part = "outfile"
            res.bad(f)
        elif re.search(r"basename\(proto\.filepath\)\.(partition|split)\('\.'(, *\d+)?\)\[0\]", shp) or re.search(r"basename\(proto\.filepath\)\[: *[^\]]*\.(find|index)\('\.'\)\]", shp):
            f = Finding("C5", fo.rel, fo.node.lineno, fo.qual, shp, "the schema file's base name is cut at its FIRST dot: only the extension (the part after the last dot) is to be removed", witness="telemetry.v1.bitproto and telemetry.v2.bitproto both generate telemetry_bp.*: one silently overwrites the other", tag="out-filename:first-dot")
            f.part = "outfile"
            res.bad(f)
        elif re.fullmatch(r"\{os\.path\.basename\(proto\.filepath\)\.(rpartition\('\.'\)\[0\]|rsplit\('\.', *1\)\[0\])\}_bp\{%s\}" % re.escape(ext), shp):
            continue  # the same as splitext for names with an extension (schema files have one)
        else:
            res.unsure(f"C5: {fo.qual}: returned shape {shp} not recognised")
    for lang, relsfx, cn, ext_ in (("c", "impls/c/renderer_c.py", "RendererC", ".c"), ("c", "impls/c/renderer_h.py", "RendererCHeader", ".h"), ("go", "impls/go/renderer.py", "RendererGo", ".go"), ("py", "impls/py/renderer.py", "RendererPy", ".py")):
        f2 = m.func(relsfx, f"{cn}.file_extension")
        try:
            got = _ret_shapes(repo, cn, relsfx, "file_extension")
        except Inconclusive:
            got = [n.value.value for n in ast.walk(f2.node) if isinstance(n, ast.Return) and isinstance(n.value, ast.Constant)]
        res.inst(part=lang, where=f2.qual, extension=got)
        if got != [ext_]:
            f = Finding("C5", f2.rel, f2.node.lineno, f2.qual, str(got), f"file extension is {got}, documented {ext_}", tag=f"{cn}:ext")
            f.part = lang
            res.bad(f)

    # Go: JSON tag = snake(field name); Go/Py API method names - from what the blocks push
    def lines_of(cn: str, relsfx: str, fcn: str, frel: str) -> List[str]:
        c_ = m.cls(cn, relsfx)
        out: List[str] = []
        for meth in ("render", "before", "after"):
            fn_ = m.lookup(c_, meth)
            if fn_ is None or fn_.cls is None or not fn_.cls.rel.endswith(relsfx):
                continue
            flow = block_flow(repo, cn, relsfx, fcn, frel, {}, keep=("format_comment", "format_docstring", "format_message_name", "format_type", "format_message_field_name", "format_int_value"), pure=("snake_case", "upper_case", "pascal_case"))
            ems, _, _ = emitted(flow, fn_.node)
            for e_ in ems:
                out.extend(t for _, t in e_)
        return out

    sq = lambda x: "".join(x.split())
    checks = [
        ("go", "BlockMessageField", ['`json:"{snake_case(self.message_field_name)}"`'], "Go struct field JSON tag = snake_case(field name)"),
        ("go", "BlockMessageMethodEncode", ["func (m *{self.message_name}) Encode() []byte {"], "Go Encode method"),
        ("go", "BlockMessageMethodDecode", ["func (m *{self.message_name}) Decode(s []byte) {"], "Go Decode method"),
        ("go", "BlockMessageMethodSize", ["func (m *{self.message_name}) Size() uint32 {"], "Go Size method"),
        ("go", "BlockMessageSizeConst", ["const {self.message_size_constant_name} uint32 = {self.message_nbytes}"], "Go size constant"),
        ("py", "BlockMessageMethodEncode", ["def encode(self) -> bytearray:"], "Python encode method"),
        ("py", "BlockMessageMethodDecode", ["def decode(self, s: bytearray) -> None:"], "Python decode method"),
        ("py", "BlockMessageClass", ["class {self.message_name}(bp.MessageBase):"], "Python message class derives bp.MessageBase (to_json/to_dict)"),
    ]
    for lang, cn, needles, what in checks:
        relsfx = f"impls/{lang}/renderer.py"
        frel, fcn = FORMATTERS[lang]
        res.inst(part=lang, where=cn, what=what)
        try:
            lines = lines_of(cn, relsfx, fcn, frel)
        except Inconclusive as e:
            res.unsure(f"C5: {lang} renderer class {cn}: {e}")
            continue
        for nd in needles:
            if not any(sq(nd) in sq(t) for t in lines):
                f = Finding("C5", m.mod(relsfx).rel, m.cls(cn, relsfx).node.lineno, cn, nd, f"{what}: expected template piece `{nd}` not emitted (emitted: {lines[:3]})", tag=f"{cn}:{nd[:30]}")
                f.part = lang
                res.bad(f)
    bp = m.mod("bitprotolib/bp.py")
    mb = bp.classes.get("MessageBase")
    res.inst(part="py", where="bp.MessageBase", methods=sorted(mb.methods) if mb else None)
    if mb is None or not {"to_json", "to_dict"} <= set(mb.methods):
        f = Finding("C5", bp.rel, 0, "MessageBase", "", "bp.MessageBase does not offer to_json and to_dict", tag="MessageBase:api")
        f.part = "py"
        res.bad(f)

    # prefix option flows only through _get_definition_name_prefix; C macros upper-case it via the Constant/EnumField styles
    gp = m.func("renderer/formatter.py", "Formatter._get_definition_name_prefix")
    res.inst(part="common", where=gp.qual)
    res.inst(part="owner", where=gp.qual, what="the prefix option is read from the proto the definition is bound to")
    recv_src = None
    reads_option = False
    try:
        fl = compiler_flow(repo, "Formatter", "renderer/formatter.py", inline=lambda n_, f_: False, pure=("definition_name_prefix_option_name",))
        for p_ in fl.run(gp.node, {"self": V("self"), gp.node.args.args[1].arg: V("d")}):
            for e in p_.effects:
                if e.kind == "call" and e.name == "get_option_as_string_or_raise":
                    recv_src = show(e.recv) if e.recv is not None else "?"
                    if e.args and show(e.args[0]) == "self.definition_name_prefix_option_name()":
                        reads_option = True
    except Inconclusive as e:
        res.unsure(f"C5: {gp.qual}: {e}")
    if recv_src is not None and not recv_src.endswith(".bound"):
        f = Finding("C5", gp.rel, gp.node.lineno, gp.qual, str(recv_src), f"the name prefix is read from `{recv_src}`, not from the proto the definition is bound to: an imported definition is named with another file's prefix in the importing file", witness="two files with different c.name_prefix, one importing the other: the importer refers to struct names the imported header does not declare", tag="prefix:owner")
        f.part = "owner"
        res.bad(f)
    if not reads_option:
        f = Finding("C5", gp.rel, gp.node.lineno, gp.qual, "", "the name prefix is not read from the bound proto's prefix option", tag="prefix:source")
        f.part = "common"
        res.bad(f)
    # an imported definition is qualified with the name the importing file gave the import
    # (what the generated import statement binds), looked up by identity in the parent scope
    try:
        from .pyflow import single_atom as _sa

        flq = compiler_flow(repo, "Formatter", "renderer/formatter.py", inline=lambda n_, f_: n_.startswith("_") and n_ not in ("_get_definition_name", "_get_definition_name_prefix", "_format_definition_name_inner_proto", "_get_ctx_or_raise"))
        for qn in ("format_definition_name", "format_name_related_to_definition"):
            fq = m.func("renderer/formatter.py", f"Formatter.{qn}")
            nq = 0
            for p_ in flq.run(fq.node, {"self": V("self"), fq.node.args.args[1].arg: V("d")}):
                if p_.done != "return" or p_.ret is None:
                    continue
                a_ = _sa(p_.ret)
                if a_ is None or a_[0] != "join":
                    continue
                sep, seq = a_[1], _sa(a_[2])
                if "delimer_cross_proto" not in show(sep) or seq is None or seq[0] != "tuple" or len(seq[1]) != 2:
                    res.unsure(f"C5: {qn}: cross-file name `{show(p_.ret)}` is not <qualifier><delimiter><name>")
                    continue
                nq += 1
                qa = _sa(seq[1][0])
                res.inst(part="qualifier", where=f"Formatter.{qn}", qualifier=show(seq[1][0]))
                if qa is not None and qa[0] == "mcall" and qa[1] == "_get_definition_name":
                    continue
                f = Finding("C5", fq.rel, fq.node.lineno, f"Formatter.{qn}", show(seq[1][0]), f"an imported definition is qualified with `{show(seq[1][0])}`, not with the name the import has in the importing file (self._get_definition_name(<imported proto>))", witness='import sd "shared_defs.bitproto" where the file declares `proto shared`: generated Go / Python refers to shared.X while only sd is bound', tag=f"qualifier:{qn}")
                f.part = "qualifier"
                res.bad(f)
            if nq == 0:
                res.unsure(f"C5: {qn}: no path builds a cross-file name")
        fq = m.func("renderer/formatter.py", "Formatter._get_definition_name")
        okq = False
        badq = None
        for p_ in flq.run(fq.node, {"self": V("self"), fq.node.args.args[1].arg: V("d")}):
            if p_.done != "return" or p_.ret is None:
                continue
            a_ = _sa(p_.ret)
            empty_stack = any(k[0] == "cmp" and "len(d.scope_stack)" in show(k[2]) and t for k, t in p_.guards) or any(k[0] == "truthy" and show(k[1]) == "d.scope_stack" and not t for k, t in p_.guards)
            if a_ is not None and a_[0] == "mcall" and a_[1] == "get_name_by_member" and len(a_[2]) == 2 and show(a_[2][0]) == "d.scope_stack[-1]" and show(a_[2][1]) == "d":
                okq = True
            elif show(p_.ret) == "d.name":
                # the fallback: only without a parent scope or when the parent does not know the member
                if not empty_stack and not any(k[0] == "truthy" and "get_name_by_member" in show(k[1]) and not t for k, t in p_.guards):
                    badq = "d.name is returned although the parent scope was not asked"
            else:
                badq = f"returns `{show(p_.ret)}`"
        res.inst(part="qualifier", where="Formatter._get_definition_name", asks_parent=okq)
        if badq or not okq:
            f = Finding("C5", fq.rel, fq.node.lineno, "Formatter._get_definition_name", badq or "", "the name of a definition in its parent scope is not looked up with the parent's get_name_by_member(d): " + (badq or "no path asks the parent scope"), witness='import sd "shared_defs.bitproto": the `as` name is ignored', tag="qualifier:_get_definition_name")
            f.part = "qualifier"
            res.bad(f)
    except Inconclusive as e:
        res.unsure(f"C5: qualifier: {e}")
    # the names blocks declare things under are the formatter's names of the bound definition
    # (the ones every reference is spelled with), never the raw schema name
    BIND = {
        ("BlockBindAlias", "alias_name"): "self.formatter.format_alias_name(self.d)",
        ("BlockBindAlias", "aliased_type"): "self.formatter.format_type(self.d.type, name=self.formatter.format_alias_name(self.d))",
        ("BlockBindConstant", "constant_name"): "self.formatter.format_constant_name(self.d)",
        ("BlockBindEnum", "enum_name"): "self.formatter.format_enum_name(self.d)",
        ("BlockBindEnumField", "enum_field_name"): "self.formatter.format_enum_field_name(self.d)",
        ("BlockBindMessage", "message_name"): "self.formatter.format_message_name(self.d)",
        ("BlockBindMessageField", "message_field_name"): "self.formatter.format_message_field_name(self.d)",
        ("BlockBindMessageField", "message_field_type"): "self.formatter.format_type(self.d.type, name=self.formatter.format_message_field_name(self.d))",
    }
    for (cn_, pn_), want_ in BIND.items():
        try:
            ci_ = m.cls(cn_, "renderer/block.py")
            fi_ = m.lookup(ci_, pn_)
            if fi_ is None:
                res.unsure(f"C5: {cn_}.{pn_} vanished")
                continue
            flb = compiler_flow(repo, cn_, "renderer/block.py", inline=lambda n_, f_: n_ != "formatter" and any("property" in src_of(d_) for d_ in f_.decorator_list) or n_.startswith("_") and n_ != "_get_ctx_or_raise", inline_props=True, module_funcs=True)
            vals_ = sorted({show(p_.ret) for p_ in flb.run(fi_.node, {"self": V("self")}) if p_.done == "return" and p_.ret is not None})
        except Inconclusive as e:
            res.unsure(f"C5: {cn_}.{pn_}: {e}")
            continue
        res.inst(part="binding", where=f"{cn_}.{pn_}", value=vals_)
        if vals_ == [want_]:
            continue
        raw = [v_ for v_ in vals_ if re.search(r"(self\.d\.name|self\.name)\b", v_)]
        if raw:
            f = Finding("C5", fi_.rel, fi_.node.lineno, f"{cn_}.{pn_}", raw[0], f"`{pn_}` is built from the raw schema name (`{raw[0]}`), the rest of the generated code refers to the definition by `{want_}`: with a name prefix / case style / nesting the declaration and its uses disagree", witness="option c.name_prefix = \"Tm\"; type MacAddress = byte[6]: `typedef unsigned char MacAddress[6];` while fields are declared `TmMacAddress`", tag=f"binding:{cn_}.{pn_}")
            f.part = "binding"
            res.bad(f)
        else:
            res.unsure(f"C5: {cn_}.{pn_} evaluates to {vals_}, expected `{want_}`")
    users = []
    for mod in m.mods.values():
        if "/renderer/" in mod.rel:
            for n in ast.walk(mod.tree):
                if isinstance(n, ast.Call) and isinstance(n.func, ast.Attribute) and n.func.attr == "_get_definition_name_prefix":
                    users.append(qualname(n))
    res.inst(part="common", prefix_users=users)
    if set(users) != {"Formatter._format_definition_name_inner_proto"}:
        f = Finding("C5", "compiler/bitproto/renderer/formatter.py", 0, "Formatter", str(users), "the name prefix is used outside the definition-name builder (the option must change names only)", tag="prefix:users")
        f.part = "common"
        res.bad(f)
    for lang in ("go", "py"):
        rel, cn = FORMATTERS[lang]
        c = m.cls(cn, rel)
        if "definition_name_prefix_option_name" in c.methods:
            f = Finding("C5", c.rel, c.node.lineno, cn, "", "a name-prefix option is defined for a language the documentation gives none", tag=f"{cn}:prefix")
            f.part = lang
            res.bad(f)
    return res
