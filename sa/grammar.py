"""
E3 - model of the bitproto grammar and lexer, read from grammars.py,
parser.py and lexer.py (parse only).

  * productions from the r_* strings, bound to p_* actions through
    @override_docstring(r_x) (or a plain docstring)
  * lexer: tokens, literals, keywords, t_* regexes (string and function rules)
  * derived: terminals / nonterminals, nullable alternatives, which
    nonterminals carry ply position tracking (copy_p_tracking closure), and
    the value kind each action assigns to p[0]
"""

from __future__ import annotations

import ast
import re
from dataclasses import dataclass, field
from typing import Any, Dict, List, Optional, Set, Tuple

from .core import Inconclusive, Repo, parent, src_of

GRAMMARS = "compiler/bitproto/grammars.py"
PARSER = "compiler/bitproto/parser.py"
LEXER = "compiler/bitproto/lexer.py"


@dataclass
class Production:
    lhs: str
    alts: List[List[str]]  # each alternative: list of symbols
    var: str  # r_* variable name


@dataclass
class Action:
    name: str  # p_xxx
    node: ast.FunctionDef
    prods: List[Production]


def lower_enumerate_counters(fn: ast.FunctionDef) -> ast.FunctionDef:
    """`i = 0 ... for i, T in enumerate(G, start=1): BODY` is `i = 0 ... for T in G: i += 1; BODY`
    (the same values of i inside BODY and after the loop).  Rewritten only when `i = 0` precedes
    the loop in the same block with no other store to i in between and BODY does not store i."""
    import copy

    from .core import link_parents

    def stores(n: ast.AST, name: str) -> bool:
        return any(isinstance(x, ast.Name) and x.id == name and isinstance(x.ctx, ast.Store) for x in ast.walk(n))

    changed = False
    new_fn = copy.deepcopy(fn)

    def visit(block: List[ast.stmt]) -> None:
        nonlocal changed
        for k, st in enumerate(block):
            for field in ("body", "orelse", "finalbody"):
                sub = getattr(st, field, None)
                if isinstance(sub, list) and sub and isinstance(sub[0], ast.stmt):
                    visit(sub)
            if not (isinstance(st, ast.For) and isinstance(st.target, ast.Tuple) and len(st.target.elts) == 2 and isinstance(st.target.elts[0], ast.Name)):
                continue
            it = st.iter
            if not (isinstance(it, ast.Call) and isinstance(it.func, ast.Name) and it.func.id == "enumerate" and len(it.args) >= 1):
                continue
            start = it.args[1] if len(it.args) > 1 else next((kw.value for kw in it.keywords if kw.arg == "start"), None)
            if not (isinstance(start, ast.Constant) and start.value == 1):
                continue
            i = st.target.elts[0].id
            init = None
            for prev in reversed(block[:k]):
                if stores(prev, i):
                    init = prev
                    break
            ok_init = isinstance(init, (ast.Assign, ast.AnnAssign)) and isinstance(init.value, ast.Constant) and init.value.value == 0 and not isinstance(init.value.value, bool)
            if not ok_init or any(stores(b, i) for b in st.body) or st.orelse:
                continue
            inc = ast.copy_location(ast.AugAssign(target=ast.Name(id=i, ctx=ast.Store()), op=ast.Add(), value=ast.Constant(value=1)), st)
            st.target = st.target.elts[1]
            st.iter = it.args[0]
            st.body = [inc] + st.body
            ast.fix_missing_locations(st)
            changed = True

    visit(new_fn.body)
    if not changed:
        return fn
    link_parents(new_fn)
    par = getattr(fn, "_parent", None)
    if par is not None:
        new_fn._parent = par  # type: ignore[attr-defined]
    return new_fn


def inline_generator_loops(fn: ast.FunctionDef, helpers: Dict[str, ast.FunctionDef], depth: int = 2) -> ast.FunctionDef:
    """A copy of `fn` in which `for T in self.gen(args): BODY` over a generator
    method `gen` is replaced by gen's body (parameters substituted) with every
    statement `yield v` replaced by `T = v; BODY`.  Only when BODY has no
    break / continue / return and gen has no return-with-value and its locals
    do not clash with fn's: then the two programs perform the same effects in
    the same order."""
    import copy

    from .core import link_parents

    def is_gen(h: ast.FunctionDef) -> bool:
        return any(isinstance(n, ast.Yield) for n in ast.walk(h)) and not any(isinstance(n, ast.YieldFrom) for n in ast.walk(h))

    def names_stored(n: ast.AST) -> set:
        return {x.id for x in ast.walk(n) if isinstance(x, ast.Name) and isinstance(x.ctx, ast.Store)}

    def splice(stmts: List[ast.stmt], target: ast.expr, body: List[ast.stmt]) -> Optional[List[ast.stmt]]:
        out: List[ast.stmt] = []
        for st in stmts:
            if isinstance(st, ast.Expr) and isinstance(st.value, ast.Yield):
                v = st.value.value or ast.Constant(value=None)
                out.append(ast.copy_location(ast.Assign(targets=[copy.deepcopy(target)], value=v, lineno=st.lineno), st))
                out.extend(copy.deepcopy(body))
                continue
            if any(isinstance(x, ast.Yield) for x in ast.walk(st)) and not isinstance(st, (ast.For, ast.While, ast.If, ast.With, ast.Try)):
                return None  # a yield used as an expression
            for field in ("body", "orelse", "finalbody"):
                sub = getattr(st, field, None)
                if isinstance(sub, list) and sub and isinstance(sub[0], ast.stmt):
                    r = splice(sub, target, body)
                    if r is None:
                        return None
                    setattr(st, field, r)
            out.append(st)
        return out

    def expand(stmts: List[ast.stmt], d: int, fn_locals: set) -> List[ast.stmt]:
        out: List[ast.stmt] = []
        for st in stmts:
            if isinstance(st, ast.For) and d > 0 and not st.orelse and isinstance(st.iter, ast.Call) and isinstance(st.iter.func, ast.Attribute) and isinstance(st.iter.func.value, ast.Name) and st.iter.func.value.id == "self" and st.iter.func.attr in helpers and not st.iter.keywords:
                h = helpers[st.iter.func.attr]
                params = [a.arg for a in h.args.args[1:]]
                body_ok = not any(isinstance(x, (ast.Break, ast.Continue, ast.Return)) for b in st.body for x in ast.walk(b))
                gen_ok = is_gen(h) and not any(isinstance(x, ast.Return) and x.value is not None for x in ast.walk(h)) and len(params) == len(st.iter.args) and all(isinstance(a, (ast.Name, ast.Constant, ast.Attribute)) for a in st.iter.args)
                clash = (names_stored(h) - set(params)) & fn_locals
                if body_ok and gen_ok and not (names_stored(h) & set(params)):
                    class T(ast.NodeTransformer):
                        def visit_Name(self, n: ast.Name) -> Any:
                            if n.id in mapping and isinstance(n.ctx, ast.Load):
                                return copy.deepcopy(mapping[n.id])
                            if n.id in clash:
                                return ast.copy_location(ast.Name(id=n.id + "__g", ctx=n.ctx), n)  # the generator's own local
                            return n

                    mapping = dict(zip(params, st.iter.args))
                    hb = [T().visit(copy.deepcopy(b)) for b in h.body if not (isinstance(b, ast.Expr) and isinstance(b.value, ast.Constant))]
                    new = splice(hb, st.target, expand(st.body, d, fn_locals))
                    if new is not None:
                        out.extend(expand(new, d - 1, fn_locals | names_stored(h)))
                        continue
            for field in ("body", "orelse", "finalbody"):
                sub = getattr(st, field, None)
                if isinstance(sub, list) and sub and isinstance(sub[0], ast.stmt):
                    setattr(st, field, expand(sub, d, fn_locals))
            out.append(st)
        return out

    if not any(isinstance(n, ast.For) and isinstance(n.iter, ast.Call) and isinstance(n.iter.func, ast.Attribute) and n.iter.func.attr in helpers for n in ast.walk(fn)):
        return fn
    new_fn = copy.deepcopy(fn)
    new_fn.body = expand(new_fn.body, depth, names_stored(fn) | {a.arg for a in fn.args.args})
    ast.fix_missing_locations(new_fn)
    link_parents(new_fn)
    par = getattr(fn, "_parent", None)
    if par is not None:
        new_fn._parent = par  # type: ignore[attr-defined]
    return new_fn


def inline_kwargs_helpers(fn: ast.FunctionDef, helpers: Dict[str, ast.FunctionDef]) -> ast.FunctionDef:
    """A copy of `fn` in which `f(..., **self.helper(args))` is replaced by explicit keyword
    arguments when `helper` does nothing but `return dict(k=v, ...)` / `return {"k": v, ...}`:
    the parameters of the helper are substituted by the call's arguments.  Building the shared
    keyword arguments of several constructors in one place does not change what the rules see."""
    import copy

    from .core import link_parents

    def table(h: ast.FunctionDef) -> Optional[List[Tuple[str, ast.expr]]]:
        body = [b for b in h.body if not (isinstance(b, ast.Expr) and isinstance(b.value, ast.Constant))]
        if len(body) != 1 or not isinstance(body[0], ast.Return) or body[0].value is None:
            return None
        v = body[0].value
        if isinstance(v, ast.Call) and isinstance(v.func, ast.Name) and v.func.id == "dict" and not v.args and all(k.arg is not None for k in v.keywords):
            return [(k.arg, k.value) for k in v.keywords]  # type: ignore[misc]
        if isinstance(v, ast.Dict) and all(isinstance(k, ast.Constant) and isinstance(k.value, str) for k in v.keys):
            return [(k.value, x) for k, x in zip(v.keys, v.values)]  # type: ignore[union-attr]
        return None

    changed = False
    new_fn = copy.deepcopy(fn)
    for n in ast.walk(new_fn):
        if not isinstance(n, ast.Call):
            continue
        kws: List[ast.keyword] = []
        for k in n.keywords:
            c = k.value
            if k.arg is None and isinstance(c, ast.Call) and isinstance(c.func, ast.Attribute) and isinstance(c.func.value, ast.Name) and c.func.value.id == "self" and c.func.attr in helpers and not c.keywords:
                h = helpers[c.func.attr]
                tb = table(h)
                params = [a.arg for a in h.args.args[1:]]
                if tb is not None and len(params) == len(c.args) and all(isinstance(a, (ast.Name, ast.Constant, ast.Subscript, ast.Attribute)) for a in c.args):
                    mapping = dict(zip(params, c.args))

                    class T(ast.NodeTransformer):
                        def visit_Name(self, x: ast.Name) -> Any:
                            if x.id in mapping and isinstance(x.ctx, ast.Load):
                                return copy.deepcopy(mapping[x.id])
                            return x

                    for kn, kv in tb:
                        nv = T().visit(copy.deepcopy(kv))
                        for y in ast.walk(nv):
                            if hasattr(y, "lineno"):
                                y.lineno = n.lineno  # type: ignore[attr-defined]
                                y.end_lineno = n.lineno  # type: ignore[attr-defined]
                        kws.append(ast.keyword(arg=kn, value=nv))
                    changed = True
                    continue
            kws.append(k)
        n.keywords = kws
    if not changed:
        return fn
    ast.fix_missing_locations(new_fn)
    link_parents(new_fn)
    par = getattr(fn, "_parent", None)
    if par is not None:
        new_fn._parent = par  # type: ignore[attr-defined]
    return new_fn


def inline_statement_helpers(fn: ast.FunctionDef, helpers: Dict[str, ast.FunctionDef], depth: int = 2) -> ast.FunctionDef:
    """A copy of `fn` in which statement-level calls `self.helper(args)` of
    procedure-like helpers (no value returned) are replaced by the helper's
    body with the parameters substituted.  Parser actions are analysed after
    this step, so moving the tail of an action into a helper method does not
    change what the rules see."""
    import copy

    from .core import link_parents

    def procedure_like(h: ast.FunctionDef) -> bool:
        for n in ast.walk(h):
            # the value of the last statement's `return x` is discarded at a statement-level call
            if isinstance(n, ast.Return) and n is not h.body[-1] and n.value is not None and not (isinstance(n.value, ast.Constant) and n.value.value is None):
                return False
            if isinstance(n, (ast.Yield, ast.YieldFrom)):
                return False
        # a bare `return` anywhere but as the very last statement changes control flow when spliced
        for n in ast.walk(h):
            if isinstance(n, ast.Return) and n is not h.body[-1]:
                return False
        return True

    def subst(body: List[ast.stmt], mapping: Dict[str, ast.expr]) -> List[ast.stmt]:
        class T(ast.NodeTransformer):
            def visit_Name(self, n: ast.Name) -> Any:
                if n.id in mapping and isinstance(n.ctx, ast.Load):
                    return copy.deepcopy(mapping[n.id])
                return n

        return [T().visit(copy.deepcopy(st)) for st in body]

    def expand(stmts: List[ast.stmt], d: int) -> List[ast.stmt]:
        out: List[ast.stmt] = []
        for st in stmts:
            c = st.value if isinstance(st, ast.Expr) and isinstance(st.value, ast.Call) else None
            if c is not None and d > 0 and isinstance(c.func, ast.Attribute) and isinstance(c.func.value, ast.Name) and c.func.value.id == "self" and c.func.attr in helpers and all(k_.arg is not None for k_ in c.keywords):
                h = helpers[c.func.attr]
                params = [a.arg for a in h.args.args[1:]]
                assigned = {x.id for n in ast.walk(h) for x in ast.walk(n) if isinstance(x, ast.Name) and isinstance(x.ctx, ast.Store)}
                # trailing parameters not passed take their (constant) defaults
                call_args = list(c.args)
                dfl = h.args.defaults
                # keyword arguments are bound by the helper's signature
                if c.keywords:
                    by_kw = {k_.arg: k_.value for k_ in c.keywords}
                    rest = params[len(call_args):]
                    n_dfl_rest = dict(zip(params[len(params) - len(dfl):], dfl)) if dfl else {}
                    bound: List[ast.expr] = []
                    ok_kw = set(by_kw) <= set(rest)
                    for prm_ in rest:
                        if prm_ in by_kw:
                            bound.append(by_kw[prm_])
                        elif prm_ in n_dfl_rest and isinstance(n_dfl_rest[prm_], ast.Constant):
                            bound.append(copy.deepcopy(n_dfl_rest[prm_]))
                        else:
                            ok_kw = False
                    if ok_kw:
                        call_args = call_args + bound
                    else:
                        call_args = []
                simple = all(isinstance(a, (ast.Name, ast.Constant, ast.Subscript, ast.Attribute)) for a in call_args)
                if len(call_args) < len(params) and len(params) - len(call_args) <= len(dfl):
                    need = len(params) - len(call_args)
                    tail = dfl[len(dfl) - need :] if need else []
                    if all(isinstance(d_, ast.Constant) for d_ in tail):
                        call_args = call_args + [copy.deepcopy(d_) for d_ in tail]
                if procedure_like(h) and len(params) == len(call_args) and simple and not (assigned & set(params)) and h.name != fn.name:
                    c = copy.copy(c)
                    c.args = call_args
                    body = [b for b in h.body if not (isinstance(b, ast.Expr) and isinstance(b.value, ast.Constant))]
                    if body and isinstance(body[-1], ast.Return):
                        rv = body[-1].value
                        if rv is None or isinstance(rv, (ast.Name, ast.Constant, ast.Attribute)):
                            body = body[:-1]
                        else:
                            body = body[:-1] + [ast.copy_location(ast.Expr(value=rv), body[-1])]
                    new = subst(body, dict(zip(params, c.args)))
                    for b in new:
                        for n in ast.walk(b):
                            if hasattr(n, "lineno"):
                                n.lineno = st.lineno  # type: ignore[attr-defined]
                                n.end_lineno = st.lineno  # type: ignore[attr-defined]
                    out.extend(expand(new, d - 1))
                    continue
            for field in ("body", "orelse", "finalbody"):
                sub = getattr(st, field, None)
                if isinstance(sub, list) and sub and isinstance(sub[0], ast.stmt):
                    setattr(st, field, expand(sub, d))
            if isinstance(st, ast.Try):
                for h_ in st.handlers:
                    h_.body = expand(h_.body, d)
            out.append(st)
        return out

    calls_helper = any(isinstance(n, ast.Call) and isinstance(n.func, ast.Attribute) and isinstance(n.func.value, ast.Name) and n.func.value.id == "self" and n.func.attr in helpers for n in ast.walk(fn))
    if not calls_helper:
        return fn
    new_fn = copy.deepcopy(fn)
    new_fn.body = expand(new_fn.body, depth)
    link_parents(new_fn)
    par = getattr(fn, "_parent", None)
    if par is not None:
        new_fn._parent = par  # type: ignore[attr-defined]
    return new_fn


class Grammar:
    def __init__(self, repo: Repo) -> None:
        self.repo = repo
        self.prod_by_var: Dict[str, Production] = {}
        self.prods: Dict[str, Production] = {}  # by lhs
        self.actions: Dict[str, Action] = {}
        self.parser_cls: Optional[ast.ClassDef] = None
        self.lexer_cls: Optional[ast.ClassDef] = None
        self.tokens: List[str] = []
        self.keywords: List[str] = []
        self.literals: str = ""
        self.t_ignore: str = ""
        self.t_rules: Dict[str, Tuple[str, Optional[ast.FunctionDef]]] = {}  # name -> (regex, fn)
        self.t_order: List[str] = []  # function rules in definition order
        self.escaping_chars: Dict[str, str] = {}
        self.precedence: List[Tuple[str, ...]] = []
        self.start: str = "start"
        self._load_grammars()
        self._load_parser()
        self._load_lexer()
        self.nonterminals: Set[str] = set(self.prods)
        self.terminals: Set[str] = set()
        for p in self.prods.values():
            for alt in p.alts:
                for s in alt:
                    if s not in self.nonterminals:
                        self.terminals.add(s)

    # ------------------------------------------------------------------

    def _load_grammars(self) -> None:
        tree = self.repo.py(GRAMMARS)
        for st in tree.body:
            if isinstance(st, ast.Assign) and len(st.targets) == 1 and isinstance(st.targets[0], ast.Name):
                var = st.targets[0].id
                if var.startswith("r_") and isinstance(st.value, ast.Constant) and isinstance(st.value.value, str):
                    prod = parse_production(st.value.value, var)
                    self.prod_by_var[var] = prod
                    if prod.lhs in self.prods:
                        raise Inconclusive(f"nonterminal {prod.lhs} defined by two r_* strings")
                    self.prods[prod.lhs] = prod
        if len(self.prods) < 10:
            raise Inconclusive("grammars.py: fewer than 10 productions found")

    def _load_parser(self) -> None:
        tree = self.repo.py(PARSER)
        for st in tree.body:
            if isinstance(st, ast.ClassDef) and st.name == "Parser":
                self.parser_cls = st
        if self.parser_cls is None:
            raise Inconclusive("parser.py: class Parser vanished")
        # procedure-like helpers that receive the production `p` are spliced into the actions
        helpers = {st.name: st for st in self.parser_cls.body if isinstance(st, ast.FunctionDef) and not st.name.startswith("p_") and st.name.startswith("_") and any(a.arg == "p" for a in st.args.args)}
        self.action_helpers = helpers
        for st0 in self.parser_cls.body:
            st = st0
            if isinstance(st, ast.FunctionDef) and st.name.startswith("p_") and st.name != "p_error":
                st = inline_statement_helpers(st, helpers)
                st = inline_kwargs_helpers(st, helpers)
            if isinstance(st, ast.FunctionDef) and st.name.startswith("p_") and st.name != "p_error":
                prods: List[Production] = []
                for d in st.decorator_list:
                    if isinstance(d, ast.Call) and isinstance(d.func, ast.Name) and d.func.id == "override_docstring" and d.args:
                        a = d.args[0]
                        if isinstance(a, ast.Name) and a.id in self.prod_by_var:
                            prods.append(self.prod_by_var[a.id])
                        elif isinstance(a, ast.Constant) and isinstance(a.value, str):
                            prods.append(parse_production(a.value, "<inline>"))
                        else:
                            raise Inconclusive(f"{st.name}: grammar string {src_of(a)} not resolvable")
                if not prods:
                    doc = ast.get_docstring(st)
                    if doc and ":" in doc:
                        prods.append(parse_production(doc, "<docstring>"))
                if not prods:
                    raise Inconclusive(f"{st.name}: no grammar production bound")
                self.actions[st.name] = Action(st.name, st, prods)
            elif isinstance(st, (ast.Assign, ast.AnnAssign)):
                tgt = st.targets[0] if isinstance(st, ast.Assign) else st.target
                if isinstance(tgt, ast.Name) and tgt.id == "precedence" and st.value is not None:
                    try:
                        self.precedence = [tuple(x) for x in ast.literal_eval(st.value)]
                    except Exception:
                        raise Inconclusive("Parser.precedence is not a literal")
        # start symbol
        for n in ast.walk(self.parser_cls):
            if isinstance(n, ast.Call) and isinstance(n.func, ast.Attribute) and n.func.attr == "yacc":
                for kw in n.keywords:
                    if kw.arg == "start" and isinstance(kw.value, ast.Constant):
                        self.start = kw.value.value
        bound = {p.lhs for a in self.actions.values() for p in a.prods}
        for lhs in self.prods:
            if lhs not in bound:
                raise Inconclusive(f"production {lhs} has no p_* action")

    def _load_lexer(self) -> None:
        tree = self.repo.py(LEXER)
        for st in tree.body:
            if isinstance(st, ast.ClassDef) and st.name == "Lexer":
                self.lexer_cls = st
        if self.lexer_cls is None:
            raise Inconclusive("lexer.py: class Lexer vanished")
        consts: Dict[str, Any] = {}
        for st in self.lexer_cls.body:
            tgt = None
            val = None
            if isinstance(st, ast.Assign) and len(st.targets) == 1:
                tgt, val = st.targets[0], st.value
            elif isinstance(st, ast.AnnAssign):
                tgt, val = st.target, st.value
            if isinstance(tgt, ast.Name) and val is not None:
                name = tgt.id
                try:
                    consts[name] = ast.literal_eval(val)
                except Exception:
                    consts[name] = self._eval_lexer_const(val, consts)
            elif isinstance(st, ast.FunctionDef) and st.name.startswith("t_") and st.name != "t_error":
                doc = ast.get_docstring(st, clean=False)
                if doc is None:
                    raise Inconclusive(f"lexer rule {st.name} has no regex docstring")
                self.t_rules[st.name[2:]] = (doc, st)
                self.t_order.append(st.name[2:])
        for k, v in consts.items():
            if k.startswith("t_") and isinstance(v, str):
                if k == "t_ignore":
                    self.t_ignore = v
                else:
                    self.t_rules[k[2:]] = (v, None)
        self.tokens = list(consts.get("tokens") or [])
        self.keywords = list(consts.get("keywords") or [])
        self.literals = consts.get("literals") or ""
        self.escaping_chars = dict(consts.get("escaping_chars") or {})
        if not self.tokens or not self.literals:
            raise Inconclusive("lexer tokens/literals not readable")

    def _eval_lexer_const(self, val: ast.AST, consts: Dict[str, Any]) -> Any:
        # keywords_tokens = tuple(map(lambda k: k.upper(), keywords))
        if isinstance(val, ast.Call) and isinstance(val.func, ast.Name) and val.func.id == "tuple" and val.args:
            inner = val.args[0]
            if isinstance(inner, ast.Call) and isinstance(inner.func, ast.Name) and inner.func.id == "map" and len(inner.args) == 2:
                lam, src = inner.args
                if isinstance(src, ast.Name) and src.id in consts and isinstance(lam, ast.Lambda):
                    body = lam.body
                    if isinstance(body, ast.Call) and isinstance(body.func, ast.Attribute) and body.func.attr == "upper":
                        return tuple(str(k).upper() for k in consts[src.id])
            if isinstance(inner, (ast.GeneratorExp, ast.ListComp)):
                g = inner.generators[0]
                if isinstance(g.iter, ast.Name) and g.iter.id in consts:
                    e = inner.elt
                    if isinstance(e, ast.Call) and isinstance(e.func, ast.Attribute) and e.func.attr == "upper":
                        return tuple(str(k).upper() for k in consts[g.iter.id])
        # tokens = (...) + keywords_tokens
        if isinstance(val, ast.BinOp) and isinstance(val.op, ast.Add):
            l = self._eval_side(val.left, consts)
            r = self._eval_side(val.right, consts)
            if l is not None and r is not None:
                return tuple(l) + tuple(r)
        return None

    def _eval_side(self, e: ast.AST, consts: Dict[str, Any]) -> Any:
        if isinstance(e, ast.Name):
            return consts.get(e.id)
        try:
            return ast.literal_eval(e)
        except Exception:
            return self._eval_lexer_const(e, consts)

    # ------------------------------------------------------------- queries

    def is_terminal(self, sym: str) -> bool:
        return sym not in self.nonterminals

    def alts_of_action(self, action: str) -> List[Tuple[str, List[str]]]:
        out = []
        for p in self.actions[action].prods:
            for alt in p.alts:
                out.append((p.lhs, alt))
        return out

    def action_of(self, lhs: str) -> Optional[Action]:
        for a in self.actions.values():
            if any(p.lhs == lhs for p in a.prods):
                return a
        return None

    def action_of_node(self, fn: ast.AST) -> Optional[Action]:
        for a in self.actions.values():
            if a.node is fn:
                return a
        return None

    def derivable_from(self, sym: str) -> Set[str]:
        """All nonterminals reachable from sym through productions."""
        seen: Set[str] = set()
        work = [sym]
        while work:
            s = work.pop()
            if s in seen or s not in self.prods:
                continue
            seen.add(s)
            for alt in self.prods[s].alts:
                for x in alt:
                    if x in self.prods:
                        work.append(x)
        return seen


def parse_production(text: str, var: str) -> Production:
    text = text.strip()
    if ":" not in text:
        raise Inconclusive(f"grammar string {var} has no ':'")
    lhs, rhs = text.split(":", 1)
    lhs = lhs.strip()
    # split on '|' that are not inside quotes
    alts: List[List[str]] = []
    for chunk in _split_alts(rhs):
        alts.append(_symbols(chunk))
    return Production(lhs, alts, var)


def _split_alts(rhs: str) -> List[str]:
    out: List[str] = []
    cur = ""
    q: Optional[str] = None
    for ch in rhs:
        if q:
            cur += ch
            if ch == q:
                q = None
        elif ch in "'\"":
            q = ch
            cur += ch
        elif ch == "|":
            out.append(cur)
            cur = ""
        else:
            cur += ch
    out.append(cur)
    return out


def _symbols(chunk: str) -> List[str]:
    syms: List[str] = []
    i = 0
    s = chunk.strip()
    while i < len(s):
        ch = s[i]
        if ch.isspace():
            i += 1
        elif ch in "'\"":
            j = s.index(ch, i + 1)
            syms.append(s[i : j + 1])
            i = j + 1
        else:
            j = i
            while j < len(s) and not s[j].isspace():
                j += 1
            syms.append(s[i:j])
            i = j
    return syms


def get_grammar(repo: Repo) -> Grammar:
    return repo.memo("grammar", lambda: Grammar(repo))
