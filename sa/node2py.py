"""
Go / C function bodies (gomodel / cmodel `Node` trees) re-expressed as Python
`ast` so that the one path engine (sa.pyflow) summarises all three runtimes.

This is a syntactic re-encoding, statement by statement; nothing is evaluated.
Deliberate approximations, all recorded in `notes`:
  * integer `/` becomes floor division (the operands of interest are
    non-negative cursors and sizes)
  * numeric conversions other than to a byte type are erased
  * `&x`, `*p`, `p->f` lose the pointer: objects are identified by name
  * `defer f()` is kept as a call named `f__deferred` at the place of the defer
"""

from __future__ import annotations

import ast
from typing import Any, Dict, List, Optional

from .gomodel import Node

BYTE_TYPES = {"byte", "uint8", "unsigned char", "uint8_t"}
PTR_WIDTH = {"bool": 1, "_Bool": 1, "uint8_t": 1, "unsigned char": 1, "char": 1, "int8_t": 1, "uint16_t": 2, "int16_t": 2, "unsigned short": 2, "short": 2, "uint32_t": 4, "int32_t": 4, "unsigned int": 4, "int": 4, "uint64_t": 8, "int64_t": 8, "unsigned long": 8, "long": 8, "unsigned long long": 8, "long long": 8}
NUM_CONVS = {"int", "int8", "int16", "int32", "int64", "uint", "uint16", "uint32", "uint64", "uintptr", "Flag"}
_ARITH = {"+": ast.Add, "-": ast.Sub, "*": ast.Mult, "/": ast.FloorDiv, "%": ast.Mod, "<<": ast.LShift, ">>": ast.RShift, "&": ast.BitAnd, "|": ast.BitOr, "^": ast.BitXor}
_CMP = {"<": ast.Lt, "<=": ast.LtE, "==": ast.Eq, "!=": ast.NotEq, ">=": ast.GtE, ">": ast.Gt}


class Conv:
    def __init__(self, lang: str) -> None:
        self.lang = lang
        self.notes: List[str] = []

    # -------------------------------------------------------------- helpers

    def _at(self, n: ast.AST, src: Node) -> Any:
        ln = src.get("line", 0) or 0
        n.lineno = ln  # type: ignore[attr-defined]
        n.col_offset = 0  # type: ignore[attr-defined]
        n.end_lineno = ln  # type: ignore[attr-defined]
        n.end_col_offset = 0  # type: ignore[attr-defined]
        return n

    def type_name(self, t: Optional[Node]) -> str:
        if t is None:
            return "?"
        if t.k in ("named", "id"):
            return str(t.name)
        if t.k == "sel":
            return str(t.name)
        if t.k == "ptr":
            return self.type_name(t.elem)
        if t.k == "slice":
            return "[]" + self.type_name(t.elem)
        if t.k == "array":
            return "[]" + self.type_name(t.elem)
        return t.k

    # ---------------------------------------------------------- expressions

    def expr(self, e: Node) -> ast.expr:
        k = e.k
        if k == "int":
            return self._at(ast.Constant(value=int(e.v)), e)
        if k == "str":
            return self._at(ast.Constant(value=str(e.v)), e)
        if k == "id":
            if e.name in ("true", "false"):
                return self._at(ast.Constant(value=(e.name == "true")), e)
            if e.name in ("nil", "NULL"):
                return self._at(ast.Constant(value=None), e)
            return self._at(ast.Name(id=e.name, ctx=ast.Load()), e)
        if k == "paren":
            return self.expr(e.x)
        if k == "sel":
            return self._at(ast.Attribute(value=self.expr(e.x), attr=e.name, ctx=ast.Load()), e)
        if k == "un":
            op = e.op
            if op == "&" and self.lang == "c":
                x = e.x
                while x.k == "paren":
                    x = x.x
                if x.k == "id":
                    return self._at(ast.Call(func=ast.Name(id="__ref__", ctx=ast.Load()), args=[ast.Constant(value=x.name), ast.Constant(value=str(x.get("ctype", "")))], keywords=[]), e)
            if op == "*" and self.lang == "c":
                x = e.x
                while x.k == "paren":
                    x = x.x
                ct = str(x.get("ctype", "")).replace("const ", "").strip()
                if ct.endswith("*") and ct[:-1].strip() in PTR_WIDTH:
                    return self._at(ast.Subscript(value=self.expr(e.x), slice=ast.Constant(value=0), ctx=ast.Load()), e)
            if op in ("&", "*", "+"):
                return self.expr(e.x)
            if op == "-":
                return self._at(ast.UnaryOp(op=ast.USub(), operand=self.expr(e.x)), e)
            if op == "!":
                return self._at(ast.UnaryOp(op=ast.Not(), operand=self.expr(e.x)), e)
            if op in ("^", "~"):
                return self._at(ast.UnaryOp(op=ast.Invert(), operand=self.expr(e.x)), e)
            if op in ("++", "--") and e.x.k == "id":
                # value-producing increment / decrement of a local: kept as a marked call the path engine understands
                fnm = "__postinc__" if e.get("postfix") else "__preinc__"
                return self._at(ast.Call(func=ast.Name(id=fnm, ctx=ast.Load()), args=[ast.Constant(value=e.x.name), ast.Constant(value=1 if op == "++" else -1)], keywords=[]), e)
            return self._at(ast.Call(func=ast.Name(id=f"op{op}", ctx=ast.Load()), args=[self.expr(e.x)], keywords=[]), e)
        if k == "bin":
            op = e.op
            if op in ("&&", "||"):
                return self._at(ast.BoolOp(op=ast.And() if op == "&&" else ast.Or(), values=[self.expr(e.l), self.expr(e.r)]), e)
            if op in _CMP:
                return self._at(ast.Compare(left=self.expr(e.l), ops=[_CMP[op]()], comparators=[self.expr(e.r)]), e)
            if op in _ARITH:
                return self._at(ast.BinOp(left=self.expr(e.l), op=_ARITH[op](), right=self.expr(e.r)), e)
            if op == ",":
                return self.expr(e.r)
            return self._at(ast.Call(func=ast.Name(id=f"op{op}", ctx=ast.Load()), args=[self.expr(e.l), self.expr(e.r)], keywords=[]), e)
        if k == "cond":
            return self._at(ast.IfExp(test=self.expr(e.c), body=self.expr(e.a), orelse=self.expr(e.b)), e)
        if k == "call":
            if e.f.k == "id" and len(e.args) == 1 and self.lang == "go":
                if e.f.name in BYTE_TYPES:
                    return self._at(ast.Call(func=ast.Name(id="byte", ctx=ast.Load()), args=[self.expr(e.args[0])], keywords=[]), e)
                if e.f.name in NUM_CONVS:
                    return self.expr(e.args[0])
            return self._at(ast.Call(func=self.expr(e.f), args=[self.expr(a) for a in e.args], keywords=[]), e)
        if k == "conv":
            tn = self.type_name(e.type)
            base = tn.replace("const ", "").strip()
            if self.lang == "c" and base.endswith("*"):
                elem = base[:-1].strip()
                if elem in PTR_WIDTH and elem not in ("unsigned char", "char"):
                    return self._at(ast.Call(func=ast.Name(id="__ptr__", ctx=ast.Load()), args=[ast.Constant(value=elem), self.expr(e.x)], keywords=[]), e)
                return self.expr(e.x)
            if base in BYTE_TYPES:
                return self._at(ast.Call(func=ast.Name(id="byte", ctx=ast.Load()), args=[self.expr(e.x)], keywords=[]), e)
            return self.expr(e.x)
        if k == "index":
            return self._at(ast.Subscript(value=self.expr(e.x), slice=self.expr(e.i), ctx=ast.Load()), e)
        if k == "slice":
            lo = self.expr(e.lo) if e.get("lo") is not None else None
            hi = self.expr(e.hi) if e.get("hi") is not None else None
            return self._at(ast.Subscript(value=self.expr(e.x), slice=ast.Slice(lower=lo, upper=hi), ctx=ast.Load()), e)
        if k == "complit" and e.type is not None and e.type.get("k") in ("slice", "array"):
            return self._at(ast.Tuple(elts=[self.expr(x) for x in e.elts if x.k != "kv"], ctx=ast.Load()), e)
        if k == "complit":
            args: List[ast.expr] = []
            kws: List[ast.keyword] = []
            for x in e.elts:
                if x.k == "kv":
                    kws.append(ast.keyword(arg=x.key.name if x.key.k == "id" else "?", value=self.expr(x.value)))
                else:
                    args.append(self.expr(x))
            return self._at(ast.Call(func=ast.Name(id=self.type_name(e.type), ctx=ast.Load()), args=args, keywords=kws), e)
        if k == "initlist":
            return self._at(ast.Tuple(elts=[self.expr(x) for x in e.elts], ctx=ast.Load()), e)
        if k == "sizeof":
            return self._at(ast.Call(func=ast.Name(id="sizeof", ctx=ast.Load()), args=[ast.Constant(value=str(e.arg))], keywords=[]), e)
        if k == "typeexpr":
            return self._at(ast.Constant(value="type:" + self.type_name(e.type)), e)
        return self._at(ast.Constant(value=f"<{k}>"), e)

    def target(self, e: Node) -> ast.expr:
        x = self.expr(e)
        for n in ast.walk(x):
            if isinstance(n, (ast.Name, ast.Attribute, ast.Subscript)):
                n.ctx = ast.Load()
        if isinstance(x, (ast.Name, ast.Attribute, ast.Subscript, ast.Tuple)):
            x.ctx = ast.Store()  # type: ignore[attr-defined]
        return x

    # ----------------------------------------------------------- statements

    def stmts(self, ss: List[Node]) -> List[ast.stmt]:
        out: List[ast.stmt] = []
        for s in ss:
            out.extend(self.stmt(s))
        return out

    def _split_post(self, p: Node) -> List[Node]:
        """`k++, q += n` as separate statements"""
        from .gomodel import N

        if p.k == "block":
            out_: List[Node] = []
            for q_ in p.stmts:
                out_.extend(self._split_post(q_))
            return out_
        if p.k == "exprstmt":
            return self._split_post(p.x)
        if p.k == "paren":
            return self._split_post(p.x)
        if p.k == "bin" and p.op == ",":
            return self._split_post(p.l) + self._split_post(p.r)
        if p.k == "un" and p.op in ("++", "--"):
            return [N("incdec", p.get("line", 0), x=p.x, op=p.op)]
        if p.k == "bin" and p.op in ("+=", "-=", "*=", "|=", "&=", "<<=", ">>=", "="):
            return [N("assign", p.get("line", 0), lhs=[p.l], op=p.op, rhs=[p.r])]
        return [p]

    def _countdown(self, s: Node) -> Optional[ast.stmt]:
        """`while (v-- > 0) body` / `while (v--) body` with v untouched in the
        body runs the body v times: re-encoded as `for __n in range(v)`."""
        if s.get("init") is not None or s.get("post") is not None or s.get("cond") is None:
            return None
        c = s.cond
        while c.k == "paren":
            c = c.x
        dec = None
        if c.k == "bin" and c.op == ">" and c.r.k == "int" and c.r.v == 0:
            dec = c.l
        elif c.k == "un":
            dec = c
        while dec is not None and dec.k == "paren":
            dec = dec.x
        if dec is None or dec.k != "un" or dec.op != "--" or not dec.get("postfix") or dec.x.k != "id":
            return None
        v = dec.x.name

        def mentions(n: Any) -> bool:
            if isinstance(n, dict):
                if n.get("k") == "id" and n.get("name") == v:
                    return True
                return any(mentions(x) for x in n.values())
            if isinstance(n, list):
                return any(mentions(x) for x in n)
            return False

        if mentions(s.body):
            return None
        return self._at(ast.For(target=ast.Name(id="__n", ctx=ast.Store()), iter=ast.Call(func=ast.Name(id="range", ctx=ast.Load()), args=[ast.Name(id=v, ctx=ast.Load())], keywords=[]), body=self.stmts(s.body.stmts) or [ast.Pass()], orelse=[]), s)

    def _canonical_for(self, s: Node) -> Optional[ast.stmt]:
        i, c, p = s.get("init"), s.get("cond"), s.get("post")
        if i is None or c is None or p is None:
            return None
        extra: List[Node] = []
        posts = self._split_post(p)
        if len(posts) > 1:
            counters = [q for q in posts if q.k == "incdec" and q.op == "++" and q.x.k == "id" and i.k == "assign" and i.lhs[0].k == "id" and q.x.name == i.lhs[0].name]
            if len(counters) != 1:
                return None
            extra = [q for q in posts if q is not counters[0]]
            p = counters[0]
        elif posts:
            p = posts[0]
        if i.k != "assign" or len(i.lhs) != 1 or i.lhs[0].k != "id" or i.rhs[0].k != "int" or i.rhs[0].v != 0:
            return None
        v = i.lhs[0].name
        cc = c
        while cc.k == "paren":
            cc = cc.x
        if not (cc.k == "bin" and cc.op == "<" and cc.l.k == "id" and cc.l.name == v):
            return None
        if not ((p.k == "incdec" and p.op == "++" and p.x.k == "id" and p.x.name == v) or (p.k == "assign" and p.op == "+=" and p.lhs[0].k == "id" and p.lhs[0].name == v and p.rhs[0].k == "int" and p.rhs[0].v == 1)):
            return None
        # the bound and the counter must not be assigned in the body
        return self._at(ast.For(target=ast.Name(id=v, ctx=ast.Store()), iter=ast.Call(func=ast.Name(id="range", ctx=ast.Load()), args=[self.expr(cc.r)], keywords=[]), body=(self.stmts(s.body.stmts) + self.stmts(extra)) or [ast.Pass()], orelse=[]), s)

    def stmt(self, s: Node) -> List[ast.stmt]:
        k = s.k
        if k == "block":
            return self.stmts(s.stmts)
        if k == "vardecl":
            return []
        if k == "assign":
            if s.op in (":=", "="):
                if len(s.lhs) == 1 and len(s.rhs) == 1:
                    if self.lang == "c" and s.lhs[0].k == "id" and "[" in str(s.get("decl_type", "")) and s.rhs[0].k == "initlist":
                        # a local array: keep its name and declared type as the object's identity
                        init = ast.Tuple(elts=[self.expr(x) for x in s.rhs[0].elts], ctx=ast.Load())
                        call_ = ast.Call(func=ast.Name(id="__array__", ctx=ast.Load()), args=[ast.Constant(value=s.lhs[0].name), ast.Constant(value=str(s.decl_type)), init], keywords=[])
                        return [self._at(ast.Assign(targets=[self.target(s.lhs[0])], value=call_), s)]
                    if s.lhs[0].k == "id" and s.lhs[0].name == "_":
                        return [self._at(ast.Expr(value=self.expr(s.rhs[0])), s)]
                    return [self._at(ast.Assign(targets=[self.target(s.lhs[0])], value=self.expr(s.rhs[0])), s)]
                tg = ast.Tuple(elts=[self.target(x) for x in s.lhs], ctx=ast.Store())
                val: ast.expr = ast.Tuple(elts=[self.expr(x) for x in s.rhs], ctx=ast.Load()) if len(s.rhs) != 1 else self.expr(s.rhs[0])
                return [self._at(ast.Assign(targets=[tg], value=val), s)]
            op = s.op[:-1]
            if op in _ARITH:
                return [self._at(ast.AugAssign(target=self.target(s.lhs[0]), op=_ARITH[op](), value=self.expr(s.rhs[0])), s)]
            return [self._at(ast.Expr(value=ast.Constant(value=f"<assign {s.op}>")), s)]
        if k == "incdec":
            return [self._at(ast.AugAssign(target=self.target(s.x), op=ast.Add() if s.op == "++" else ast.Sub(), value=ast.Constant(value=1)), s)]
        if k == "exprstmt":
            return [self._at(ast.Expr(value=self.expr(s.x)), s)]
        if k == "return":
            if not s.vals:
                return [self._at(ast.Return(value=None), s)]
            if len(s.vals) == 1:
                return [self._at(ast.Return(value=self.expr(s.vals[0])), s)]
            return [self._at(ast.Return(value=ast.Tuple(elts=[self.expr(v) for v in s.vals], ctx=ast.Load())), s)]
        if k == "if":
            pre = self.stmt(s.init) if s.get("init") is not None else []
            els: List[ast.stmt] = []
            if s.get("orelse") is not None:
                els = self.stmt(s.orelse)
            return pre + [self._at(ast.If(test=self.expr(s.cond), body=self.stmts(s.body.stmts) or [ast.Pass()], orelse=els), s)]
        if k == "for":
            c = self._canonical_for(s)
            if c is not None:
                return [c]
            cd = self._countdown(s)
            if cd is not None:
                return [cd]
            pre = self.stmt(s.init) if s.get("init") is not None else []
            body = self.stmts(s.body.stmts)
            if s.get("post") is not None:
                # `continue` runs the increment part before the test
                def with_post(stmts_: List[ast.stmt]) -> List[ast.stmt]:
                    out_: List[ast.stmt] = []
                    for st_ in stmts_:
                        if isinstance(st_, ast.Continue):
                            out_.extend(self.stmt(s.post))
                            out_.append(st_)
                            continue
                        if isinstance(st_, (ast.While, ast.For)):
                            out_.append(st_)  # a nested loop owns its own continue
                            continue
                        for fld_ in ("body", "orelse", "finalbody"):
                            sub_ = getattr(st_, fld_, None)
                            if isinstance(sub_, list) and sub_ and isinstance(sub_[0], ast.stmt):
                                setattr(st_, fld_, with_post(sub_))
                        out_.append(st_)
                    return out_

                body = with_post(body) + self.stmt(s.post)
            test = self.expr(s.cond) if s.get("cond") is not None else ast.Constant(value=True)
            return pre + [self._at(ast.While(test=test, body=body or [ast.Pass()], orelse=[]), s)]
        if k == "forrange":
            r = s.range
            lhs = [x for x in (r.get("lhs") or [])]
            it = self.expr(r.x)
            if len(lhs) == 2:
                if lhs[0].k == "id" and lhs[0].name == "_":
                    tgt: ast.expr = self.target(lhs[1])
                else:
                    tgt = ast.Tuple(elts=[self.target(lhs[0]), self.target(lhs[1])], ctx=ast.Store())
                    it = ast.Call(func=ast.Name(id="enumerate", ctx=ast.Load()), args=[it], keywords=[])
            elif len(lhs) == 1:
                tgt = self.target(lhs[0])
                it = ast.Call(func=ast.Name(id="range", ctx=ast.Load()), args=[ast.Call(func=ast.Name(id="len", ctx=ast.Load()), args=[it], keywords=[])], keywords=[])
            else:
                tgt = ast.Name(id="_", ctx=ast.Store())
            return [self._at(ast.For(target=tgt, iter=it, body=self.stmts(s.body.stmts) or [ast.Pass()], orelse=[]), s)]
        if k == "switch":
            chain: List[Any] = []
            default: Optional[List[ast.stmt]] = None
            for cs in s.cases:
                body = list(cs.body)
                while body and body[-1].k == "break":
                    body = body[:-1]
                pb = self.stmts(body) or [ast.Pass()]
                if cs.vals is None:
                    default = pb
                    continue
                if s.get("tag") is None:
                    tests = [self.expr(v) for v in cs.vals]
                    test: ast.expr = tests[0] if len(tests) == 1 else ast.BoolOp(op=ast.Or(), values=tests)
                elif len(cs.vals) == 1:
                    test = ast.Compare(left=self.expr(s.tag), ops=[ast.Eq()], comparators=[self.expr(cs.vals[0])])
                else:
                    test = ast.Compare(left=self.expr(s.tag), ops=[ast.In()], comparators=[ast.Tuple(elts=[self.expr(v) for v in cs.vals], ctx=ast.Load())])
                if cs.get("default"):
                    # C: `case X: default:` group - the group is also the default
                    default = pb
                chain.append((test, pb))
            node: List[ast.stmt] = default or []
            for test, pb in reversed(chain):
                node = [self._at(ast.If(test=test, body=pb, orelse=node), s)]
            return node
        if k == "defer":
            c = s.call
            if c.k == "call":
                f = self.expr(c.f)
                if isinstance(f, ast.Attribute):
                    f.attr = f.attr + "__deferred"
                elif isinstance(f, ast.Name):
                    f.id = f.id + "__deferred"
                return [self._at(ast.Expr(value=ast.Call(func=f, args=[self.expr(a) for a in c.args], keywords=[])), s)]
            return []
        if k == "break":
            return [self._at(ast.Break(), s)]
        if k == "continue":
            return [self._at(ast.Continue(), s)]
        return [self._at(ast.Expr(value=ast.Constant(value=f"<{k}>")), s)]

    def func(self, fn: Node, name: Optional[str] = None) -> ast.FunctionDef:
        params = []
        recv = fn.get("recv")
        if recv:
            rn = recv.name if isinstance(recv, dict) and recv.get("name") else None
            if isinstance(recv, list) and recv:
                rn = recv[0].get("name")
            params.append(ast.arg(arg=rn or "self"))
        for p in fn.params:
            params.append(ast.arg(arg=p.name or "_"))
        f = ast.FunctionDef(
            name=name or fn.name,
            args=ast.arguments(posonlyargs=[], args=params, kwonlyargs=[], kw_defaults=[], defaults=[]),
            body=self.stmts(fn.body.stmts) or [ast.Pass()],
            decorator_list=[],
        )
        f.lineno = fn.get("line", 0)  # type: ignore[attr-defined]
        ast.fix_missing_locations(f)
        # fix_missing_locations copies the parent's line into children that
        # have none: keep the ones we set
        return f
