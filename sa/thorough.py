"""Thorough tier: the property's selftest variants (checker sensitivity) are
run on scratch copies; see selftest.py."""
from __future__ import annotations

from typing import Any, Dict

from .core import PropSpec, Repo


def thorough_extra(repo: Repo, spec: PropSpec) -> Dict[str, Any]:
    try:
        from . import selftest
    except ImportError:
        return {"selftest": "not built"}
    return selftest.run_for_property(repo, spec)
