"""
Existential searches, whichever way they are written.

    for x in S:                      if any(P(x) for x in S):        if self.helper(a):      # helper: one of the
        if P(x):                         raise E                         raise E              # two forms, returning bool
            raise E

All three say "E is raised iff some x in S satisfies P".  `exists_at` returns
(S, P) in a canonical spelling (loop variables renamed to _v0, _v1 ..., helper
parameters replaced by the call's arguments), or None when the construct at the
raise is not one of these.
"""

from __future__ import annotations

import ast
import copy
from typing import Dict, List, Optional, Tuple

from .core import enclosing, src_of
from .guards import facts_at


class _Subst(ast.NodeTransformer):
    def __init__(self, mapping: Dict[str, ast.AST]) -> None:
        self.mapping = mapping

    def visit_Name(self, node: ast.Name) -> ast.AST:
        if node.id in self.mapping:
            return copy.deepcopy(self.mapping[node.id])
        return node


def _subst(e: ast.AST, mapping: Dict[str, ast.AST]) -> ast.AST:
    return _Subst(mapping).visit(copy.deepcopy(e))


def _target_map(t: ast.AST) -> Dict[str, ast.AST]:
    names: List[str] = []
    if isinstance(t, ast.Name):
        names = [t.id]
    elif isinstance(t, (ast.Tuple, ast.List)):
        names = [x.id if isinstance(x, ast.Name) else "" for x in t.elts]
    return {n: ast.Name(id=f"_v{i}", ctx=ast.Load()) for i, n in enumerate(names) if n}


def _canon(S: ast.AST, target: ast.AST, P: ast.AST, outer: Optional[Dict[str, ast.AST]] = None) -> Tuple[str, str]:
    mp = dict(outer or {})
    S2 = _subst(S, mp)
    mp2 = dict(mp)
    mp2.update(_target_map(target))
    return ast.unparse(S2), ast.unparse(_subst(P, mp2))


def exists_of_expr(e: ast.AST, outer: Optional[Dict[str, ast.AST]] = None) -> Optional[Tuple[str, str]]:
    """any(P for x in S);  x in S  (some element equals x)"""
    if isinstance(e, ast.Compare) and len(e.ops) == 1 and isinstance(e.ops[0], ast.In):
        mp = dict(outer or {})
        return ast.unparse(_subst(e.comparators[0], mp)), "_v0 == " + ast.unparse(_subst(e.left, mp))
    if isinstance(e, ast.Call) and isinstance(e.func, ast.Name) and e.func.id == "any" and len(e.args) == 1 and isinstance(e.args[0], (ast.GeneratorExp, ast.ListComp)):
        g = e.args[0]
        if len(g.generators) == 1 and not g.generators[0].ifs:
            return _canon(g.generators[0].iter, g.generators[0].target, g.elt, outer)
        if len(g.generators) == 1 and isinstance(g.elt, ast.Constant) and g.elt.value is True and len(g.generators[0].ifs) == 1:
            return _canon(g.generators[0].iter, g.generators[0].target, g.generators[0].ifs[0], outer)
    return None


def exists_of_function(fn: ast.FunctionDef, args: List[ast.AST]) -> Optional[Tuple[str, str]]:
    """A predicate helper: `return any(...)` or `for x in S: if P: return True` ... `return False`."""
    params = [a.arg for a in fn.args.args]
    if params and params[0] in ("self", "cls"):
        params = params[1:]
    outer = {p: a for p, a in zip(params, args)}
    body = [s for s in fn.body if not (isinstance(s, ast.Expr) and isinstance(s.value, ast.Constant))]
    if len(body) == 1 and isinstance(body[0], ast.Return) and body[0].value is not None:
        return exists_of_expr(body[0].value, outer)
    if len(body) == 2 and isinstance(body[0], ast.For) and isinstance(body[1], ast.Return) and isinstance(body[1].value, ast.Constant) and body[1].value.value is False:
        lp = body[0]
        if len(lp.body) == 1 and isinstance(lp.body[0], ast.If) and not lp.body[0].orelse and len(lp.body[0].body) == 1:
            r = lp.body[0].body[0]
            if isinstance(r, ast.Return) and isinstance(r.value, ast.Constant) and r.value.value is True and not lp.orelse:
                return _canon(lp.iter, lp.target, lp.body[0].test, outer)
    return None


def exists_at(raise_node: ast.AST, fn: ast.FunctionDef, methods: Dict[str, ast.FunctionDef]) -> Optional[Tuple[str, str]]:
    """(S, P) such that the raise happens iff some element of S satisfies P."""
    facts = [(e, t) for e, t in facts_at(raise_node, fn, skip_raise_siblings=True)]
    lp = enclosing(raise_node, ast.For)
    if lp is not None and any(lp is x for x in ast.walk(fn)):
        inner = [(e, t) for e, t in facts if any(e is x for x in ast.walk(lp))]
        outer_f = [(e, t) for e, t in facts if not any(e is x for x in ast.walk(lp))]
        if len(inner) == 1 and inner[0][1] and not outer_f:
            return _canon(lp.iter, lp.target, inner[0][0])
        return None
    if len(facts) != 1 or not facts[0][1]:
        return None
    e = facts[0][0]
    r = exists_of_expr(e)
    if r is not None:
        return r
    if isinstance(e, ast.Call) and isinstance(e.func, ast.Attribute) and isinstance(e.func.value, ast.Name) and e.func.value.id == "self" and e.func.attr in methods and not e.keywords:
        return exists_of_function(methods[e.func.attr], list(e.args))
    return None
