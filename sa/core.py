"""
Core of the static checker for hit9/bitproto.

Nothing in here (or in any rule) imports or runs a bitproto module: sources are
only parsed.  Three-valued verdicts:

    exit 0  HOLDS         every rule instance found and satisfied
    exit 1  VIOLATION     a construct contradicts a rule (not listed as known)
    exit 2  INCONCLUSIVE  anchor vanished / shape not understood / floor missed
"""

from __future__ import annotations

import ast
import json
import os
import re
import sys
import time
from dataclasses import dataclass, field
from pathlib import Path
from typing import Any, Callable, Dict, Iterable, List, Optional, Tuple

VERIF = Path(__file__).resolve().parent.parent


class Inconclusive(Exception):
    """The analysis cannot decide (anchor gone, unknown idiom)."""


# --------------------------------------------------------------------------
# Repository access
# --------------------------------------------------------------------------


class Repo:
    """Read-only, parse-only view of the repository working tree."""

    def __init__(self, root: Optional[str] = None, overlay: Optional[Dict[str, str]] = None) -> None:
        self.root = Path(root or os.environ.get("VERIF_REPO", "/repo")).resolve()
        # overlay: relative path -> replacement text (used by the selftest to
        # analyse a variant of the tree without touching /repo)
        self.overlay: Dict[str, str] = dict(overlay or {})
        self._src: Dict[str, str] = {}
        self._py: Dict[str, ast.Module] = {}
        self.cache: Dict[str, Any] = {}

    def path(self, rel: str) -> Path:
        return self.root / rel

    def exists(self, rel: str) -> bool:
        return (self.root / rel).exists()

    def src(self, rel: str) -> str:
        if rel in self.overlay:
            return self.overlay[rel]
        if rel not in self._src:
            p = self.root / rel
            if not p.exists():
                raise Inconclusive(f"anchor file missing: {rel}")
            self._src[rel] = p.read_text(encoding="utf-8")
        return self._src[rel]

    def py(self, rel: str) -> ast.Module:
        if rel not in self._py:
            try:
                tree = ast.parse(self.src(rel), filename=rel)
            except SyntaxError as e:
                raise Inconclusive(f"{rel} does not parse: {e}")
            link_parents(tree)
            tree._rel = rel  # type: ignore[attr-defined]
            self._py[rel] = tree
        return self._py[rel]

    def memo(self, key: str, fn: Callable[[], Any]) -> Any:
        if key not in self.cache:
            self.cache[key] = fn()
        return self.cache[key]


def link_parents(tree: ast.AST) -> None:
    for node in ast.walk(tree):
        for child in ast.iter_child_nodes(node):
            child._parent = node  # type: ignore[attr-defined]


def parent(node: ast.AST) -> Optional[ast.AST]:
    return getattr(node, "_parent", None)


def enclosing(node: ast.AST, kinds) -> Optional[ast.AST]:
    n = parent(node)
    while n is not None and not isinstance(n, kinds):
        n = parent(n)
    return n


def qualname(node: ast.AST) -> str:
    parts: List[str] = []
    n: Optional[ast.AST] = node
    while n is not None:
        if isinstance(n, (ast.FunctionDef, ast.AsyncFunctionDef, ast.ClassDef)):
            parts.append(n.name)
        n = parent(n)
    return ".".join(reversed(parts))


def src_of(node: ast.AST) -> str:
    """Normalised source text of a node (position independent)."""
    try:
        return ast.unparse(node)
    except Exception:  # pragma: no cover
        return ast.dump(node)


def short(s: str, n: int = 160) -> str:
    s = re.sub(r"\s+", " ", s)
    return s if len(s) <= n else s[: n - 3] + "..."


# --------------------------------------------------------------------------
# Findings / rule results
# --------------------------------------------------------------------------


@dataclass
class Finding:
    rule: str
    file: str
    line: int
    where: str  # qualified function / construct owner
    construct: str  # normalised construct text (position independent)
    message: str
    witness: str = ""  # feasibility witness / failing input sketch
    path: List[str] = field(default_factory=list)  # call path for path rules
    tag: str = ""  # stable discriminator chosen by the rule (preferred key part)
    part: str = ""  # which part of the rule's territory (for projection onto properties)

    @property
    def key(self) -> str:
        c = self.tag or short(self.construct, 120)
        return f"{self.rule}|{self.file}|{self.where}|{c}"

    def to_json(self) -> Dict[str, Any]:
        return {
            "rule": self.rule,
            "file": self.file,
            "line": self.line,
            "where": self.where,
            "construct": self.construct,
            "message": self.message,
            "witness": self.witness,
            "path": self.path,
            "key": self.key,
        }

    def text(self) -> str:
        s = f"{self.file}:{self.line}: [{self.rule}] {self.where}: {self.message}"
        if self.construct:
            s += f"\n    construct: {short(self.construct, 200)}"
        if self.witness:
            s += f"\n    witness:   {self.witness}"
        if self.path:
            s += "\n    path:      " + " -> ".join(self.path)
        return s


@dataclass
class RuleResult:
    rule: str
    title: str = ""
    instances: List[Dict[str, Any]] = field(default_factory=list)
    findings: List[Finding] = field(default_factory=list)
    inconclusive: List[str] = field(default_factory=list)
    notes: List[str] = field(default_factory=list)
    floor: int = 0  # minimum number of instances confirmed by hand

    def inst(self, **kw: Any) -> None:
        self.instances.append(kw)

    def bad(self, f: Finding) -> None:
        self.findings.append(f)

    def unsure(self, msg: str) -> None:
        self.inconclusive.append(msg)

    def note(self, msg: str) -> None:
        if msg not in self.notes:
            self.notes.append(msg)

    def finish(self) -> "RuleResult":
        if len(self.instances) < self.floor:
            self.unsure(
                f"{self.rule}: found {len(self.instances)} instances, fewer than the "
                f"floor {self.floor} confirmed by hand (a rule that matches nothing "
                f"must not pass vacuously)"
            )
        return self


RuleFn = Callable[[Repo], RuleResult]
_RULES: Dict[str, RuleFn] = {}
_RULE_DOC: Dict[str, str] = {}


def rule(rule_id: str, title: str = "") -> Callable[[RuleFn], RuleFn]:
    def deco(fn: RuleFn) -> RuleFn:
        def run(repo: Repo) -> RuleResult:
            def compute() -> RuleResult:
                try:
                    res = fn(repo)
                except Inconclusive as e:
                    res = RuleResult(rule_id, title)
                    res.unsure(f"{rule_id}: {e}")
                    return res
                res.title = res.title or title
                return res.finish()

            return repo.memo("rule:" + rule_id, compute)

        _RULES[rule_id] = run
        _RULE_DOC[rule_id] = title
        return run

    return deco


def get_rule(rule_id: str) -> RuleFn:
    return _RULES[rule_id]


def all_rules() -> Dict[str, RuleFn]:
    return dict(_RULES)


# --------------------------------------------------------------------------
# Known findings
# --------------------------------------------------------------------------


def load_known() -> List[Dict[str, Any]]:
    p = VERIF / "known_findings.json"
    if not p.exists():
        return []
    data = json.loads(p.read_text())
    return data.get("findings", [])


def match_known(f: Finding, prop: str, known: List[Dict[str, Any]]) -> Optional[Dict[str, Any]]:
    for k in known:
        if k.get("status", "open") != "open":
            continue  # fixed entries suppress nothing
        if prop not in k.get("properties", []):
            continue
        if k.get("key") == f.key:
            return k
    return None


# --------------------------------------------------------------------------
# Property runner
# --------------------------------------------------------------------------


@dataclass
class PropSpec:
    pid: str
    title: str
    # (rule id, None = everything | set of 'part' labels to project onto)
    rules: List[Tuple[str, Optional[set]]]
    decided: str
    not_decided: str
    assumptions: List[str] = field(default_factory=list)


def _part_ok(parts, part: Any) -> bool:
    return True if parts is None else (part in parts)


def run_property(spec: PropSpec, repo: Repo, tier: str, seed: int, extra: Optional[Callable] = None) -> int:
    t0 = time.time()
    known = load_known()
    per_rule: List[Dict[str, Any]] = []
    violations: List[Finding] = []
    knowns: List[Tuple[Finding, Dict[str, Any]]] = []
    inconclusive: List[str] = []
    samples: List[Any] = []
    n_inst = 0
    distinct: set = set()
    n_ok = 0

    for rid, flt in spec.rules:
        if rid not in _RULES:
            inconclusive.append(f"rule {rid} not registered")
            continue
        res: RuleResult = _RULES[rid](repo)
        insts = [i for i in res.instances if _part_ok(flt, i.get("part", ""))]
        # a finding without a part label is never projected away (fail loud, not silent)
        finds = [f for f in res.findings if _part_ok(flt, f.part) or f.part == ""]
        n_inst += len(insts)
        for i in insts:
            distinct.add(rid + "|" + json.dumps(i, sort_keys=True, default=str))
        per_rule.append(
            {
                "rule": rid,
                "title": res.title,
                "instances": len(insts),
                "findings": len(finds),
                "inconclusive": list(res.inconclusive),
                "notes": res.notes[:12],
            }
        )
        for i in insts[:2]:
            samples.append({"rule": rid, **{k: (short(str(v), 200)) for k, v in i.items()}})
        inconclusive.extend(res.inconclusive)
        for f in finds:
            k = match_known(f, spec.pid, known)
            if k is not None:
                knowns.append((f, k))
            else:
                violations.append(f)
        n_ok += len(insts)

    extra_info: Dict[str, Any] = {}
    if extra is not None and tier == "thorough":
        try:
            extra_info = extra(repo, spec) or {}
            inconclusive.extend(extra_info.pop("inconclusive", []))
        except Inconclusive as e:
            inconclusive.append(f"thorough tier: {e}")

    # ---- report
    print(f"== {spec.pid}: {spec.title}")
    print(f"   repo: {repo.root}   tier: {tier}")
    for r in per_rule:
        status = "ok"
        if r["findings"]:
            status = f"{r['findings']} finding(s)"
        if r["inconclusive"]:
            status += " INCONCLUSIVE"
        print(f"   rule {r['rule']:<14} instances={r['instances']:<4} {status}   {r['title']}")
    for f, k in knowns:
        print(f"KNOWN-FINDING: property={spec.pid} {k.get('id','')} {f.rule} {f.file}:{f.line} {f.where}: {k.get('what', f.message)}")
    evroot = Path(os.environ["VERIF_EVIDENCE_DIR"]) if os.environ.get("VERIF_EVIDENCE_DIR") else VERIF / "evidence"
    vdir = evroot / "violations"
    replay_paths: List[str] = []
    if violations:
        vdir.mkdir(parents=True, exist_ok=True)
    for n, f in enumerate(violations):
        print(f.text())
        slug = re.sub(r"[^A-Za-z0-9_.-]+", "_", f"{spec.pid}-{f.rule}-{f.where}-{n}")[:120]
        vp = vdir / f"{slug}.json"
        vp.write_text(json.dumps({"property": spec.pid, **f.to_json()}, indent=1))
        replay_paths.append(str(vp))
        print(f"VIOLATION property={spec.pid} replay={vp}")
    for msg in inconclusive:
        print(f"ANALYSIS-ERROR property={spec.pid} {msg}")

    wall = time.time() - t0
    evidence = {
        "property_id": spec.pid,
        "tier": tier,
        "seed": seed,
        "level": "other",
        "coverage": {
            "explanation": (
                "Static analysis of /repo's current sources (ast / clang AST / Go subset "
                "parser); nothing of bitproto is executed. Decided: " + spec.decided +
                " NOT decided: " + spec.not_decided
            ),
            "evaluations": max(n_inst, 1),
            "distinct_nontrivial": len(distinct),
            "rule": "one evaluation = one rule instance (a construct in the repo the rule "
                    "was instantiated on); distinct = distinct (rule, construct) pairs",
            "obligations": n_inst,
            "discharged": n_inst - len(violations) - len(knowns),
            "samples": samples[:40],
            "rules": per_rule,
            "known_findings_reported": [
                {"key": f.key, "id": k.get("id"), "what": k.get("what")} for f, k in knowns
            ],
            "inconclusive": inconclusive,
            "exhaustive": False,
            **extra_info,
        },
        "assumptions": spec.assumptions
        + [
            "CPython's ast module and (where C is involved) clang's parser are trusted",
            "ply is trusted to implement LALR parsing of the grammar strings",
        ],
        "wall_s": round(wall, 3),
        "violations": len(violations),
    }
    ev = evroot / f"{spec.pid}.json"
    ev.parent.mkdir(parents=True, exist_ok=True)
    ev.write_text(json.dumps(evidence, indent=1, default=str))

    if violations:
        print(f"RESULT {spec.pid}: VIOLATION ({len(violations)})")
        return 1
    if inconclusive:
        print(f"RESULT {spec.pid}: INCONCLUSIVE ({len(inconclusive)})")
        return 2
    print(f"RESULT {spec.pid}: HOLDS ({n_inst} rule instances, {len(knowns)} known finding(s))")
    return 0
