"""
Lowering of Python function bodies to the E6 IR: a straight-line symbolic
summary (effects with normalised operand expressions).  No value is computed
from an input; conditionals on inputs are kept as guards.
"""

from __future__ import annotations

import ast
from dataclasses import dataclass, field
from typing import Any, Callable, Dict, List, Optional, Tuple

from .core import Inconclusive, src_of
from .normal import (C, Poly, V, band, bnot, bor, call, div8, mod8, opaque, piecewise, pow2, shl, show, shr, sshift, trunc8, vmin)

_PYOPS = {ast.Lt: "<", ast.LtE: "<=", ast.Eq: "==", ast.NotEq: "!=", ast.GtE: ">=", ast.Gt: ">"}


@dataclass
class Effect:
    kind: str  # 'store' | 'call' | 'attr' | 'return'
    name: str
    args: List[Poly] = field(default_factory=list)
    op: str = ""
    guard: List[str] = field(default_factory=list)
    node: Optional[ast.AST] = None

    def __repr__(self) -> str:
        g = f" if {' and '.join(self.guard)}" if self.guard else ""
        return f"{self.kind} {self.name} {self.op} [{', '.join(show(a) for a in self.args)}]{g}"


class PyLower:
    def __init__(
        self,
        funcs: Dict[str, ast.FunctionDef],
        names: Optional[Dict[str, str]] = None,
        drop_args: Tuple[str, ...] = ("di", "ctx", "accessor", "self"),
        assume_nonneg: bool = True,
    ) -> None:
        self.funcs = funcs  # inlineable helpers by (unqualified) name
        self.names = names or {}
        self.drop_args = drop_args
        self.assume_nonneg = assume_nonneg
        self.notes: List[str] = []

    # ------------------------------------------------------------ exprs

    def name(self, dotted: str) -> Poly:
        return V(self.names.get(dotted, dotted))

    def expr(self, e: ast.AST, env: Dict[str, Poly], depth: int = 0) -> Poly:
        if isinstance(e, ast.Constant):
            if isinstance(e.value, bool):
                return C(int(e.value))
            if isinstance(e.value, int):
                return C(e.value)
            return opaque(repr(e.value))
        if isinstance(e, ast.Name):
            if e.id in env:
                return env[e.id]
            return self.name(e.id)
        if isinstance(e, ast.Attribute):
            d = src_of(e)
            if d in env:
                return env[d]
            return self.name(d)
        if isinstance(e, ast.UnaryOp):
            v = self.expr(e.operand, env, depth)
            if isinstance(e.op, ast.USub):
                return -v
            if isinstance(e.op, ast.Invert):
                return bnot(v)
            if isinstance(e.op, ast.UAdd):
                return v
            return opaque(src_of(e))
        if isinstance(e, ast.BinOp):
            l = self.expr(e.left, env, depth)
            r = self.expr(e.right, env, depth)
            op = e.op
            if isinstance(op, ast.Add):
                return l + r
            if isinstance(op, ast.Sub):
                return l - r
            if isinstance(op, ast.Mult):
                return l * r
            if isinstance(op, ast.LShift):
                return shl(l, r)
            if isinstance(op, ast.RShift):
                return shr(l, r)
            if isinstance(op, ast.FloorDiv):
                if r.const_value() == 8:
                    return div8(l)
                return call("floordiv", l, r)
            if isinstance(op, ast.Div):
                return call("truediv", l, r)
            if isinstance(op, ast.Mod):
                if r.const_value() == 8:
                    return mod8(l)
                return call("mod", l, r)
            if isinstance(op, ast.BitAnd):
                return band([l, r])
            if isinstance(op, ast.BitOr):
                return bor([l, r])
            return opaque(src_of(e))
        if isinstance(e, ast.Call):
            return self.call(e, env, depth)
        if isinstance(e, ast.Subscript):
            if src_of(e) in self.names:
                return self.name(src_of(e))
            base = src_of(e.value)
            idx = self.expr(e.slice, env, depth)
            return Poly.atom(("load", self.names.get(base, base), idx))
        if isinstance(e, ast.IfExp):
            a = self.expr(e.body, env, depth)
            b = self.expr(e.orelse, env, depth)
            if a == b:
                return a
            t_ = e.test
            if isinstance(t_, ast.Compare) and len(t_.ops) == 1 and type(t_.ops[0]) in _PYOPS:
                from .normal import piecewise as _pw

                pw_ = _pw([((_PYOPS[type(t_.ops[0])], self.expr(t_.left, env, depth), self.expr(t_.comparators[0], env, depth)), a)], b)
                if pw_ is not None:
                    return pw_
            return Poly.atom(("ite", src_of(e.test), a, b))
        return opaque(src_of(e))

    def call(self, e: ast.Call, env: Dict[str, Poly], depth: int) -> Poly:
        f = e.func
        fname = f.id if isinstance(f, ast.Name) else (f.attr if isinstance(f, ast.Attribute) else None)
        if fname is None:
            return opaque(src_of(e))
        if fname == "min":
            return vmin([self.expr(a, env, depth) for a in e.args])
        if fname == "int" and len(e.args) == 1:
            a = e.args[0]
            # int(x / 8): floor division for x >= 0 (cursors are non-negative)
            if isinstance(a, ast.BinOp) and isinstance(a.op, ast.Div):
                r = self.expr(a.right, env, depth)
                if r.const_value() == 8:
                    if self.assume_nonneg:
                        self.notes.append(f"int({src_of(a)}) read as floor division (operand is a non-negative cursor)")
                    return div8(self.expr(a.left, env, depth))
            return self.expr(a, env, depth)
        if fname in ("byte", "uint8"):
            return trunc8(self.expr(e.args[0], env, depth)) if e.args else opaque(src_of(e))
        is_self_call = isinstance(f, ast.Attribute) and isinstance(f.value, ast.Name) and f.value.id == "self"
        if (isinstance(f, ast.Name) or is_self_call) and fname in self.funcs and depth < 3:
            return self.inline(self.funcs[fname], [self.expr(a, env, depth) for a in e.args], depth + 1)
        args = []
        for a in e.args:
            if isinstance(a, ast.Name) and a.id in self.drop_args:
                continue
            args.append(self.expr(a, env, depth))
        return call(fname, *args)

    # ------------------------------------------------------------ inline

    def inline(self, fn: ast.FunctionDef, args: List[Poly], depth: int) -> Poly:
        params = [a.arg for a in fn.args.args if a.arg not in ("self", "cls")]
        # evaluate on fresh symbolic parameters (so that special cases such as
        # `k == 0` are recognised), then substitute the actual arguments
        env: Dict[str, Poly] = {p: V("$" + p) for p in params}
        out = self._ret_value(fn.body, env, params, depth)
        for p, a in zip(params, args):
            out = out.subst("$" + p, a)
        return out

    def _ret_value(self, body: List[ast.stmt], env: Dict[str, Poly], params: List[str], depth: int) -> Poly:
        env = dict(env)
        branches: List[Tuple[ast.AST, Poly]] = []
        for st in body:
            if isinstance(st, ast.Expr) and isinstance(st.value, ast.Constant):
                continue  # docstring
            if isinstance(st, (ast.Assign, ast.AnnAssign)):
                self._assign(st, env, depth)
                continue
            if isinstance(st, ast.Return):
                general = self.expr(st.value, env, depth) if st.value is not None else C(0)
                return self._merge(branches, general, env, depth)
            if isinstance(st, ast.If):
                cur: Optional[ast.If] = st
                tail: Optional[List[ast.stmt]] = None
                while cur is not None:
                    if not (cur.body and isinstance(cur.body[-1], ast.Return)):
                        return opaque("inline:" + src_of(st)[:40])
                    v = self._ret_value(cur.body, env, params, depth)
                    branches.append((cur.test, v))
                    if len(cur.orelse) == 1 and isinstance(cur.orelse[0], ast.If):
                        cur = cur.orelse[0]
                    else:
                        tail = cur.orelse
                        cur = None
                if tail:
                    general = self._ret_value(tail, env, params, depth)
                    return self._merge(branches, general, env, depth)
                continue
            return opaque("inline:" + src_of(st)[:40])
        return opaque("inline:no-return")

    def _merge(self, branches: List[Tuple[ast.AST, Poly]], general: Poly, env: Dict[str, Poly], depth: int) -> Poly:
        if not branches:
            return general
        # (0) all tests compare one quantity with zero: canonical three-region form
        tests = []
        for t, v in branches:
            if isinstance(t, ast.Compare) and len(t.ops) == 1 and type(t.ops[0]) in _PYOPS:
                tests.append(((_PYOPS[type(t.ops[0])], self.expr(t.left, env, depth), self.expr(t.comparators[0], env, depth)), v))
            elif isinstance(t, ast.UnaryOp) and isinstance(t.op, ast.Not) and isinstance(t.operand, ast.Name):
                tests.append((("==", self.expr(t.operand, env, depth), C(0)), v))
            elif isinstance(t, ast.Name):
                tests.append((("!=", self.expr(t, env, depth), C(0)), v))
            else:
                tests.append((None, v))
        pw = piecewise(tests, general)
        if pw is not None:
            return pw
        # (1) signed-shift shape: k > 0 -> n >> k ; k < 0 -> n << -k ; else n
        if len(branches) == 2:
            (t1, v1), (t2, v2) = branches
            s = self._sign_shape(t1, v1, t2, v2, general, env, depth)
            if s is not None:
                return s
        # (2) redundant special cases `x == const`
        remaining: List[Tuple[ast.AST, Poly]] = []
        for test, val in branches:
            red = False
            if isinstance(test, ast.Compare) and len(test.ops) == 1 and isinstance(test.ops[0], ast.Eq):
                lhs = self.expr(test.left, env, depth)
                rhs = self.expr(test.comparators[0], env, depth)
                cv = rhs.const_value()
                if cv is not None and len(lhs.terms) == 1:
                    (m, c), = lhs.terms.items()
                    if c == 1 and len(m) == 1 and m[0][1] == 1 and m[0][0][0] == "var":
                        if general.subst(m[0][0][1], C(cv)) == val.subst(m[0][0][1], C(cv)):
                            red = True
            if not red:
                remaining.append((test, val))
        if not remaining:
            return general
        if all(v == general for _, v in remaining):
            return general
        return Poly.atom(("ite", tuple(src_of(t) for t, _ in remaining), tuple(v for _, v in remaining), general))

    def _sign_shape(self, t1: ast.AST, v1: Poly, t2: ast.AST, v2: Poly, general: Poly, env: Dict[str, Poly], depth: int) -> Optional[Poly]:
        def sign(t: ast.AST) -> Optional[Tuple[Poly, str]]:
            if isinstance(t, ast.Compare) and len(t.ops) == 1:
                k = self.expr(t.left, env, depth)
                z = self.expr(t.comparators[0], env, depth)
                if z.const_value() == 0:
                    if isinstance(t.ops[0], ast.Gt):
                        return k, ">"
                    if isinstance(t.ops[0], ast.Lt):
                        return k, "<"
            return None

        s1, s2 = sign(t1), sign(t2)
        if s1 is None or s2 is None or s1[0] != s2[0] or {s1[1], s2[1]} != {">", "<"}:
            return None
        k = s1[0]
        pos, neg = (v1, v2) if s1[1] == ">" else (v2, v1)
        n = general
        if pos == shr(n, k) and neg == shl(n, -k):
            return sshift(n, k)
        return None

    # ------------------------------------------------------------ stmts

    def _assign(self, st: ast.stmt, env: Dict[str, Poly], depth: int) -> None:
        if isinstance(st, ast.AnnAssign):
            if st.value is not None and isinstance(st.target, ast.Name):
                env[st.target.id] = self.expr(st.value, env, depth)
            return
        assert isinstance(st, ast.Assign)
        for t in st.targets:
            if isinstance(t, ast.Name):
                env[t.id] = self.expr(st.value, env, depth)
            elif isinstance(t, ast.Tuple) and isinstance(st.value, ast.Tuple) and len(t.elts) == len(st.value.elts):
                vals = [self.expr(v, env, depth) for v in st.value.elts]
                for a, v in zip(t.elts, vals):
                    if isinstance(a, ast.Name):
                        env[a.id] = v

    def summarize(self, fn: ast.FunctionDef, env: Optional[Dict[str, Poly]] = None, guard: Optional[List[str]] = None) -> Tuple[List[Effect], Dict[str, Poly]]:
        """Effects of a function body (assignments folded into the
        environment; stores, calls, attribute updates and returns recorded).
        `if` statements on inputs fork: effects carry their guard."""
        env = dict(env or {})
        effects: List[Effect] = []
        self._block(fn.body, env, effects, guard or [])
        return effects, env

    def _block(self, body: List[ast.stmt], env: Dict[str, Poly], effects: List[Effect], guard: List[str]) -> None:
        for st in body:
            if isinstance(st, ast.Expr) and isinstance(st.value, ast.Constant):
                continue
            if isinstance(st, (ast.Assign, ast.AnnAssign)):
                tgt = st.targets[0] if isinstance(st, ast.Assign) else st.target
                if isinstance(tgt, ast.Subscript):
                    base = src_of(tgt.value)
                    effects.append(Effect("store", self.names.get(base, base), [self.expr(tgt.slice, env), self.expr(st.value, env)], "=", list(guard), st))
                elif isinstance(tgt, ast.Attribute) and src_of(tgt) not in env and not isinstance(st, ast.AnnAssign):
                    effects.append(Effect("attr", self.names.get(src_of(tgt), src_of(tgt)), [self.expr(st.value, env)], "=", list(guard), st))
                    env[src_of(tgt)] = self.expr(st.value, env)
                else:
                    self._assign(st, env, 0)
            elif isinstance(st, ast.AugAssign):
                opname = {ast.Add: "+=", ast.Sub: "-=", ast.BitOr: "|=", ast.BitAnd: "&=", ast.LShift: "<<=", ast.RShift: ">>="}.get(type(st.op), "?=")
                v = self.expr(st.value, env)
                if isinstance(st.target, ast.Subscript) and src_of(st.target) in self.names:
                    effects.append(Effect("attr", self.names[src_of(st.target)], [v], opname, list(guard), st))
                elif isinstance(st.target, ast.Subscript):
                    base = src_of(st.target.value)
                    effects.append(Effect("store", self.names.get(base, base), [self.expr(st.target.slice, env), v], opname, list(guard), st))
                elif isinstance(st.target, ast.Attribute):
                    d = src_of(st.target)
                    effects.append(Effect("attr", self.names.get(d, d), [v], opname, list(guard), st))
                elif isinstance(st.target, ast.Name):
                    effects.append(Effect("attr", self.names.get(st.target.id, st.target.id), [v], opname, list(guard), st))
                    if opname == "+=":
                        env[st.target.id] = env.get(st.target.id, self.name(st.target.id)) + v
            elif isinstance(st, ast.Expr) and isinstance(st.value, ast.Call):
                c = st.value
                f = c.func
                fname = f.id if isinstance(f, ast.Name) else (f.attr if isinstance(f, ast.Attribute) else "?")
                args = [self.expr(a, env) for a in c.args if not (isinstance(a, ast.Name) and a.id in self.drop_args)]
                effects.append(Effect("call", fname, args, "", list(guard), st))
            elif isinstance(st, ast.Return):
                effects.append(Effect("return", "", [self.expr(st.value, env)] if st.value is not None else [], "", list(guard), st))
            elif isinstance(st, ast.If):
                t = src_of(st.test)
                self._block(st.body, dict(env), effects, guard + [t])
                if st.orelse:
                    self._block(st.orelse, dict(env), effects, guard + [f"not ({t})"])
            elif isinstance(st, (ast.While, ast.For, ast.With, ast.Try)):
                effects.append(Effect("compound", type(st).__name__, [], "", list(guard), st))
            elif isinstance(st, ast.Pass):
                continue
            else:
                effects.append(Effect("other", type(st).__name__, [], "", list(guard), st))
