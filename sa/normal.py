"""
E6 - common expression IR and normaliser.

Integer expressions of Python / Go / C functions of interest are lowered to
polynomials (with integer coefficients) over atoms and brought to a normal
form under a fixed theory:

  ring axioms (polynomial normal form)
  1 << e, x << e           ->  pow2(e), x * pow2(e);  pow2(a)*pow2(b) = pow2(a+b)
  x >> 3, x // 8, int(x/8) ->  div8(x)        x & 7, x % 8 -> mod8(x)
  8 * div8(x)              ->  x - mod8(x)
  ~x                       ->  -x - 1
  x & 255, byte(x), (unsigned char)x -> trunc8(x)
  min / & / | flattened and sorted

This is expression normalisation, not execution: no value is ever computed
from an input.  Two expressions are considered equal iff their normal forms
coincide; anything outside the theory stays an opaque atom.
"""

from __future__ import annotations

from dataclasses import dataclass
from typing import Any, Dict, FrozenSet, Iterable, List, Optional, Tuple

# An atom is a tuple: (kind, *args) where args are Poly or str
# A monomial is a tuple of (atom, exponent) sorted; Poly maps monomial -> coeff

Atom = Tuple[Any, ...]
Mono = Tuple[Tuple[Atom, int], ...]


class Poly:
    __slots__ = ("terms",)

    def __init__(self, terms: Optional[Dict[Mono, int]] = None) -> None:
        self.terms: Dict[Mono, int] = {m: c for m, c in (terms or {}).items() if c != 0}

    # ---- constructors
    @staticmethod
    def const(c: int) -> "Poly":
        return Poly({(): c})

    @staticmethod
    def atom(a: Atom) -> "Poly":
        return Poly({((a, 1),): 1})

    @staticmethod
    def var(name: str) -> "Poly":
        return Poly.atom(("var", name))

    # ---- queries
    def is_const(self) -> bool:
        return all(m == () for m in self.terms)

    def const_value(self) -> Optional[int]:
        if self.is_const():
            return self.terms.get((), 0)
        return None

    def key(self) -> Tuple[Any, ...]:
        return tuple(sorted(((_mono_key(m), c) for m, c in self.terms.items())))

    def __eq__(self, o: object) -> bool:
        return isinstance(o, Poly) and self.key() == o.key()

    def __hash__(self) -> int:
        return hash(self.key())

    # ---- arithmetic
    def __add__(self, o: "Poly") -> "Poly":
        t = dict(self.terms)
        for m, c in o.terms.items():
            t[m] = t.get(m, 0) + c
        return _post(Poly(t))

    def __neg__(self) -> "Poly":
        return Poly({m: -c for m, c in self.terms.items()})

    def __sub__(self, o: "Poly") -> "Poly":
        return self + (-o)

    def __mul__(self, o: "Poly") -> "Poly":
        t: Dict[Mono, int] = {}
        for m1, c1 in self.terms.items():
            for m2, c2 in o.terms.items():
                m, k = _mono_mul(m1, m2)
                t[m] = t.get(m, 0) + c1 * c2 * k
        return _post(Poly(t))

    def scale(self, k: int) -> "Poly":
        return Poly({m: c * k for m, c in self.terms.items()})

    def subst(self, name: str, val: "Poly") -> "Poly":
        out = Poly.const(0)
        for m, c in self.terms.items():
            term = Poly.const(c)
            for a, e in m:
                pa = _subst_atom(a, name, val)
                for _ in range(e):
                    term = term * pa
            out = out + term
        return out

    def atoms(self) -> List[Atom]:
        out: List[Atom] = []
        for m in self.terms:
            for a, _ in m:
                out.append(a)
        return out

    def __repr__(self) -> str:
        return show(self)


def _mono_key(m: Mono) -> Tuple[Any, ...]:
    return tuple((_atom_key(a), e) for a, e in m)


def _atom_key(a: Atom) -> Tuple[Any, ...]:
    return tuple(x.key() if isinstance(x, Poly) else (tuple(_k(y) for y in x) if isinstance(x, tuple) else x) for x in a)


def _k(y: Any) -> Any:
    return y.key() if isinstance(y, Poly) else y


def _mono_mul(m1: Mono, m2: Mono) -> Tuple[Mono, int]:
    """Multiply two monomials; merges pow2 atoms: pow2(a)*pow2(b)=pow2(a+b)."""
    d: Dict[Tuple[Any, ...], Tuple[Atom, int]] = {}
    pow_exp: Optional[Poly] = None
    for a, e in list(m1) + list(m2):
        if a[0] == "pow2":
            ex = a[1].scale(e)
            pow_exp = ex if pow_exp is None else pow_exp + ex
            continue
        k = _atom_key(a)
        if k in d:
            d[k] = (a, d[k][1] + e)
        else:
            d[k] = (a, e)
    coeff = 1
    items = list(d.values())
    if pow_exp is not None:
        cv = pow_exp.const_value()
        if cv is not None and 0 <= cv <= 4096:
            coeff = 1 << cv
        else:
            items.append((("pow2", pow_exp), 1))
    items = [(a, e) for a, e in items if e != 0]
    items.sort(key=lambda ae: repr(_atom_key(ae[0])))
    return tuple(items), coeff


def _post(p: Poly) -> Poly:
    """8k * div8(x) -> k * (x - mod8(x))."""
    changed = False
    out: Dict[Mono, int] = {}
    extra = Poly.const(0)
    for m, c in p.terms.items():
        if len(m) == 1 and m[0][1] == 1 and m[0][0][0] == "div8" and c % 8 == 0 and c != 0:
            x = m[0][0][1]
            extra = _raw_add(extra, (x - mod8(x)).scale(c // 8))
            changed = True
        else:
            out[m] = out.get(m, 0) + c
    if not changed:
        return p
    return _raw_add(Poly(out), extra)


def _raw_add(a: Poly, b: Poly) -> Poly:
    t = dict(a.terms)
    for m, c in b.terms.items():
        t[m] = t.get(m, 0) + c
    return Poly(t)


def _subst_atom(a: Atom, name: str, val: Poly) -> Poly:
    if a[0] == "var":
        return val if a[1] == name else Poly.atom(a)
    new: List[Any] = [a[0]]
    for x in a[1:]:
        if isinstance(x, Poly):
            new.append(x.subst(name, val))
        elif isinstance(x, tuple):
            new.append(tuple(y.subst(name, val) if isinstance(y, Poly) else y for y in x))
        else:
            new.append(x)
    return rebuild(tuple(new))


def rebuild(a: Atom) -> Poly:
    k = a[0]
    if k == "pow2":
        return pow2(a[1])
    if k == "div8":
        return div8(a[1])
    if k == "mod8":
        return mod8(a[1])
    if k == "min":
        return vmin(list(a[1]))
    if k == "and":
        return band(list(a[1]))
    if k == "or":
        return bor(list(a[1]))
    if k == "trunc8":
        return trunc8(a[1])
    if k == "sshift":
        return sshift(a[1], a[2])
    if k == "shr":
        return shr(a[1], a[2])
    if k == "call" and a[1] in ("floordiv", "div", "mod", "max", "min"):
        return call(a[1], *a[2])
    return Poly.atom(a)


# ---- smart constructors ----------------------------------------------------


def C(c: int) -> Poly:
    return Poly.const(c)


def V(name: str) -> Poly:
    return Poly.var(name)


def pow2(e: Poly) -> Poly:
    cv = e.const_value()
    if cv is not None and 0 <= cv <= 4096:
        return C(1 << cv)
    return Poly.atom(("pow2", e))


def div8(x: Poly) -> Poly:
    cv = x.const_value()
    if cv is not None and cv >= 0:
        return C(cv // 8)
    return Poly.atom(("div8", x))


def mod8(x: Poly) -> Poly:
    cv = x.const_value()
    if cv is not None and cv >= 0:
        return C(cv % 8)
    # mod8(mod8(y)) = mod8(y)
    if len(x.terms) == 1:
        (m, c), = x.terms.items()
        if c == 1 and len(m) == 1 and m[0][1] == 1 and m[0][0][0] == "mod8":
            return x
    return Poly.atom(("mod8", x))


def vmin(args: List[Poly]) -> Poly:
    if args and all(a.const_value() is not None for a in args):
        return C(min(a.const_value() for a in args))  # type: ignore[type-var]
    flat: List[Poly] = []
    for a in args:
        if len(a.terms) == 1:
            (m, c), = a.terms.items()
            if c == 1 and len(m) == 1 and m[0][1] == 1 and m[0][0][0] == "min":
                flat.extend(m[0][0][1])
                continue
        flat.append(a)
    uniq = {p.key(): p for p in flat}
    items = tuple(sorted(uniq.values(), key=lambda p: repr(p.key())))
    if len(items) == 1:
        return items[0]
    return Poly.atom(("min", items))


def _flat(kind: str, args: List[Poly]) -> Tuple[Poly, ...]:
    flat: List[Poly] = []
    for a in args:
        if len(a.terms) == 1:
            (m, c), = a.terms.items()
            if c == 1 and len(m) == 1 and m[0][1] == 1 and m[0][0][0] == kind:
                flat.extend(m[0][0][1])
                continue
        flat.append(a)
    uniq = {p.key(): p for p in flat}
    return tuple(sorted(uniq.values(), key=lambda p: repr(p.key())))


def band(args: List[Poly]) -> Poly:
    if args and all(a.const_value() is not None for a in args):
        v = -1
        for a in args:
            v &= a.const_value()  # type: ignore[operator]
        return C(v)
    items = _flat("and", args)
    # x & 7 -> mod8 ; x & 255 -> trunc8
    consts = [p for p in items if p.const_value() is not None]
    others = [p for p in items if p.const_value() is None]
    if len(consts) == 1 and len(others) == 1:
        cv = consts[0].const_value()
        if cv == 7:
            return mod8(others[0])
        if cv == 255:
            return trunc8(others[0])
    if len(items) == 1:
        return items[0]
    return Poly.atom(("and", items))


def bor(args: List[Poly]) -> Poly:
    items = _flat("or", args)
    if len(items) == 1:
        return items[0]
    return Poly.atom(("or", items))


def trunc8(x: Poly) -> Poly:
    cv = x.const_value()
    if cv is not None:
        return C(cv & 255)
    if len(x.terms) == 1:
        (m, c), = x.terms.items()
        if c == 1 and len(m) == 1 and m[0][1] == 1 and m[0][0][0] == "trunc8":
            return x
    return Poly.atom(("trunc8", x))


def shr(x: Poly, k: Poly) -> Poly:
    cv = k.const_value()
    if cv == 3:
        return div8(x)
    if cv == 0:
        return x
    xv = x.const_value()
    if xv is not None and cv is not None and cv >= 0:
        return C(xv >> cv)
    return Poly.atom(("shr", x, k))


def shl(x: Poly, k: Poly) -> Poly:
    return x * pow2(k)


def sshift(x: Poly, k: Poly) -> Poly:
    """Signed shift: right by k if k > 0, left by -k if k < 0."""
    cv = k.const_value()
    if cv == 0:
        return x
    return Poly.atom(("sshift", x, k))


def call(name: str, *args: Poly) -> Poly:
    if name in ("max", "min") and args and all(a.const_value() is not None for a in args):
        vals = [a.const_value() for a in args]
        return C(max(vals) if name == "max" else min(vals))  # type: ignore[type-var]
    if name in ("floordiv", "div", "mod") and len(args) == 2:
        a, b = args[0].const_value(), args[1].const_value()
        if a is not None and b is not None and b != 0:
            return C(a // b) if name != "mod" else C(a % b)
    return Poly.atom(("call", name, tuple(args)))


def opaque(text: str) -> Poly:
    return Poly.atom(("opaque", text))


def bnot(x: Poly) -> Poly:
    return -x - C(1)


# ---- printing ----------------------------------------------------------------


def show(p: Poly) -> str:
    if not p.terms:
        return "0"
    parts = []
    for m, c in sorted(p.terms.items(), key=lambda mc: repr(_mono_key(mc[0]))):
        fs = []
        for a, e in m:
            s = show_atom(a)
            fs.append(s if e == 1 else f"{s}^{e}")
        body = "*".join(fs)
        if not body:
            parts.append(str(c))
        elif c == 1:
            parts.append(body)
        elif c == -1:
            parts.append("-" + body)
        else:
            parts.append(f"{c}*{body}")
    return " + ".join(parts).replace("+ -", "- ")


def show_atom(a: Atom) -> str:
    k = a[0]
    if k == "var":
        return str(a[1])
    if k in ("pow2", "div8", "mod8", "trunc8"):
        return f"{k}({show(a[1])})"
    if k in ("min", "and", "or"):
        return f"{k}(" + ", ".join(show(x) for x in a[1]) + ")"
    if k in ("shr", "sshift"):
        return f"{k}({show(a[1])}, {show(a[2])})"
    if k == "call":
        return f"{a[1]}(" + ", ".join(show(x) for x in a[2]) + ")"
    if k == "mcall":
        return f"{show(a[2][0])}.{a[1]}(" + ", ".join(show(x) for x in a[2][1:]) + ")"
    if k == "kw":
        return f"{a[1]}={show(a[2])}"
    if k == "str":
        return repr(a[1])
    if k == "none":
        return "None"
    if k == "tpl":
        return "f'" + "".join(x if isinstance(x, str) else "{" + show(x) + "}" for x in a[1]) + "'"
    if k == "tuple":
        return "(" + ", ".join(show(x) for x in a[1]) + ")"
    if k == "attr":
        return f"{show(a[1])}.{a[2]}"
    if k == "item":
        return f"{show(a[1])}[{a[2]}]"
    if k == "arr":
        return f"{a[1]}"
    if k == "comp":
        return f"[{show(a[1]) if isinstance(a[1], Poly) else a[1]} for {a[2]} in {show(a[3])}]"
    if k == "sumloop":
        return f"sum({show(a[1])} for $0 in {show(a[2])})"
    if k == "ptr":
        return f"({a[1]}*){show(a[2])}"
    if k == "join":
        return f"{show(a[1])}.join({show(a[2])})"
    if k == "slice":
        return f"{show(a[1])}[{a[2]}]"
    if k == "dict":
        return "{" + ", ".join(f"{show(x)}: {show(y)}" for x, y in zip(a[1], a[2])) + "}"
    if k == "load":
        return f"{a[1] if isinstance(a[1], str) else show(a[1])}[{show(a[2])}]"
    if k == "opaque":
        return f"<{a[1]}>"
    return repr(a)


# ---- piecewise definitions ----------------------------------------------------

_HOLD = {"<": {"lt"}, "<=": {"lt", "eq"}, "==": {"eq"}, "!=": {"lt", "gt"}, ">=": {"eq", "gt"}, ">": {"gt"}}
_FLIP = {"<": ">", "<=": ">=", "==": "==", "!=": "!=", ">=": "<=", ">": "<"}


def _single_var(d: Poly) -> Optional[Tuple[str, int, int]]:
    """d == s*x + c for a variable x, s in {1,-1}: returns (x, s, c)."""
    name, s, c = None, 0, 0
    for m, cf in d.terms.items():
        if m == ():
            c = cf
        elif len(m) == 1 and m[0][1] == 1 and m[0][0][0] == "var" and name is None and cf in (1, -1):
            name, s = m[0][0][1], cf
        else:
            return None
    if name is None:
        return None
    return name, s, c


def piecewise(branches: List[Tuple[Optional[Tuple[str, Poly, Poly]], Poly]], general: Poly) -> Optional[Poly]:
    """Canonical value of `if t1: return v1 ... else: return general` when every
    test compares the same quantity d = l - r with zero.  The result does not
    depend on the order or polarity the tests are written in: the three
    regions d<0, d==0, d>0 are evaluated and then merged / recognised."""
    if not branches:
        return general
    if any(t is None for t, _ in branches):
        return None
    op0, l0, r0 = branches[0][0]  # type: ignore[misc]
    d0 = l0 - r0
    norm: List[Tuple[str, Poly]] = []
    for t, v in branches:
        op, l, r = t  # type: ignore[misc]
        if op not in _HOLD:
            return None
        d = l - r
        if d == d0:
            norm.append((op, v))
        elif d == -d0:
            norm.append((_FLIP[op], v))
        else:
            return None
    reg = {r: next((v for op, v in norm if r in _HOLD[op]), general) for r in ("lt", "eq", "gt")}
    # a region whose value is itself a three-region form over the same quantity selects that region
    # of it (nested conditionals: `if k == 0: n else (n >> k if k > 0 else n << -k)`)
    for r_ in ("lt", "eq", "gt"):
        v_ = reg[r_]
        if len(v_.terms) == 1:
            (m_, c_), = v_.terms.items()
            if c_ == 1 and len(m_) == 1 and m_[0][1] == 1 and m_[0][0][0] == "ite3":
                _, d_in, l_in, e_in, g_in = m_[0][0]
                if d_in == d0:
                    reg[r_] = {"lt": l_in, "eq": e_in, "gt": g_in}[r_]
                elif d_in == -d0:
                    reg[r_] = {"lt": g_in, "eq": e_in, "gt": l_in}[r_]
    lt, eq, gt = reg["lt"], reg["eq"], reg["gt"]
    if lt == eq and eq == gt:
        return eq
    sv = _single_var(d0)
    if sv is not None:
        x, s, c = sv
        at = C(-c * s)  # d0 == 0  <=>  x == -c/s
        if lt == gt and lt.subst(x, at) == eq.subst(x, at):
            return lt
    # signed shift: d>0 -> n >> d ; d<0 -> n << -d ; d==0 -> n
    for k, pos, neg in ((d0, gt, lt), (-d0, lt, gt)):
        n = eq
        if pos == shr(n, k) and neg == shl(n, -k):
            return sshift(n, k)
    # min(l0, r0)
    if lt == l0 and gt == r0 and (eq == l0 or eq == r0):
        return vmin([l0, r0])
    # canonical three-region form (sign of d fixed by its smallest monomial)
    flip = False
    ks = sorted(d0.terms.items(), key=lambda mc: _mono_key(mc[0]))
    lead = next((cf for m, cf in ks if m != ()), 1)
    if lead < 0:
        flip = True
    if flip:
        return Poly.atom(("ite3", -d0, gt, eq, lt))
    return Poly.atom(("ite3", d0, lt, eq, gt))
