"""
Property -> rules.  A property's check evaluates only the rule instances that
live in the code the property is about (the `parts` projection).
"""

from __future__ import annotations

from typing import Dict, List, Optional, Set, Tuple

from .core import PropSpec

ALL = None


def P(pid: str, title: str, rules: List[Tuple[str, Optional[Set[str]]]], decided: str, not_decided: str, assumptions: Optional[List[str]] = None) -> PropSpec:
    return PropSpec(pid, title, rules, decided, not_decided, assumptions or [])


PROPS: Dict[str, PropSpec] = {}


def reg(p: PropSpec) -> None:
    PROPS[p.pid] = p


reg(P(
    "C08", "A schema is accepted iff it satisfies the documented constraints",
    [("C1", ALL), ("A8", ALL), ("A7", ALL), ("B3", ALL), ("B5", ALL), ("A1", {"parse"}), ("B1", ALL), ("B2", ALL), ("B6", ALL), ("A12", ALL), ("A5", {"parse-guard", "fatal", "lang-required"}), ("C9", ALL)],
    "every catalogue entry has a correctly bounded, wired, correctly typed check (C1 intervals and predicates; A8 validator wiring and freeze chain; A7 live duplicate tables); the grammar admits in each scope only what is allowed or explicitly rejected (B3); references resolve eagerly and only to earlier definitions of the right kind (B5, C1 kind checks); rejection is a ParserError (A1/B1/B6) citing file and line (B2) with non-zero exit and no render (A5).",
    "the acceptance function is not executed; constraints are compared with the catalogue of the property statement, not discovered.",
))

reg(P(
    "C09", "Compilation is total: any input yields success or a parser error",
    [("A1", ALL), ("A2", ALL), ("B1", ALL), ("B6", ALL), ("A12", ALL), ("A13", ALL), ("A8", {"pairing", "filepath"}), ("C9", ALL), ("T1", ALL)],
    "no exception class other than ParserError/OSError escapes parse(), none escapes lint(), none other than RendererError/OSError escapes render() for the four renderers (A1 over an RTA call graph with handler contexts; discharges by dominating guards, exhaustive dispatch A2, index/grammar consistency B1, typestate A12/A13, option table C9, and the triaged invariants of beliefs.json); p_error/t_error always raise (B6); every loop has a strictly advancing counter or ranges over a finite collection, recursion descends the acyclic type graph (T1).",
    "RecursionError / memory / time on pathologically large accepted schemas; behaviour inside ply; UnicodeDecodeError while reading a file (input is text).",
))

reg(P(
    "C11", "Names resolve to the innermost visible earlier definition",
    [("B5", ALL), ("V1", {"reference"}), ("B1", ALL)],
    "lookup walks the current file's slice of the scope stack innermost first and returns the first hit; scopes become members only when complete; dotted names descend only through scopes; an import is pushed under its `as` name exactly for the 4-symbol alternative; the object found is the one stored in the field/array/alias (V1).",
    "no schema is compiled; the behaviour of dict/list primitives is trusted.",
))

reg(P(
    "C13", "Constants evaluate arithmetically and reach every target language intact",
    [("B4", ALL), ("V1", {"constant"}), ("C6", ALL), ("A1", {"parse"})],
    "precedence/associativity table, operand order and integer division of the four binary actions, grouping, literal decoding, escape table, token order (B4); the evaluated value is what Constant.value, Array.cap and option values receive (V1); bool/int literal tables per language and string constants reach quoted templates only through an escaping function; the three constant-emission templates take value and type from the same constant (C6).",
    "numeric results are not computed; Python's int arithmetic is trusted.",
))

reg(P(
    "C17", "-O and -F restrict what is generated without altering it",
    [("A9", ALL), ("B3", {"extensible-marker"}), ("A5", {"filter-needs-O", "parse-guard", "fatal"}), ("F4", ALL)],
    "traditional mode reaches every Parser including import children; the extensible marker is derivable only through the guarded production; language capability is checked at renderer construction; -F without -O hits fatal before render; the -F list only selects encoder/decoder function blocks with one shared predicate and never flows into a template; data-structure dispatchers ignore it (F4).",
    "textual identity of two compiler runs is not observed; it follows from F4's non-interference only as far as the template abstraction goes.",
))

reg(P(
    "C18", "Compilation is deterministic",
    [("A10", ALL), ("A7", ALL), ("A6", ALL), ("A8", {"filepath", "pairing"})],
    "no nondeterminism source (set iteration, hash(), id(), cwd/env/time/random) on the output path outside the documented output-directory default; no module/class-level mutable state written after import; caches are per node and hold it strongly; lint does not write the AST; shared parser stacks are restored by try/finally and paired push/pop.",
    "ply and CPython are trusted to be deterministic.",
))

reg(P(
    "C20", "Lint is advisory and diagnostics point at the right line",
    [("A6", ALL), ("A11", ALL), ("C7", ALL), ("B2", ALL), ("A5", {"check-only", "fatal"})],
    "lint and renderers never write the AST (A6); every rule is registered, targets a supported type and cites the checked definition (A11); each rule tests its kind's convention with the right polarity (C7); positions come from tracked symbols, node token/column/line refer to the name symbol, the newline rule is the only line counter and no other token can swallow a newline, the diagnostic template contains file and L<line> (B2); check-only exits non-zero iff an error or a warning (A5).",
    "column arithmetic of _get_col; behaviour of pascal_case/snake_case on arbitrary words.",
))

reg(P(
    "C01", "Python encoder emits exactly the specified bit layout",
    [("D5", {"ast", "py", "common"}), ("A4", {"ast", "py"}), ("D1", {"py"}), ("E1", {"py"}), ("C3", {"py", "ast"}), ("D3", {"py"}), ("D6", {"py"}), ("D7", {"py"}), ("C4", {"py"})],
    "size arithmetic equals the specification and BYTES_LENGTH / the encode allocation come from Message.nbytes() (D5); the processor list and dataclass fields are emitted in ascending field-number order (A4); the single-chunk encoder of bp.py equals the layout rule's normal form - stream byte i div 8, value byte 8*(j div 8), shift j mod 8 - i mod 8, mask 2^(i mod 8 + c) - 2^(i mod 8), OR store (D1) - and the chunk size satisfies 1 <= c <= 8, fits both bytes and never exceeds the field (E1); prefix: 16 bits, written before the children, carrying nbits/capacity (C3, D3); generated getters return (field >> rshift) for the field with that number and array depth (D6); alias/enum processors only delegate (D7); generator/runtime constructor arguments agree positionally (C4).",
    "that the composition of these yields the exact bytes for every schema and value (nothing is executed; no proof of the whole encoder).",
))

reg(P(
    "C02", "Python decode(encode(v)) == v, and re-encoding reproduces the bytes",
    [("D1", {"py"}), ("E1", {"py"}), ("D6", {"py"}), ("D4", {"py"}), ("D3", {"py"}), ("D7", {"py"}), ("C3", {"py"}), ("C4", {"py"})],
    "the decode chunk is the mirror of the encode chunk (D1 both directions against the same specification form); set-byte items OR a totally-converted chunk into the same reference the get-byte item reads, `=` only for bool, enum chunks go to the integer proxy (D6); sign extension from bit n-1 with mask -(2^n) for every width narrower than its storage, bp.intN thresholds 2^(N-1) / modulus 2^N (D4); decode half of the extensible processors including the skip target (D3); mask < 256 and progress (E1).",
    "equality of values; exceptions inside dataclasses / IntEnum for member values.",
))

reg(P(
    "C05", "Forward compatibility: an older schema decodes data from an extended one",
    [("D3", ALL), ("C3", ALL), ("EC3", ALL)],
    "in the six extensible processors (message and array x Python/Go/C): the start position is read before the prefix, the prefix is written on encode and read on decode under `extensible`, children run in order, the cursor moves only when decoding, every forward move passes the guard, and the skip target is start + sender-bits for messages and start + 16 + sender-capacity x bits-per-element for arrays (D3, EC3); what the sender writes (nbits / capacity, 16 bits, scratch field number 1) is what the receiver reads (C3).",
    "decoded values; only the position arithmetic is decided.",
))

reg(P(
    "C15", "Generated API names follow the documented scheme",
    [("C5", ALL)],
    "each effective entry of the three case_style_mapping() tables lies in the set the scheme allows for that (language, kind): identity on style-guide names, except the fixed transformations C message -> pascal, Python message -> keep, Go struct field -> pascal; style names resolve to the right converter functions; nested names are prefix + enclosing names outermost first + own name; Encode/Decode/Json/BYTES_LENGTH_/BYTES_LENGTH/encode/decode/Size/JSON-tag templates; output file name and extensions; the C name prefix flows only into the definition-name builder.",
    "behaviour of pascal_case / snake_case / upper_case on arbitrary words (assumed: keep is the identity, pascal on PascalCase, snake on snake_case, upper and (snake, upper) on UPPER_SNAKE).",
    ["keep_case/pascal_case/snake_case/upper_case are the identity on names of their own style"],
))

reg(P(
    "C19", "Go standard-mode output describes the same messages as the Python output",
    [("D6", {"go"}), ("A2", {"go", "common"}), ("A4", {"go", "ast"}), ("C2", {"generator", "go"}), ("D5", {"go", "ast", "common"}), ("D4", {"go"}), ("D1", {"go"}), ("E1", {"go"}), ("D3", {"go"}), ("D7", {"go"}), ("C3", {"go"}), ("C4", {"go"}), ("G1", ALL)],
    "Go struct fields and processor list in ascending field-number order (A4) with the smallest covering integer types (C2); size constant and Size() from Message.nbytes() (D5); processor constructors agree positionally with the runtime's New* functions (C4); byte accessors address the field by number and array depth, widen before the left shift and narrow after the right shift, conversion type = leaf type / alias name (D6); shift-pair sign extension exactly for widths narrower than storage (D4); the Go runtime's chunk helpers, loop and extensible processors reach the same normal forms as the specification, hence as Python's (D1, E1, D3, D7, C3, G1).",
    "that generated Go compiles (no Go toolchain in the sandbox).",
))
