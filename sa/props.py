"""
Property -> rules.  A property's check evaluates only the rule instances that
live in the code the property is about (the `parts` projection).
"""

from __future__ import annotations

from typing import Dict, List, Optional, Set, Tuple

from .core import PropSpec

ALL = None


def P(pid: str, title: str, rules: List[Tuple[str, Optional[Set[str]]]], decided: str, not_decided: str, assumptions: Optional[List[str]] = None) -> PropSpec:
    return PropSpec(pid, title, rules, decided, not_decided, assumptions or [])


PROPS: Dict[str, PropSpec] = {}


def reg(p: PropSpec) -> None:
    PROPS[p.pid] = p


reg(P(
    "C08", "A schema is accepted iff it satisfies the documented constraints",
    [("C1", ALL), ("A8", ALL), ("A7", ALL), ("B3", ALL), ("B5", ALL), ("A1", {"parse"}), ("B1", ALL), ("B2", ALL), ("B6", ALL), ("A12", ALL), ("A5", {"parse-guard", "fatal", "lang-required"}), ("C9", ALL), ("V1", {"kinds"})],
    "every catalogue entry has a correctly bounded, wired, correctly typed check (C1 intervals and predicates; A8 validator wiring and freeze chain; A7 live duplicate tables); the grammar admits in each scope only what is allowed or explicitly rejected (B3); references resolve eagerly and only to earlier definitions of the right kind (B5, C1 kind checks); rejection is a ParserError (A1/B1/B6) citing file and line (B2) with non-zero exit and no render (A5).",
    "the acceptance function is not executed; constraints are compared with the catalogue of the property statement, not discovered.",
))

reg(P(
    "C09", "Compilation is total: any input yields success or a parser error",
    [("A1", ALL), ("A2", ALL), ("B1", ALL), ("B6", ALL), ("A12", ALL), ("A13", ALL), ("A8", {"pairing", "filepath"}), ("C9", ALL), ("T1", ALL), ("C1", {"imports", "options-total"}), ("V1", {"kinds"})],
    "no exception class other than ParserError/OSError escapes parse(), none escapes lint(), none other than RendererError/OSError escapes render() for the four renderers (A1 over an RTA call graph with handler contexts; discharges by dominating guards, exhaustive dispatch A2, index/grammar consistency B1, typestate A12/A13, option table C9, and the triaged invariants of beliefs.json); p_error/t_error always raise (B6); every loop has a strictly advancing counter or ranges over a finite collection, recursion descends the acyclic type graph, and the import recursion is cut by a cycle check that compares files with samefile() before the child is parsed (T1, C1 imports part).",
    "RecursionError / memory / time on pathologically large accepted schemas; behaviour inside ply; UnicodeDecodeError while reading a file (input is text).",
))

reg(P(
    "C11", "Names resolve to the innermost visible earlier definition",
    [("B5", ALL), ("V1", {"reference"}), ("B1", ALL), ("C5", {"owner", "qualifier", "nesting"}), ("A7", {"key"})],
    "lookup walks the current file's slice of the scope stack innermost first and returns the first hit; scopes become members only when complete; dotted names descend only through scopes; an import is pushed under its `as` name exactly for the 4-symbol alternative; the object found is the one stored in the field/array/alias (V1); the generators name the resolved definition and no like-named one: the reverse lookup Scope.get_name_by_member compares by identity (B5), the C name prefix is the one of the file the definition is bound to and an imported definition is qualified with the name the importing file gave the import (C5 parts owner / qualifier). enclosing names are joined on a path that walks all enclosing scopes (C5 part nesting).",
    "no schema is compiled; the behaviour of dict/list primitives is trusted.",
))

reg(P(
    "C13", "Constants evaluate arithmetically and reach every target language intact",
    [("B4", ALL), ("V1", {"constant"}), ("C6", ALL), ("A1", {"parse"}), ("A7", {"key"}), ("B5", ALL), ("F11", ALL)],
    "precedence/associativity table, operand order and integer division of the four binary actions, grouping, literal decoding, escape table, token order (B4); the evaluated value is what Constant.value, Array.cap and option values receive (V1); bool/int literal tables per language and string constants reach quoted templates only through an escaping function; the three constant-emission templates take value and type from the same constant (C6); no memoised function on the way tells apart values its memo key equates (True / 1, False / 0) (A7 part key). a constant reference is resolved by a fresh lookup of its own identifier (B5); constants reach their block in every renderer mode (F11).",
    "numeric results are not computed; Python's int arithmetic is trusted.",
))

reg(P(
    "C17", "-O and -F restrict what is generated without altering it",
    [("A9", ALL), ("B3", {"extensible-marker"}), ("A5", {"filter-needs-O", "parse-guard", "fatal"}), ("F4", ALL), ("A7", {"key"}), ("A10", ALL), ("F11", ALL)],
    "traditional mode reaches every Parser including import children; the extensible marker is derivable only through the guarded production; language capability is checked at renderer construction; -F without -O hits fatal before render; the -F list only selects encoder/decoder function blocks with one shared predicate and never flows into a template; data-structure dispatchers ignore it (F4). nothing on the compile path asks the file system what is already there, output files are truncated (A10); the -F filter is the only condition under which a definition gets no block (F11).",
    "textual identity of two compiler runs is not observed; it follows from F4's non-interference only as far as the template abstraction goes.",
))

reg(P(
    "C18", "Compilation is deterministic",
    [("A10", ALL), ("A7", ALL), ("A6", ALL), ("A8", {"filepath", "pairing"}), ("C5", {"outfile"})],
    "no nondeterminism source (set iteration, hash(), id(), cwd/env/time/random) on the output path outside the documented output-directory default; no module/class-level mutable state written after import; caches are per node and hold it strongly; lint does not write the AST; shared parser stacks are restored by try/finally and paired push/pop. the output file name is the extension-less base name of the schema file however the path is spelled (C5 part outfile).",
    "ply and CPython are trusted to be deterministic.",
))

reg(P(
    "C20", "Lint is advisory and diagnostics point at the right line",
    [("A6", ALL), ("A11", ALL), ("C7", ALL), ("B2", ALL), ("A5", {"check-only", "fatal"}), ("A1", {"lint"}), ("A7", {"memo-results"}), ("A8", {"filepath"})],
    "lint and renderers never write the AST (A6) and never change in place a list a memoised AST query handed out (A7 part memo-results); every rule is registered, targets a supported type and cites the checked definition (A11); each rule tests its kind's convention with the right polarity (C7); positions come from tracked symbols, node token/column/line refer to the name symbol, the newline rule is the only line counter and no other token can swallow a newline, the diagnostic template contains file and L<line>, and the column recorded for a symbol is its offset from the last newline searched in the window [0, lexpos) in front of it, 1-based on every line including the first (B2, the return value of _get_col folded over a grid of newline / token offsets); check-only exits non-zero iff an error or a warning (A5). an imported file is parsed by a parser and lexer constructed for it, so its line counter starts at 1 (B2 part fresh-lexer).",
    "the symbol indices of scope_start_col / scope_end_col and the indent measured on the first line of a file; behaviour of pascal_case/snake_case on arbitrary words.",
))

reg(P(
    "C01", "Python encoder emits exactly the specified bit layout",
    [("D5", {"ast", "py", "common"}), ("A4", {"ast", "py"}), ("D1", {"py"}), ("E1", {"py"}), ("C3", {"py", "ast"}), ("D3", {"py"}), ("D6", {"py", "py-array-default"}), ("D7", {"py"}), ("C4", {"py"}), ("R1", {"py"}), ("B5", ALL), ("V1", {"reference"}), ("A7", {"key"})],
    "size arithmetic equals the specification and BYTES_LENGTH / the encode allocation come from Message.nbytes() (D5); the processor list and dataclass fields are emitted in ascending field-number order (A4); the single-chunk encoder of bp.py equals the layout rule's normal form - stream byte i div 8, value byte 8*(j div 8), shift j mod 8 - i mod 8, mask 2^(i mod 8 + c) - 2^(i mod 8), OR store (D1) - and the chunk size satisfies 1 <= c <= 8, fits both bytes and never exceeds the field (E1); prefix: 16 bits, written before the children, carrying nbits/capacity (C3, D3); generated getters return (field >> rshift) for the field with that number and array depth (D6); alias/enum processors only delegate (D7); generator/runtime constructor arguments agree positionally (C4). no default argument of the runtime or of a generated function is a mutable object (R1).",
    "that the composition of these yields the exact bytes for every schema and value (nothing is executed; no proof of the whole encoder).",
))

reg(P(
    "C02", "Python decode(encode(v)) == v, and re-encoding reproduces the bytes",
    [("D1", {"py"}), ("E1", {"py"}), ("D6", {"py", "py-decode", "py-array-default"}), ("D4", {"py"}), ("D3", {"py"}), ("D7", {"py"}), ("C3", {"py"}), ("C4", {"py"}), ("R1", {"py"})],
    "the decode chunk is the mirror of the encode chunk (D1 both directions against the same specification form); set-byte items OR a totally-converted chunk into the same reference the get-byte item reads, `=` only for bool, enum chunks go to the integer proxy (D6); sign extension from bit n-1 with mask -(2^n) for every width narrower than its storage, bp.intN thresholds 2^(N-1) / modulus 2^N (D4); decode half of the extensible processors including the skip target (D3); mask < 256 and progress (E1). no default argument of the runtime or of a generated function is a mutable object (R1).",
    "equality of values; exceptions inside dataclasses / IntEnum for member values.",
))

reg(P(
    "C05", "Forward compatibility: an older schema decodes data from an extended one",
    [("D3", ALL), ("C3", ALL), ("EC3", ALL), ("C1", {"prefix-range"}), ("A9", ALL), ("B3", {"extensible-marker"}), ("CC4", {"delegation"}), ("C4", ALL)],
    "in the six extensible processors (message and array x Python/Go/C): the start position is read before the prefix, the prefix is written on encode and read on decode under `extensible`, children run in order, the cursor moves only when decoding, every forward move passes the guard, and the skip target is start + sender-bits for messages and start + 16 + sender-capacity x bits-per-element for arrays (D3, EC3); what the sender writes (nbits / capacity, 16 bits, scratch field number 1) is what the receiver reads (C3); the compiler rejects every message larger than 65535 bits and every array capacity above 65535, the largest numbers the 16-bit prefix can carry (C1 prefix-range). every generated C function hands its definition to the runtime on every path and its wrapper always builds the descriptor (CC4 part delegation); no template passes a constant where the runtime constructor takes a property of the definition (C4).",
    "decoded values; only the position arithmetic is decided.",
))

reg(P(
    "C15", "Generated API names follow the documented scheme",
    [("C5", ALL), ("A7", {"key"}), ("F2", ALL), ("F11", ALL)],
    "each effective entry of the three case_style_mapping() tables lies in the set the scheme allows for that (language, kind): identity on style-guide names, except the fixed transformations C message -> pascal, Python message -> keep, Go struct field -> pascal; style names resolve to the right converter functions; nested names are prefix + enclosing names outermost first + own name; Encode/Decode/Json/BYTES_LENGTH_/BYTES_LENGTH/encode/decode/Size/JSON-tag templates; output file name and extensions; the C name prefix flows only into the definition-name builder. nested scopes are descended with the same filter (F2) and every kind of definition reaches its block in every mode (F11).",
    "behaviour of pascal_case / snake_case / upper_case on arbitrary words (assumed: keep is the identity, pascal on PascalCase, snake on snake_case, upper and (snake, upper) on UPPER_SNAKE).",
    ["keep_case/pascal_case/snake_case/upper_case are the identity on names of their own style"],
))

reg(P(
    "C19", "Go standard-mode output describes the same messages as the Python output",
    [("D6", {"go"}), ("A2", {"go", "common"}), ("A4", {"go", "ast"}), ("C2", {"generator", "go"}), ("D5", {"go", "ast", "common"}), ("D4", {"go"}), ("D1", {"go"}), ("E1", {"go"}), ("D3", {"go"}), ("D7", {"go"}), ("C3", {"go"}), ("C4", {"go"}), ("G1", ALL), ("R1", {"go"}), ("A7", {"key"})],
    "Go struct fields and processor list in ascending field-number order (A4) with the smallest covering integer types (C2); size constant and Size() from Message.nbytes() (D5); processor constructors agree positionally with the runtime's New* functions (C4); byte accessors address the field by number and array depth, widen before the left shift and narrow after the right shift, conversion type = leaf type / alias name (D6); shift-pair sign extension exactly for widths narrower than storage (D4); the Go runtime's chunk helpers, loop and extensible processors reach the same normal forms as the specification, hence as Python's (D1, E1, D3, D7, C3, G1).",
    "that generated Go compiles (no Go toolchain in the sandbox).",
))

reg(P(
    "C03", "C standard mode writes/reads the same bytes as the specification and Python",
    [("A4", {"c", "ast"}), ("CC4", ALL), ("A2", {"c", "common"}), ("CA2", ALL), ("C2", {"generator", "c"}), ("CC2", ALL), ("EC3", ALL), ("CD4", ALL), ("EC1", ALL), ("EC2", ALL), ("D5", {"ast", "c", "common"}), ("C3", {"ast"}), ("R1", {"c"}), ("B5", ALL), ("V1", {"reference"}), ("A7", {"key"})],
    "generator side: descriptor array in ascending field-number order (A4); format_bp_* templates, constructor macros and struct members agree positionally, sizes are sizeof of the same node's C type, the k-th descriptor carries address, type and name of the same field (CC4); dispatch chains cover their domains (A2). Runtime side, both build variants: every flag switch covers the flags its callers can pass and routes them to the right routine (CA2); storage partitions agree with the generator (C2, CC2); extensible processors, prefix coders, cursor advance, encode/decode orientation of the copier calls (EC3); sign extension cases (CD4); bit copier: on all paths x all 64 (si, di): 1 <= c <= n, word loads/stores inside the field's bytes, `=` stores only at di = 0, partial stores masked to c bits (EC1); batch path only for storage-sized integer elements (EC2).",
    "bit-exactness of the C partial-byte expressions beyond the mask form; byte-for-byte equality with Python; compiler optimisation levels.",
))

reg(P(
    "C04", "Optimization mode (-O) changes how, never what, is encoded (C and Go)",
    [("D1", {"planner"}), ("E1", {"planner"}), ("A4", {"planner", "ast"}), ("A2", {"common"}), ("D2", ALL), ("D4", {"c", "go", "planner"}), ("F5", ALL), ("T1", {"while"}), ("A7", {"key"})],
    "the compile-time planner computes (si, fi, shift, mask, r) equal to the specification normal form and advances both cursors by a chunk with 1 <= c <= 8 fitting both bytes (D1, E1 on formatter.py); it walks sorted fields, range(cap), alias -> target with one cursor (A4, A2); each C little-endian, C big-endian and Go item template puts every planner value into the hole with that role, uses `=` only at r == 0, narrows after the right shift and widens before the left shift (D2); sign hooks for every width narrower than storage, decode only (D4); --endian selects le()/be() under #ifndef BP_BIG_ENDIAN / #else / #endif (F5).",
    "equivalence of byte-pointer and value-shift forms at bit level (rests on the mask argument, stated not mechanised); refusal of extensible schemas is C17.",
))

reg(P(
    "C06", "The wire is little-endian whatever the host byte order",
    [("EC4", ALL), ("CC2", {"c-be"}), ("EC2", {"c-be"}), ("EC1", {"c-be"}), ("EC3", {"c"}), ("D2", {"c-be", "c"}), ("F5", ALL), ("A7", {"key"})],
    "in the -DBP_BIG_ENDIAN AST no pointer to wire or staging bytes is cast to a multi-byte integer pointer (positive control: the little-endian copier has such casts); staging reverses exactly BpBaseTypeStorageSize(nbits) bytes before the copy on encode and after it on decode, through a zeroed 8-byte buffer (EC4); that size partition equals the generator's storage (CC2); the array batch condition is the literal 0 (EC2); the copier's remaining paths satisfy the same obligations (EC1); generated big-endian items use value shifts on the field's unsigned type, never byte pointers (D2); the #else branch holds them (F5).",
    "that staged bytes equal the little-endian path's bytes for every value; host detection macros.",
))

reg(P(
    "C07", "Encoding touches exactly its bytes, and each field exactly its bits",
    [("D5", ALL), ("E1", ALL), ("D1", ALL), ("EC1", ALL), ("EC2", ALL), ("D2", ALL), ("C2", ALL), ("F5", {"memset"}), ("EC4", ALL), ("A9", ALL), ("B3", {"extensible-marker"})],
    "one source (Message.nbytes(), ceil form) for the size constant in C, Go and Python and for every encode allocation (D5); every chunk is at most the field's remaining bits and fits the byte (E1), every stored chunk is `(...) & mask` with the specification mask (D1, D2); in C unmasked word/byte paths never carry more than the remaining bits and word stores/loads stay inside ceil(n/8) bytes, partial stores are masked (EC1); the batch copy covers exactly nbits * cap bits of storage-sized integers (EC2). on a big-endian build the staged copy moves exactly nbits between the stream at the cursor and the staging buffer at bit 0 (EC4); -O reaches imported files (A9) and refuses the extensible marker (B3).",
    "sanitizer-observable behaviour; out-of-range Python integers beyond the masking argument.",
))

reg(P(
    "C10", "Every accepted schema yields code the target toolchains accept (narrow: necessary structural conditions)",
    [("F2", ALL), ("F1", ALL), ("A2", ALL), ("A1", {"render"}), ("A13", ALL), ("F6", ALL), ("F6b", ALL), ("F7", ALL), ("F8", ALL), ("C5", {"common", "owner", "qualifier", "binding", "outfile", "nesting"}), ("F9", ALL), ("F10", ALL), ("A7", {"key"}), ("F11", ALL), ("C6", ALL)],
    "definitions are emitted children first in declaration order for the bound proto (F2); each block class pushes balanced brackets and #if/#endif on every path (F1); rendering raises no internal error: exhaustive dispatch, abstract coverage, render-context and push_string discipline (A2, A1 render part, A13); internal helper-name templates are uniquely decodable (F6); include/import statements name the file the compiler generates (F7). every kind of definition reaches its block in every mode, the C header declares functions for exactly the kinds the source defines them for, and only -F makes a block conditional (F11); literals of constants go through the formatter of their own kind (C6).",
    "whether gcc, g++, CPython or Go accept the output (that needs the output); struct layout equality in C++; reserved words.",
))

reg(P(
    "C12", "The wire format depends only on field numbers and resolved types",
    [("F3", ALL), ("A4", ALL), ("D5", {"ast"}), ("D7", ALL), ("EC3", ALL), ("V1", {"reference"}), ("D2", ALL), ("D6", {"py", "go"}), ("B4", ALL), ("R1", ALL), ("D3", ALL), ("A7", {"key"}), ("B5", ALL), ("F6", ALL), ("CA2", ALL)],
    "layout-bearing computations (size arithmetic, planner, processor/descriptor constructors) read only number / cap / extensible / type attributes, never names, comments, positions or option values; comment / newline / semicolon actions build nothing (F3); declaration order is erased by sorting on the integer field number at every order-sensitive site (A4); Alias.nbits is the target's and alias processors only delegate in all three runtimes (D5, D7, EC3); the resolved definition object is what a field stores, wherever it was declared (V1); alias transparency of the generators: for every type shape reached through an alias the optimization-mode statements and the generated accessors are the ones of the aliased type, with the alias name only where the target language needs a conversion (D2 scenarios Alias->leaf incl. the unsigned working type, D6 shapes alias(...)); a literal and a constant expression of equal value are the same to the rest of the compiler because operator precedence and associativity are the usual ones (B4); the runtimes keep nothing between fields or calls that could make the bytes depend on the numbers themselves rather than their order: no module / package / file-scope state is written (R1) and every field is processed with a fresh indexer built from its own number (D3). the C runtime's dispatch functions reach a handler for every type flag the generator can produce (CA2).",
    "byte equality of two compilations.",
))

reg(P(
    "C14", "Every width x bit-offset x signedness combination is bit-exact in every runtime",
    [("E1", ALL), ("D1", ALL), ("EC1", ALL), ("EC2", ALL), ("C2", ALL), ("CC2", ALL), ("D4", ALL), ("CD4", ALL), ("G1", ALL), ("D2", ALL), ("R1", ALL), ("CC4", ALL), ("D6", {"py-array-default"}), ("A7", {"key"})],
    "the obligations are parametric in (n, si, di), which is this property's space: chunk bounds for Python/Go/planner (E1) and the chunk plan (D1); the C copier's obligations on every path for all 64 (si, di) pairs and every n in the path's interval, both build variants (EC1); batch predicate (EC2); storage partitions (C2, CC2); sign extension sites incl. bp.intN thresholds and the C cases (D4, CD4); the storage size the C runtime's sign extension and array stride rely on is sizeof(the C type) in every generated descriptor (CC4); generated accessors and default values per type shape, incl. one fresh object per array element (D6). no default argument of the runtime or of a generated function is a mutable object (R1).",
    "bit-exactness of the C partial-byte expressions beyond their mask form.",
))

reg(P(
    "C16", "JSON output is valid JSON that states the message's values",
    [("CJ", ALL), ("CC2", {"c"}), ("CA2", ALL), ("A4", {"c", "py", "ast"}), ("CC4", {"template"}), ("C8", ALL), ("D6", {"py"}), ("A7", {"key"})],
    "C: object/array wrapping, \"name\": keys from the field descriptors, separator iff another item follows, bool words with the right polarity, bytes as unsigned numbers, append discipline (CJ); per-width cast classes equal the storage and the conversion letter matches signedness (CC2); the JSON switches cover their domains (CA2); descriptor order = field-number order with the same field's name (A4, CC4). Python: every type a generated field can have is serialisable by to_json, to_dict filters the enum proxy attributes through the generated dict_factory, dataclass fields in field-number order (C8, A4, D6).",
    "equality of printed values; printf length modifiers (platform dependent, not judged).",
))
