"""
E4 - C program model of lib/c/bitproto.c from clang's type-resolved JSON AST
(`clang -fsyntax-only -Xclang -ast-dump=json`), in the two build variants the
file has (default, -DBP_BIG_ENDIAN).  The clang tree is converted into the
same small statement/expression node shape the Go subset parser produces, so
the lowering and shape code is shared.  `#define` constructors and BP_TYPE_*
values of bitproto.h (which the AST does not keep) are read with a small
macro-definition reader.
"""

from __future__ import annotations

import json
import re
import subprocess
from typing import Any, Dict, List, Optional, Tuple

from .core import Inconclusive, Repo
from .gomodel import N, Node

C_RT = "lib/c/bitproto.c"
C_H = "lib/c/bitproto.h"


def _clang_json(repo: Repo, defines: Tuple[str, ...]) -> Dict[str, Any]:
    src = repo.path(C_RT)
    if not src.exists():
        raise Inconclusive(f"anchor file missing: {C_RT}")
    inc = str(repo.path("lib/c"))
    tmpdir = None
    if C_RT in repo.overlay or C_H in repo.overlay:
        # materialise the variant outside /repo and /verif; removed right after
        import tempfile

        tmpdir = tempfile.mkdtemp(prefix="verif-c-")
        for rel in (C_RT, C_H):
            with open(f"{tmpdir}/{rel.split('/')[-1]}", "w") as fh:
                fh.write(repo.src(rel))
        src = __import__("pathlib").Path(tmpdir) / "bitproto.c"
        inc = tmpdir
    cmd = ["clang", "-fsyntax-only", "-Xclang", "-ast-dump=json", "-I", inc] + [f"-D{d}" for d in defines] + [str(src)]
    try:
        p = subprocess.run(cmd, capture_output=True, timeout=120)
    except (OSError, subprocess.TimeoutExpired) as e:
        raise Inconclusive(f"clang not runnable: {e}")
    finally:
        if tmpdir:
            import shutil

            shutil.rmtree(tmpdir, ignore_errors=True)
    if p.returncode != 0 or not p.stdout:
        raise Inconclusive(f"{C_RT} does not compile with {defines}: {p.stderr.decode()[:300]}")
    return json.loads(p.stdout)


def _qt(n: Dict[str, Any]) -> str:
    return (n.get("type") or {}).get("qualType", "")


class CConv:
    """clang JSON -> gomodel-style nodes."""

    def __init__(self) -> None:
        self.line = 0

    def ln(self, n: Dict[str, Any]) -> int:
        for key in ("loc", "range"):
            v = n.get(key) or {}
            if key == "range":
                v = v.get("begin") or {}
            for k2 in ("line",):
                if k2 in v:
                    self.line = v[k2]
                    return self.line
            if "expansionLoc" in v and "line" in v["expansionLoc"]:
                self.line = v["expansionLoc"]["line"]
                return self.line
        return self.line

    # ---- expressions
    def expr(self, n: Dict[str, Any]) -> Node:
        k = n.get("kind")
        line = self.ln(n)
        inner = n.get("inner", [])
        if k in ("ImplicitCastExpr", "ConstantExpr", "ExprWithCleanups"):
            e = self.expr(inner[0])
            return e
        if k == "ParenExpr":
            return N("paren", line, x=self.expr(inner[0]), ctype=_qt(n))
        if k == "CStyleCastExpr":
            return N("conv", line, type=N("named", line, name=_qt(n)), x=self.expr(inner[0]), ctype=_qt(n))
        if k == "IntegerLiteral":
            return N("int", line, v=int(n["value"]), ctype=_qt(n))
        if k == "CXXBoolLiteralExpr":
            return N("int", line, v=1 if n.get("value") else 0, ctype="bool")
        if k == "CharacterLiteral":
            return N("int", line, v=int(n["value"]), ctype=_qt(n))
        if k == "StringLiteral":
            return N("str", line, v=n.get("value", ""), ctype=_qt(n))
        if k == "DeclRefExpr":
            return N("id", line, name=n["referencedDecl"]["name"], ctype=_qt(n))
        if k == "MemberExpr":
            return N("sel", line, x=self.expr(inner[0]), name=n["name"], ctype=_qt(n), arrow=bool(n.get("isArrow")))
        if k == "ArraySubscriptExpr":
            return N("index", line, x=self.expr(inner[0]), i=self.expr(inner[1]), ctype=_qt(n))
        if k == "UnaryOperator":
            op = n["opcode"]
            if op == "~":
                op = "^"
            return N("un", line, op=op, x=self.expr(inner[0]), ctype=_qt(n), postfix=bool(n.get("isPostfix")))
        if k == "BinaryOperator":
            return N("bin", line, op=n["opcode"], l=self.expr(inner[0]), r=self.expr(inner[1]), ctype=_qt(n))
        if k == "CompoundAssignOperator":
            return N("bin", line, op=n["opcode"], l=self.expr(inner[0]), r=self.expr(inner[1]), ctype=_qt(n))
        if k == "ConditionalOperator":
            return N("cond", line, c=self.expr(inner[0]), a=self.expr(inner[1]), b=self.expr(inner[2]), ctype=_qt(n))
        if k == "CallExpr":
            return N("call", line, f=self.expr(inner[0]), args=[self.expr(a) for a in inner[1:]], ctype=_qt(n))
        if k == "UnaryExprOrTypeTraitExpr":
            return N("sizeof", line, name=n.get("name", "sizeof"), arg=(n.get("argType") or {}).get("qualType", ""), ctype=_qt(n))
        if k == "InitListExpr":
            return N("initlist", line, elts=[self.expr(a) for a in inner], ctype=_qt(n))
        if k == "CompoundLiteralExpr":
            return N("complit", line, type=N("named", line, name=_qt(n)), elts=[self.expr(a) for a in inner], ctype=_qt(n))
        if k == "VAArgExpr":
            return N("id", line, name="va_arg", ctype=_qt(n))
        if k == "ImplicitValueInitExpr":
            return N("int", line, v=0, ctype=_qt(n))
        raise Inconclusive(f"c: unsupported expression kind {k} at line {line}")

    # ---- statements
    def stmts(self, n: Dict[str, Any]) -> List[Node]:
        k = n.get("kind")
        line = self.ln(n)
        inner = n.get("inner", [])
        if k == "CompoundStmt":
            out: List[Node] = []
            for c in inner:
                out.extend(self.stmts(c))
            return out
        if k == "DeclStmt":
            out = []
            for d in inner:
                if d.get("kind") == "VarDecl":
                    init = [x for x in d.get("inner", []) if x.get("kind") not in (None,)]
                    if init:
                        out.append(N("assign", line, lhs=[N("id", line, name=d["name"], ctype=_qt(d))], op=":=", rhs=[self.expr(init[0])], decl_type=_qt(d)))
                    else:
                        out.append(N("vardecl", line, name=d["name"], decl_type=_qt(d)))
            return out
        if k == "NullStmt":
            return []
        if k == "IfStmt":
            parts = [c for c in inner]
            cond = self.expr(parts[0])
            body = N("block", line, stmts=self.stmts(parts[1]))
            els = None
            if len(parts) > 2:
                es = self.stmts(parts[2])
                if len(es) == 1 and es[0].k == "if":
                    els = es[0]
                else:
                    els = N("block", line, stmts=es)
            return [N("if", line, init=None, cond=cond, body=body, orelse=els)]
        if k == "ForStmt":
            # [init, condvar, cond, inc, body]
            init = self.stmts(inner[0]) if inner[0].get("kind") else []
            cond = self.expr(inner[2]) if inner[2].get("kind") else None
            post = self.stmts(inner[3]) if inner[3].get("kind") else []
            body = N("block", line, stmts=self.stmts(inner[4]))
            post_n = None if not post else (post[0] if len(post) == 1 else N("block", line, stmts=post))
            return [N("for", line, init=init[0] if init else None, cond=cond, post=post_n, body=body)]
        if k == "WhileStmt":
            return [N("for", line, init=None, cond=self.expr(inner[0]), post=None, body=N("block", line, stmts=self.stmts(inner[1])))]
        if k == "DoStmt" and len(inner) == 2:
            # the statement-macro idiom `do { ... } while (0)`: the body, once
            cond_n = inner[1]
            while cond_n.get("kind") in ("ImplicitCastExpr", "ParenExpr") and cond_n.get("inner"):
                cond_n = cond_n["inner"][0]
            def _has_jump(nd: Dict[str, Any]) -> bool:
                if nd.get("kind") in ("BreakStmt", "ContinueStmt"):
                    return True
                if nd.get("kind") in ("ForStmt", "WhileStmt", "DoStmt", "SwitchStmt"):
                    return False
                return any(_has_jump(c_) for c_ in nd.get("inner", []) if isinstance(c_, dict))
            if cond_n.get("kind") == "IntegerLiteral" and cond_n.get("value") == "0" and not _has_jump(inner[0]):
                return [N("block", line, stmts=self.stmts(inner[0]))]
        if k == "ReturnStmt":
            return [N("return", line, vals=[self.expr(inner[0])] if inner else [])]
        if k == "BreakStmt":
            return [N("break", line)]
        if k == "ContinueStmt":
            return [N("continue", line)]
        if k == "SwitchStmt":
            tag = self.expr(inner[0])
            cases: List[Node] = []
            cur_labels: Optional[List[Node]] = None
            cur_body: List[Node] = []
            is_default = False

            def flush() -> None:
                nonlocal cur_labels, cur_body, is_default
                if cur_labels is not None or is_default:
                    cases.append(N("case", line, vals=None if is_default and not cur_labels else cur_labels, body=cur_body, default=is_default))
                cur_labels, cur_body, is_default = None, [], False

            def add_case(cs: Dict[str, Any]) -> None:
                nonlocal cur_labels, cur_body, is_default
                kk = cs.get("kind")
                ci = cs.get("inner", [])
                if kk == "CaseStmt":
                    if cur_body:  # previous group fell through with statements: keep separate
                        flush()
                    if cur_labels is None:
                        cur_labels = []
                    cur_labels.append(self.expr(ci[0]))
                    sub = ci[-1]
                    if sub.get("kind") in ("CaseStmt", "DefaultStmt"):
                        add_case(sub)
                    else:
                        cur_body.extend(self.stmts(sub))
                elif kk == "DefaultStmt":
                    if cur_body:
                        flush()
                    is_default = True
                    sub = ci[-1]
                    if sub.get("kind") in ("CaseStmt", "DefaultStmt"):
                        add_case(sub)
                    else:
                        cur_body.extend(self.stmts(sub))
                else:
                    st = self.stmts(cs)
                    cur_body.extend(st)
                    if any(s.k == "break" for s in st):
                        flush()

            for cs in inner[1].get("inner", []):
                add_case(cs)
            flush()
            return [N("switch", line, tag=tag, cases=cases)]
        # expression statements
        nn = n
        while nn.get("kind") == "ParenExpr" and nn.get("inner"):
            nn = nn["inner"][0]
        if nn.get("kind") == "BinaryOperator" and nn.get("opcode") == "," and len(nn.get("inner", [])) == 2:
            # a, b as a statement (the increment part of a for loop): a; b
            return self.stmts(nn["inner"][0]) + self.stmts(nn["inner"][1])
        e = self.expr(n)
        if e.k == "bin" and e.op in ("=", "+=", "-=", "|=", "&=", "<<=", ">>=", "*=", "/=", "%=", "^="):
            return [N("assign", line, lhs=[e.l], op=e.op, rhs=[e.r])]
        if e.k == "un" and e.op in ("++", "--"):
            return [N("incdec", line, x=e.x, op=e.op)]
        return [N("exprstmt", line, x=e)]


class CFile:
    def __init__(self, repo: Repo, defines: Tuple[str, ...] = ()) -> None:
        self.defines = defines
        tree = _clang_json(repo, defines)
        self.funcs: Dict[str, Node] = {}
        self.structs: Dict[str, List[Tuple[str, str]]] = {}
        conv = CConv()
        for d in tree.get("inner", []):
            k = d.get("kind")
            if k == "FunctionDecl" and any(c.get("kind") == "CompoundStmt" for c in d.get("inner", [])):
                params = [N("param", 0, name=c.get("name", ""), type=N("named", 0, name=_qt(c))) for c in d.get("inner", []) if c.get("kind") == "ParmVarDecl"]
                body = [c for c in d["inner"] if c.get("kind") == "CompoundStmt"][0]
                line = conv.ln(d)
                self.funcs[d["name"]] = N("func", line, name=d["name"], recv=None, params=params, results=[], body=N("block", line, stmts=conv.stmts(body)), ctype=_qt(d))
            elif k == "RecordDecl" and d.get("name") and d.get("completeDefinition"):
                self.structs[d["name"]] = [(f["name"], _qt(f)) for f in d.get("inner", []) if f.get("kind") == "FieldDecl"]
        if len(self.funcs) < 10:
            raise Inconclusive("c: fewer than 10 function definitions found in bitproto.c")

    def func(self, name: str) -> Node:
        if name not in self.funcs:
            raise Inconclusive(f"c: anchor function vanished: {name} (variant {self.defines or 'default'})")
        return self.funcs[name]


def get_c(repo: Repo, big_endian: bool = False) -> CFile:
    key = "cmodel:be" if big_endian else "cmodel:le"
    return repo.memo(key, lambda: CFile(repo, ("BP_BIG_ENDIAN",) if big_endian else ()))


# --------------------------------------------------------------------------
# macro reader for bitproto.h
# --------------------------------------------------------------------------


class Macros:
    def __init__(self, repo: Repo) -> None:
        src = repo.src(C_H)
        # join continuation lines
        src = re.sub(r"\\\n", " ", src)
        self.objects: Dict[str, str] = {}
        self.functions: Dict[str, Tuple[List[str], str]] = {}
        for m in re.finditer(r"^[ \t]*#[ \t]*define[ \t]+([A-Za-z_][A-Za-z0-9_]*)(\(([^)]*)\))?[ \t]*(.*)$", src, re.M):
            name, _, params, body = m.group(1), m.group(2), m.group(3), m.group(4).strip()
            if m.group(2) is not None and src[m.start(2) - 1] not in " \t":
                self.functions[name] = ([p.strip() for p in params.split(",") if p.strip()], re.sub(r"\s+", " ", body))
            else:
                self.objects[name] = ((m.group(2) or "") + " " + body).strip()
        if not self.functions:
            raise Inconclusive("bitproto.h: no function-like macro found")

    def type_flags(self) -> Dict[str, int]:
        out = {}
        for k, v in self.objects.items():
            if k.startswith("BP_TYPE_"):
                try:
                    out[k] = int(v, 0)
                except ValueError:
                    pass
        return out

    def expand(self, text: str, skip: Optional[set] = None, depth: int = 0) -> str:
        """Expand uses of function-like macros of this header inside `text`
        (textual substitution of the parameters, as the preprocessor does)."""
        if depth > 6:
            return text
        skip = skip or set()
        out = ""
        i = 0
        while i < len(text):
            m = re.compile(r"[A-Za-z_][A-Za-z0-9_]*").match(text, i)
            if not m:
                out += text[i]
                i += 1
                continue
            word = m.group(0)
            j = m.end()
            k = j
            while k < len(text) and text[k] in " \t":
                k += 1
            if word in self.functions and word not in skip and k < len(text) and text[k] == "(":
                # find the matching parenthesis
                d, e = 0, k
                while e < len(text):
                    if text[e] == "(":
                        d += 1
                    elif text[e] == ")":
                        d -= 1
                        if d == 0:
                            break
                    e += 1
                args = [a.strip() for a in _split_top(text[k + 1 : e])]
                params, body = self.functions[word]
                if len(args) == len(params) or (not params and args == [""]) or (not params and not args):
                    sub = body
                    for p_, a_ in zip(params, args):
                        sub = re.sub(r"\b" + re.escape(p_) + r"\b", lambda _m, a_=a_: a_, sub)
                    out += self.expand(sub, skip | {word}, depth + 1)
                    i = e + 1
                    continue
            out += word
            i = j
        return out

    def initializer(self, name: str) -> Tuple[List[str], Optional[str], List[str]]:
        """(params, struct name, initializer elements) of a constructor macro
        of the form ((struct S){a, b, c})."""
        if name not in self.functions:
            raise Inconclusive(f"bitproto.h: macro {name} vanished")
        params, body = self.functions[name]
        body = self.expand(body, skip={name})
        m = re.search(r"\(\s*struct\s+([A-Za-z_][A-Za-z0-9_]*)\s*\)\s*\{(.*)\}", body)
        if not m:
            raise Inconclusive(f"bitproto.h: macro {name} is not a compound-literal constructor")
        elems = [e.strip() for e in _split_top(m.group(2))]
        for _ in range(3):  # (x), ((x)) -> x
            elems = [re.sub(r"^\((.*)\)$", r"\1", e).strip() if _balanced(e) else e for e in elems]
        return params, m.group(1), elems


def _balanced(e: str) -> bool:
    """e is one parenthesised group: ( ... ) with the first paren closing at the end"""
    e = e.strip()
    if not (e.startswith("(") and e.endswith(")")):
        return False
    d = 0
    for i, ch in enumerate(e):
        if ch == "(":
            d += 1
        elif ch == ")":
            d -= 1
            if d == 0 and i != len(e) - 1:
                return False
    return True


def _split_top(s: str) -> List[str]:
    out, cur, depth = [], "", 0
    for ch in s:
        if ch in "([{":
            depth += 1
        elif ch in ")]}":
            depth -= 1
        if ch == "," and depth == 0:
            out.append(cur)
            cur = ""
        else:
            cur += ch
    if cur.strip():
        out.append(cur)
    return out


def get_macros(repo: Repo) -> Macros:
    return repo.memo("cmacros", lambda: Macros(repo))
