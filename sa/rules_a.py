"""
Family A - who / what / where rules on the resolved Python program.
"""

from __future__ import annotations

import ast
import re
from typing import Any, Dict, List, Optional, Set, Tuple

from .callgraph import CG, RaiseSite, Unit
from .core import Finding, Inconclusive, Repo, RuleResult, enclosing, parent, qualname, rule, short, src_of
from .grammar import PARSER, get_grammar
from .guards import always_exits, facts_at, known_index_lt_len, known_key_in, known_nonempty, known_nonzero, same
from .pymodel import ClassInfo, FuncInfo, Inst, Model, Seq, Typer, get_model
from .rules_b import action_value_kind, load_beliefs

AST = "compiler/bitproto/_ast.py"

RENDERERS = [
    ("c", "RendererC", "c/renderer_c.py"),
    ("h", "RendererCHeader", "c/renderer_h.py"),
    ("go", "RendererGo", "go/renderer.py"),
    ("py", "RendererPy", "py/renderer.py"),
]


class Graphs:
    def __init__(self, repo: Repo) -> None:
        m = get_model(repo)
        self.model = m
        parse = m.func("bitproto/parser.py", "parse")
        self.parse_entry = Unit(parse, None)
        self.parse = CG(m, [self.parse_entry], "parse")
        node = m.cls("Node", "_ast.py")
        self.node_cls = node
        self.seed = [c for c in self.parse.instantiated if m.is_subclass(c, node)]
        lint = m.func("bitproto/linter.py", "lint")
        self.lint_entry = Unit(lint, None)
        self.lint = CG(m, [self.lint_entry], "lint", seed_instantiated=self.seed, escape_instantiates_nodes=False)
        self.render: Dict[str, Tuple[CG, List[Unit]]] = {}
        for lang, cname, rel in RENDERERS:
            c = m.cls(cname, rel)
            init = m.lookup(c, "__init__")
            rend = m.lookup(c, "render")
            if init is None or rend is None:
                raise Inconclusive(f"{cname}: __init__/render not found")
            ent = [Unit(init, c), Unit(rend, c)]
            self.render[lang] = (CG(m, ent, "render:" + lang, seed_instantiated=self.seed, escape_instantiates_nodes=False), ent)


def graphs(repo: Repo) -> Graphs:
    return repo.memo("graphs", lambda: Graphs(repo))


# --------------------------------------------------------------------------
# A2 exhaustive dispatch
# --------------------------------------------------------------------------


def concrete_subclasses(m: Model, base: ClassInfo, pool: List[ClassInfo]) -> List[ClassInfo]:
    return [c for c in pool if m.is_subclass(c, base)]


def type_domains(repo: Repo) -> Dict[str, List[ClassInfo]]:
    """Slot domains derived live from _ast.py and the grammar."""
    m = get_model(repo)
    g = get_grammar(repo)
    G = graphs(repo)
    pool = G.seed  # classes the parser can construct
    T = m.cls("Type", "_ast.py")
    D = m.cls("Definition", "_ast.py")
    out: Dict[str, List[ClassInfo]] = {}

    kinds = action_value_kind(g, "type")
    field: List[ClassInfo] = []
    for k in sorted(kinds):
        cands = [c for c in pool if c.name == k]
        if cands:
            field.append(cands[0])
    # type_reference: any Type that is also a named Definition
    for c in pool:
        if m.is_subclass(c, T) and m.is_subclass(c, D) and c not in field:
            field.append(c)
    field = [c for c in field if m.is_subclass(c, T)]
    out["FieldType"] = sorted(field, key=lambda c: c.name)

    # ElemType: Array.element_type_constraints() literal
    arr = m.cls("Array", "_ast.py")
    fn = m.lookup(arr, "element_type_constraints")
    elem: List[ClassInfo] = []
    if fn is None:
        raise Inconclusive("Array.element_type_constraints vanished")
    for n in ast.walk(fn.node):
        if isinstance(n, ast.Return) and isinstance(n.value, ast.Tuple):
            for e in n.value.elts:
                r = m.resolve_expr_static(m.mods[fn.rel], e)
                if isinstance(r, ClassInfo):
                    elem.append(r)
    if not elem:
        raise Inconclusive("Array.element_type_constraints is not a tuple literal of classes")
    # the constraint is an isinstance test: expand to concrete classes of FieldType
    out["ElemType"] = [c for c in out["FieldType"] if any(m.is_subclass(c, e) for e in elem)]

    # AliasTarget: FieldType minus Definition subclasses (Alias.validate_type)
    al = m.cls("Alias", "_ast.py")
    vt = m.lookup(al, "validate_type")
    if vt is None:
        raise Inconclusive("Alias.validate_type vanished")
    # which classes of self.type pass the validator: decided class by class on its paths
    from .flows import compiler_flow
    from .normal import V as _V
    from .normal import show as _show

    fl = compiler_flow(repo, "Alias", "_ast.py", pure=("from_token",))
    vpaths = fl.run(vt.node, {vt.node.args.args[0].arg: _V("self")})
    targets: List[ClassInfo] = []
    for c in out["FieldType"]:
        verdict: Optional[bool] = None  # passes?
        for p_ in vpaths:
            feasible_ = True
            for k_, t_ in p_.guards:
                if k_[0] == "isinstance" and _show(k_[1]) == "self.type":
                    ks = [x for x in m.all_classes() if x.name in k_[2] and x.rel.endswith("_ast.py")]
                    if len(ks) != len(k_[2]):
                        raise Inconclusive(f"Alias.validate_type tests self.type against {k_[2]}")
                    if any(m.is_subclass(c, x) for x in ks) != t_:
                        feasible_ = False
                elif k_[0] == "truthy" and "_is_missing" in _show(k_[1]):
                    if t_:
                        feasible_ = False  # the missing-type sentinel is not a schema type
                else:
                    raise Inconclusive(f"Alias.validate_type: condition {_show(k_[1]) if hasattr(k_[1], 'terms') else k_} is not a class test on self.type")
            if not feasible_:
                continue
            passes = p_.done != "raise"
            if verdict is not None and verdict != passes:
                raise Inconclusive("Alias.validate_type: a class both passes and is rejected")
            verdict = passes
        if verdict:
            targets.append(c)
    if not targets or len(targets) == len(out["FieldType"]) and any(m.is_subclass(c, D) for c in targets):
        # nothing is rejected any more: named types can be aliased (a domain change the dispatch rules must see)
        pass
    out["AliasTarget"] = targets

    const = m.cls("Constant", "_ast.py")
    out["ConstantKind"] = sorted([c for c in pool if m.is_subclass(c, const) and c is not const], key=lambda c: c.name)
    out["ArrayOwner"] = [m.cls("MessageField", "_ast.py"), al]
    single = m.cls("SingleType", "_ast.py")
    out["SingleLeaf"] = [c for c in out["FieldType"] if m.is_subclass(c, single)]
    return out


# function (rel suffix, qualname, subject as a path from the parameters) -> domain name
# The subject is given by value, not by local name: `t.element_type` matches
# whatever local the function stores it in, and helpers the subject is passed
# to are followed.
DISPATCH_SITES: List[Tuple[str, str, str, str]] = [
    ("renderer/formatter.py", "Formatter.format_type", "t", "FieldType"),
    ("renderer/formatter.py", "Formatter.format_constant_type", "c", "ConstantKind"),
    ("renderer/formatter.py", "Formatter.format_op_mode_endecode_message_field", "t", "FieldType"),
    ("renderer/formatter.py", "Formatter.format_op_mode_endecode_array", "t.element_type", "ElemType"),
    ("renderer/formatter.py", "Formatter.format_op_mode_endecode_alias", "t.type", "AliasTarget"),
    ("impls/c/formatter.py", "CFormatter.format_bp_type", "t", "FieldType"),
    ("impls/c/formatter.py", "CFormatter.format_bp_type_flag", "t", "FieldType"),
    ("impls/c/formatter.py", "CFormatter.format_bp_array_processor_name", "d", "ArrayOwner"),
    ("impls/c/formatter.py", "CFormatter.format_bp_array_json_formatter_name", "d", "ArrayOwner"),
    ("impls/py/formatter.py", "PyFormatter.format_default_value", "t", "FieldType"),
    ("impls/py/formatter.py", "PyFormatter.format_field_default_value", "t", "FieldType"),
    ("impls/py/formatter.py", "PyFormatter.format_processor", "t", "FieldType"),
    ("impls/go/formatter.py", "GoFormatter.format_processor", "t", "FieldType"),
    ("impls/go/formatter.py", "GoFormatter.format_processor_alias", "t.type", "AliasTarget"),
]


def isinstance_chain(fn: ast.FunctionDef, subject: str) -> Tuple[List[Tuple[List[str], ast.If]], Optional[ast.Raise]]:
    """Top-level chain of `if isinstance(subject, K): <exit>` (if/elif or
    sequential) and the raise that terminates it."""
    tests: List[Tuple[List[str], ast.If]] = []
    final_raise: Optional[ast.Raise] = None

    def classes(arg: ast.AST) -> List[str]:
        if isinstance(arg, ast.Name):
            return [arg.id]
        if isinstance(arg, ast.Tuple):
            return [e.id for e in arg.elts if isinstance(e, ast.Name)]
        return []

    def visit(stmts: List[ast.stmt]) -> None:
        nonlocal final_raise
        for st in stmts:
            if isinstance(st, (ast.For, ast.While)):
                visit(st.body)
            if isinstance(st, ast.If):
                cur: Optional[ast.If] = st
                while cur is not None:
                    t = cur.test
                    if isinstance(t, ast.Call) and isinstance(t.func, ast.Name) and t.func.id == "isinstance" and len(t.args) == 2 and src_of(t.args[0]) == subject:
                        tests.append((classes(t.args[1]), cur))
                    if len(cur.orelse) == 1 and isinstance(cur.orelse[0], ast.If):
                        cur = cur.orelse[0]
                    else:
                        if cur.orelse:
                            visit(cur.orelse)
                        cur = None
            elif isinstance(st, ast.Raise):
                final_raise = st

    visit(fn.body)
    return tests, final_raise


def dispatch_fallthrough(repo: Repo, fi: Any, subject: str, direct: bool = False) -> Tuple[List[Tuple[List[str], ast.AST, List[str]]], int, List[str]]:
    """Paths of fi (private helpers of the class inlined) that end in a raise
    without a positive class test on the subject: [(negated class names,
    raise node, functions entered)], number of class tests seen, and the
    qualified names of the helpers that were inlined."""
    from .flows import compiler_flow
    from .normal import V as _V
    from .pyflow import single_atom as _sa

    entered: List[str] = []

    # methods of the class the site calls itself, handing them the definition the subject belongs to
    base_subj = subject.split(".")[0]
    direct_callees = {c_.func.attr for c_ in ast.walk(fi.node) if isinstance(c_, ast.Call) and isinstance(c_.func, ast.Attribute) and isinstance(c_.func.value, ast.Name) and c_.func.value.id == "self" and any(isinstance(a_, ast.Name) and a_.id == base_subj for a_ in c_.args)} if direct else set()

    def inl(name: str, fn: ast.FunctionDef) -> bool:
        ok = (name.startswith("_") and not name.startswith("__")) or name in direct_callees
        if not ok and len(fn.args.args) == 1:
            # a method that only hands out a table of (class, handler) rows
            body_ = [b_ for b_ in fn.body if not (isinstance(b_, ast.Expr) and isinstance(b_.value, ast.Constant))]
            if len(body_) == 1 and isinstance(body_[0], ast.Return) and isinstance(body_[0].value, (ast.Tuple, ast.List)) and body_[0].value.elts and all(isinstance(x_, ast.Tuple) for x_ in body_[0].value.elts):
                ok = True
        if ok and name not in entered:
            entered.append(name)
        return ok

    assert fi.cls is not None
    flow = compiler_flow(repo, fi.cls.name, fi.rel.split("/bitproto/")[-1], inline=inl, max_paths=20000)
    paths = flow.run(fi.node)
    subj = _V(subject)
    falls: List[Tuple[List[str], ast.AST, List[str]]] = []
    ntests = 0
    seen_tests = set()
    for p in paths:
        pos, neg = [], []
        for k, t in p.guards:
            if k[0] == "isinstance" and k[1] == subj:
                seen_tests.add(k[2])
                (pos if t else neg).append(k[2])
        if p.done == "raise" and not pos:
            rz = [e for e in p.effects if e.kind == "raise"]
            names = sorted({n for grp in neg for n in grp})
            falls.append((names, rz[-1].node if rz else None, [g for g in p.guard_text() if "isinstance" not in g]))
    ntests = len(seen_tests)
    return falls, ntests, entered


@rule("A2", "every isinstance dispatch over a type/definition that ends in a raise covers its whole domain")
def a2(repo: Repo) -> RuleResult:
    res = RuleResult("A2", floor=12)
    m = get_model(repo)
    doms = type_domains(repo)
    res.note("domains: " + "; ".join(f"{k}={[c.name for c in v]}" for k, v in doms.items()))
    discharged: Set[int] = set()
    mapped: Set[Tuple[str, str]] = set()
    for rel, qual, subject, dom in DISPATCH_SITES:
        try:
            fi = m.func(rel, qual)
        except Inconclusive as e:
            res.unsure(f"A2: {e}")
            continue
        mapped.add((fi.rel, fi.qual))
        domain = doms[dom]
        part = _lang_part(fi.rel)
        try:
            falls, ntests, entered = dispatch_fallthrough(repo, fi, subject)
        except Inconclusive as e:
            res.unsure(f"A2: {qual}: {e}")
            continue
        for h in entered:
            if fi.cls is not None:
                hf = m.lookup(fi.cls, h)
                if hf is not None:
                    mapped.add((hf.rel, hf.qual))
        res.inst(part=part, function=qual, subject=subject, domain=dom, class_tests=ntests, fallthrough_paths=len(falls), helpers=entered)
        if ntests == 0:
            # the chain may have moved into a method the site calls with the same definition
            try:
                falls, ntests, entered = dispatch_fallthrough(repo, fi, subject, direct=True)
                for h in entered:
                    if fi.cls is not None:
                        hf = m.lookup(fi.cls, h)
                        if hf is not None:
                            mapped.add((hf.rel, hf.qual))
            except Inconclusive as e:
                res.unsure(f"A2: {qual}: {e}")
                continue
        if ntests == 0:
            res.unsure(f"A2: {qual}: no class test on `{subject}` found on any path")
            continue
        uncovered: List[str] = []
        for k in domain:
            for names, node, other in falls:
                hit = False
                for nme in names:
                    tc = [c for c in m.all_classes() if c.name == nme and c.rel.endswith("_ast.py")]
                    if tc and m.is_subclass(k, tc[0]):
                        hit = True
                if not hit and not other:
                    if k.name not in uncovered:
                        uncovered.append(k.name)
        if uncovered:
            f = Finding(
                "A2", fi.rel, fi.node.lineno, qual, f"class dispatch over `{subject}`",
                f"domain {dom} member(s) {uncovered} reach the end of the dispatch and raise",
                witness=f"a schema using a {uncovered[0]} where this function is called",
                tag=f"{qual}:{','.join(uncovered)}",
            )
            f.part = part
            res.bad(f)
        else:
            for names, node, other in falls:
                if node is not None and not other:
                    discharged.add(id(node))
    # unmapped dispatch chains that end in InternalError
    for mod in m.mods.values():
        if "/renderer/" not in mod.rel:
            continue
        for ci in mod.classes.values():
            for fi in ci.methods.values():
                if (fi.rel, fi.qual) in mapped:
                    continue
                ends = [st for st in ast.walk(fi.node) if isinstance(st, ast.Raise) and "InternalError" in src_of(st)]
                ast_names = {c.name for c in m.all_classes() if c.rel.endswith("_ast.py")}

                def _node_test(t: ast.AST) -> bool:
                    for c_ in ast.walk(t):
                        if isinstance(c_, ast.Call) and isinstance(c_.func, ast.Name) and c_.func.id == "isinstance" and len(c_.args) == 2:
                            if any(isinstance(x, ast.Name) and x.id in ast_names for x in ast.walk(c_.args[1])):
                                return True
                    return False

                has_chain = any(isinstance(st, ast.If) and _node_test(st.test) for st in ast.walk(fi.node))
                if ends and has_chain:
                    res.unsure(f"A2: unmapped dispatch {fi.rel}:{fi.qual} ends in InternalError; extend DISPATCH_SITES by hand")
    repo.cache["A2.discharged"] = discharged
    return res


def _lang_part(rel: str) -> str:
    if "/impls/c/" in rel:
        return "c"
    if "/impls/go/" in rel:
        return "go"
    if "/impls/py/" in rel:
        return "py"
    return "common"


# --------------------------------------------------------------------------
# A1 exception escape
# --------------------------------------------------------------------------

ALLOWED = {
    "parse": ("ParserError", "OSError"),
    "render": ("RendererError", "OSError"),
    "lint": (),
}

# user-controlled operands: a site whose operand mentions one of these has a
# feasibility witness (the grammar leaves the value / cardinality free)
TAINT_MARKERS = ("p[", "t.value", ".fields()", ".sorted_fields()", ".value", "s[i]")


def _site_key(s: RaiseSite) -> str:
    c = s.detail if s.kind != "raise" else s.detail
    from .rules_b import norm_belief_key

    return norm_belief_key(f"A1|{s.file}|{s.unit.fn.qual}|{s.exc}|{short(c, 100)}")


def _rx_pairs_backslash(rx: str) -> Optional[bool]:
    """True when the string-token regex lets a backslash into the quotes only as the first half of a
    two-character pair; False when it can stand alone; None when the regex is not of the known form."""
    import re._parser as sre_parse  # type: ignore

    try:
        items = [(str(op), av) for op, av in sre_parse.parse(rx, __import__("re").VERBOSE)]
    except Exception:
        return None
    if len(items) != 3 or items[0] != ("LITERAL", 34) or items[2] != ("LITERAL", 34) or items[1][0] not in ("MIN_REPEAT", "MAX_REPEAT"):
        return False
    body = list(items[1][1][2])
    while len(body) == 1 and str(body[0][0]) == "SUBPATTERN":
        body = list(body[0][1][3])
    if len(body) != 1 or str(body[0][0]) != "BRANCH":
        return False
    for alt in body[0][1][1]:
        alt = list(alt)
        while len(alt) == 1 and str(alt[0][0]) == "SUBPATTERN":
            alt = list(alt[0][1][3])
        ops = [(str(o), a) for o, a in alt]
        if len(ops) == 1 and ops[0][0] == "IN":
            members = [(str(o), a) for o, a in ops[0][1]]
            if ("NEGATE", None) in members and ("LITERAL", 92) in members:
                continue
            return False
        if len(ops) == 1 and ops[0][0] == "NOT_LITERAL" and ops[0][1] == 92:
            continue
        if len(ops) == 2 and ops[0] == ("LITERAL", 92) and ops[1][0] in ("ANY", "IN", "NOT_LITERAL", "LITERAL"):
            continue
        return False
    return True


_SCAN_CACHE: Dict[str, Tuple[bool, str, Set[str]]] = {}


def _scan_engine_discharge(cg: CG, s: RaiseSite) -> Optional[str]:
    """IndexError of `s[i]` / StopIteration of `next(it)` in the unescape scan of the string token, in
    whatever form the scan is written (B4's path summary): the scan is the recognised left-to-right
    one, looks one character ahead only right behind a backslash, runs over the token text without
    its quotes, and the token regex pairs every backslash with a following character."""
    from .normal import V as _V
    from .pyflow import PyFlow
    from .rules_b import _unescape_scan

    fi = s.unit.fn
    if fi.cls is None or getattr(fi.cls, "name", None) != "Lexer":
        return None
    n = s.node
    is_next = isinstance(n, ast.Call) and isinstance(n.func, ast.Name) and n.func.id == "next"
    if not (isinstance(n, ast.Subscript) or is_next):
        return None
    if enclosing(n, (ast.While, ast.For)) is None:
        return None
    root = str(cg.model.repo.root) if hasattr(cg.model, "repo") else ""
    key = root + "|" + fi.rel
    if key not in _SCAN_CACHE:
        lc = fi.cls
        top = lc.methods.get("t_STRING_LITERAL")
        verdict: Tuple[bool, str, Set[str]] = (False, "no t_STRING_LITERAL", set())
        if top is not None:
            rx = ast.get_docstring(top.node, clean=False)
            mod_ = cg.model.mods[fi.rel]
            consts = dict(mod_.assigns)
            consts.update(lc.attrs_val)
            for k_c in list(consts):
                consts.setdefault(f"Lexer.{k_c}", consts[k_c])
            consts = {k_c: v_c for k_c, v_c in consts.items() if "escaping_chars" not in k_c}
            meths = {k_m: v_m.node for k_m, v_m in lc.methods.items()}
            helpers = {top.node.name} | {c_.func.attr for c_ in ast.walk(top.node) if isinstance(c_, ast.Call) and isinstance(c_.func, ast.Attribute) and isinstance(c_.func.value, ast.Name) and c_.func.value.id == "self" and c_.func.attr in meths}
            try:
                prm = [a_.arg for a_ in top.node.args.args]
                tops = PyFlow(funcs={}, methods=meths, consts=consts, havoc_on=(), inline_filter=lambda n_, f_: not n_.startswith("t_") and n_ != "current_filepath").run(top.node, {prm[0]: _V("self"), prm[1]: _V("t")})
                ok, why, bad = _unescape_scan(tops, strict_text="t.value[1:-1]")
                pairs = _rx_pairs_backslash(rx) if rx is not None else None
                if ok and not bad and pairs is True:
                    verdict = (True, "", helpers)
                elif ok and not bad and pairs is False:
                    verdict = (False, UNSAFE, helpers)
                else:
                    verdict = (False, why, helpers)
            except Inconclusive as e:
                verdict = (False, str(e), helpers)
        _SCAN_CACHE[key] = verdict
    ok, why, helpers = _SCAN_CACHE[key]
    if fi.node.name not in helpers:
        return None
    if ok:
        return "the unescape scan is the recognised left-to-right one over the token text without its quotes, looks ahead only right behind a backslash, and the token regex pairs every backslash with a following character"
    if why == UNSAFE:
        return UNSAFE + "the token regex lets a backslash stand alone inside the quotes (e.g. directly before the closing quote): the character after it does not exist"
    return None


def _auto_discharge(cg: CG, s: RaiseSite) -> Optional[str]:
    """Returns a reason when a dominating guard proves the site cannot raise."""
    fn = s.unit.fn.node
    n = s.node
    if s.exc in ("IndexError", "LookupError", "StopIteration"):
        r0 = _scan_engine_discharge(cg, s)
        if r0:
            return r0
    if s.kind == "getattr" and isinstance(n, ast.Call) and len(n.args) == 2 and isinstance(n.args[0], ast.Name) and n.args[0].id == "self" and isinstance(n.args[1], ast.Constant) and isinstance(n.args[1].value, str) and s.unit.fn.cls is not None:
        # getattr(self, "name") in a base class: every class that can be the receiver has the attribute
        an = n.args[1].value
        m_ = cg.model
        recvs = [c_ for c_ in cg.instantiated if m_.is_subclass(c_, s.unit.fn.cls)]
        def has(c_: Any) -> bool:
            for k_ in m_.mro(c_):
                if an in k_.methods or an in k_.attrs_val or an in k_.inst_attrs:
                    return True
            return False
        if recvs and all(has(c_) for c_ in recvs):
            return f"every instantiated subclass ({len(recvs)}) defines `{an}`"
    if s.kind == "subscript" and isinstance(n, ast.Subscript):
        facts = facts_at(n, fn)
        idx = n.slice
        # str.split / rsplit return at least one piece, partition / rpartition exactly three
        if isinstance(n.value, ast.Call) and isinstance(n.value.func, ast.Attribute) and isinstance(idx, (ast.Constant, ast.UnaryOp)):
            from .guards import _const_int as _ci0

            k0_ = _ci0(idx)
            if n.value.func.attr in ("split", "rsplit", "splitlines") and k0_ in (0, -1) and n.value.func.attr != "splitlines":
                return "str.split() returns at least one piece"
            if n.value.func.attr in ("partition", "rpartition") and k0_ in (0, 1, 2, -1, -2, -3):
                return "str.partition() returns exactly three pieces"
        if s.exc in ("KeyError", "LookupError") and known_key_in(n.value, idx, facts):
            return "dominating `key in mapping` test"
        # xs[i] with i the variable of `for i in range(len(xs))` (loop or comprehension) and xs not resized meanwhile
        if s.exc in ("IndexError", "LookupError") and isinstance(idx, ast.Name) and isinstance(n.value, (ast.Name, ast.Attribute)):
            holder = parent(n)
            while holder is not None and holder is not fn:
                gens = []
                if isinstance(holder, ast.For):
                    gens = [(holder.target, holder.iter)]
                elif isinstance(holder, (ast.ListComp, ast.GeneratorExp, ast.SetComp, ast.DictComp)):
                    gens = [(g_.target, g_.iter) for g_ in holder.generators]
                for tg_, it_ in gens:
                    if isinstance(tg_, ast.Name) and tg_.id == idx.id and isinstance(it_, ast.Call) and isinstance(it_.func, ast.Name) and it_.func.id == "range" and len(it_.args) == 1 and isinstance(it_.args[0], ast.Call) and isinstance(it_.args[0].func, ast.Name) and it_.args[0].func.id == "len" and it_.args[0].args and same(it_.args[0].args[0], n.value):
                        resized = [c_ for c_ in ast.walk(holder) if isinstance(c_, ast.Call) and isinstance(c_.func, ast.Attribute) and same(c_.func.value, n.value) and c_.func.attr in ("pop", "remove", "clear", "insert", "append", "extend")]
                        rebound = [a_ for a_ in ast.walk(holder) if isinstance(a_, (ast.Assign, ast.AugAssign)) and any(same(t_, n.value) or (isinstance(t_, ast.Name) and t_.id == idx.id) for t_ in (a_.targets if isinstance(a_, ast.Assign) else [a_.target]))]
                        if not resized and not rebound:
                            return f"the index runs over range(len({src_of(n.value)})) of the same, unchanged sequence"
                holder = parent(holder)
        # D[k] with D a local dict literal and k the result of a helper whose every return value is a key of D (or None, excluded by a guard)
        if s.exc in ("KeyError", "LookupError") and isinstance(n.value, ast.Name) and isinstance(idx, ast.Name):
            binds_d = [a for a in ast.walk(fn) if isinstance(a, (ast.Assign, ast.AnnAssign)) and a.value is not None and any(isinstance(t_, ast.Name) and t_.id == n.value.id for t_ in (a.targets if isinstance(a, ast.Assign) else [a.target]))]
            binds_k = [a for a in ast.walk(fn) if isinstance(a, (ast.Assign, ast.AnnAssign)) and a.value is not None and any(isinstance(t_, ast.Name) and t_.id == idx.id for t_ in (a.targets if isinstance(a, ast.Assign) else [a.target]))]
            if len(binds_d) == 1 and isinstance(binds_d[0].value, ast.Dict) and all(isinstance(k_, ast.Constant) for k_ in binds_d[0].value.keys) and len(binds_k) == 1 and isinstance(binds_k[0].value, ast.Call) and isinstance(binds_k[0].value.func, ast.Name):
                keys = {k_.value for k_ in binds_d[0].value.keys}
                mod_ = cg.model.mods[s.unit.fn.rel]
                helper = mod_.funcs.get(binds_k[0].value.func.id)
                not_none = any((src_of(t).replace(" ", "") == f"{idx.id}isnotNone" and truth) or (src_of(t).replace(" ", "") == f"{idx.id}isNone" and not truth) for t, truth in facts)
                if helper is not None:
                    try:
                        from .pyflow import PyFlow, single_atom as _sa2, str_of as _so2

                        fl_ = PyFlow(funcs={k_: v_.node for k_, v_ in mod_.funcs.items()}, consts=dict(mod_.assigns), havoc_on=())
                        vals_ = set()
                        closed = True
                        for p_ in fl_.run(helper.node):
                            if p_.done != "return" or p_.ret is None:
                                closed = closed and p_.done == "raise"
                                continue
                            a_ = _sa2(p_.ret)
                            if a_ is not None and a_[0] == "none":
                                vals_.add(None)
                            elif _so2(p_.ret) is not None:
                                vals_.add(_so2(p_.ret))
                            else:
                                closed = False
                        if closed and (vals_ - {None}) <= keys and (None not in vals_ or not_none):
                            return f"the key is a result of {helper.name}(), whose results {sorted(x for x in vals_ if x is not None)} are all keys of the literal dict" + (" (None excluded by the guard)" if None in vals_ else "")
                    except Inconclusive:
                        pass
        if isinstance(idx, (ast.Constant, ast.UnaryOp)):
            from .guards import _const_int

            k = _const_int(idx)
            if k in (0, -1) and known_nonempty(n.value, facts):
                return "dominating non-emptiness test"
        if known_index_lt_len(n.value, idx, facts):
            return "dominating `i < len(x)` test"
        r = _string_escape_shape(s)
        if r:
            return r  # may carry the UNSAFE marker: the caller reports it
        # a private helper indexing its own parameter: every call site establishes non-emptiness of the argument
        if isinstance(idx, (ast.Constant, ast.UnaryOp)) and isinstance(n.value, ast.Name) and s.unit.fn.cls is None and fn.name.startswith("_"):
            from .guards import _const_int as _ci

            params = [a.arg for a in fn.args.args]
            if _ci(idx) in (0, -1) and n.value.id in params:
                pi = params.index(n.value.id)
                sites_ = []
                for mod_ in cg.model.mods.values():
                    for c_ in ast.walk(mod_.tree):
                        if isinstance(c_, ast.Call) and isinstance(c_.func, ast.Name) and c_.func.id == fn.name and mod_.rel == s.unit.fn.rel:
                            sites_.append(c_)
                if sites_:
                    all_ok = True
                    for c_ in sites_:
                        if pi >= len(c_.args):
                            all_ok = False
                            break
                        arg = c_.args[pi]
                        enc = enclosing(c_, ast.FunctionDef)
                        fs = list(facts_at(c_, enc)) if enc is not None else []
                        # filters of the comprehension the call is the element of
                        par_ = parent(c_)
                        while par_ is not None and not isinstance(par_, (ast.GeneratorExp, ast.ListComp, ast.SetComp, ast.FunctionDef)):
                            par_ = parent(par_)
                        if isinstance(par_, (ast.GeneratorExp, ast.ListComp, ast.SetComp)):
                            for g_ in par_.generators:
                                for if_ in g_.ifs:
                                    fs.append((if_, True))
                        if not known_nonempty(arg, fs):
                            all_ok = False
                            break
                    if all_ok:
                        return f"every call of {fn.name} passes an argument tested non-empty at the call site ({len(sites_)} site(s))"
        # `x or default`-style:  (x[0] if x else ...) handled by facts; os.path.splitext(...)[0] is a 2-tuple
        if isinstance(n.value, ast.Call) and src_of(n.value.func) in ("os.path.splitext", "os.path.split") and isinstance(idx, ast.Constant) and idx.value in (0, 1):
            return "os.path.splitext/split return a 2-tuple"
        return None
    if s.kind == "div" and isinstance(n, ast.BinOp):
        if known_nonzero(n.right, facts_at(n, fn)):
            return "dominating non-zero test on the divisor"
        return None
    if s.kind == "assert" and isinstance(n, ast.Assert):
        return None
    if s.kind == "int" and isinstance(n, ast.Call):
        return _int_regex_shape(cg, s)
    if s.kind == "cast" and isinstance(n, ast.Call) and len(n.args) == 2:
        m = cg.model
        mod = m.mods[s.unit.fn.rel]
        want = m.resolve_expr_static(mod, n.args[0])
        for t, truth in facts_at(n, fn):
            def _same_value(x: ast.AST, y: ast.AST) -> bool:
                if same(x, y):
                    return True
                # a local holding the same (repeated) expression:  scope = self.scope_stack[-1]; isinstance(scope, C); cast(C, self.scope_stack[-1])
                if isinstance(x, ast.Name):
                    vals = [a_.value for a_ in ast.walk(fn) if isinstance(a_, (ast.Assign, ast.AnnAssign)) and a_.value is not None and any(isinstance(t_, ast.Name) and t_.id == x.id for t_ in (a_.targets if isinstance(a_, ast.Assign) else [a_.target]))]
                    return len(vals) == 1 and same(vals[0], y)
                return False

            if truth and isinstance(t, ast.Call) and isinstance(t.func, ast.Name) and t.func.id == "isinstance" and len(t.args) == 2 and _same_value(t.args[0], n.args[1]):
                ks = t.args[1].elts if isinstance(t.args[1], ast.Tuple) else [t.args[1]]
                got = [m.resolve_expr_static(mod, k) for k in ks if isinstance(k, (ast.Name, ast.Attribute))]
                if got and all(isinstance(g, ClassInfo) and isinstance(want, ClassInfo) and m.is_subclass(g, want) for g in got):
                    return "dominating isinstance test of the cast operand"
        return None
    return None


UNSAFE = "UNSAFE:"


def _string_escape_shape(s: RaiseSite) -> Optional[str]:
    """`s[i]` right after `i += 1` inside `if s[i] == '\\'` of the string
    token's unescape loop: safe when the token regex only lets a backslash in
    as the first half of a two-character pair inside the quotes."""
    import re._parser as sre_parse  # type: ignore
    from .guards import _end, assignments_between

    fn = s.unit.fn.node
    n = s.node
    if not fn.name.startswith("t_") or not isinstance(n, ast.Subscript):
        return None
    rx = ast.get_docstring(fn, clean=False)
    if rx is None:
        return None
    raw = facts_at(n, fn, kill=False)
    loop_test = None
    bs_test = False
    def is_cur(e: ast.AST, at: ast.AST) -> bool:
        """e denotes s[i] as of the test `at`: the subscript itself, or a local bound to it with no change of i in between"""
        if same(e, n):
            return True
        if isinstance(e, ast.Name) and isinstance(n.slice, ast.Name):
            binds = [a for a in ast.walk(fn) if isinstance(a, (ast.Assign, ast.AnnAssign)) and a.value is not None and any(isinstance(t_, ast.Name) and t_.id == e.id for t_ in (a.targets if isinstance(a, ast.Assign) else [a.target]))]
            before = [a for a in binds if _end(a) <= (at.lineno, at.col_offset)]
            if before:
                last = max(before, key=_end)
                if same(last.value, n) and not assignments_between(fn, n.slice.id, _end(last), at):
                    return True
        return False

    for t, truth in raw:
        if truth and isinstance(t, ast.Compare) and len(t.ops) == 1:
            if isinstance(t.ops[0], ast.Lt) and same(t.left, n.slice) and src_of(t.comparators[0]) == f"len({src_of(n.value)})":
                loop_test = t
            if isinstance(t.ops[0], ast.Eq) and is_cur(t.left, t) and isinstance(t.comparators[0], ast.Constant) and t.comparators[0].value == "\\":
                bs_test = True
    for t, truth in raw:
        # else-branch of `if s[i] != '\\'`
        if (not truth) and isinstance(t, ast.Compare) and len(t.ops) == 1 and isinstance(t.ops[0], ast.NotEq) and is_cur(t.left, t) and isinstance(t.comparators[0], ast.Constant) and t.comparators[0].value == "\\":
            bs_test = True
    if loop_test is None or not bs_test or not isinstance(n.slice, ast.Name):
        return None
    incs = assignments_between(fn, n.slice.id, _end(loop_test), n)
    if len(incs) != 1 or not (isinstance(incs[0], ast.AugAssign) and isinstance(incs[0].op, ast.Add) and isinstance(incs[0].value, ast.Constant) and incs[0].value.value == 1):
        return None
    # the string is the token text without its quotes
    strip_ok = any(
        isinstance(a, (ast.Assign, ast.AnnAssign)) and src_of(a.value) == "t.value[1:-1]" and src_of(a.targets[0] if isinstance(a, ast.Assign) else a.target) == src_of(n.value)
        for a in ast.walk(fn)
    )
    if not strip_ok:
        return None
    try:
        items = [(str(op), av) for op, av in sre_parse.parse(rx, __import__("re").VERBOSE)]
    except Exception:
        return None
    if len(items) != 3 or items[0] != ("LITERAL", 34) or items[2] != ("LITERAL", 34) or items[1][0] not in ("MIN_REPEAT", "MAX_REPEAT"):
        return UNSAFE + "the token regex lets a backslash stand alone inside the quotes (e.g. directly before the closing quote): the character after it does not exist"
    body = list(items[1][1][2])
    while len(body) == 1 and str(body[0][0]) == "SUBPATTERN":
        body = list(body[0][1][3])
    if len(body) != 1 or str(body[0][0]) != "BRANCH":
        return UNSAFE + "the token regex lets a backslash stand alone inside the quotes (e.g. directly before the closing quote): the character after it does not exist"
    for alt in body[0][1][1]:
        alt = list(alt)
        while len(alt) == 1 and str(alt[0][0]) == "SUBPATTERN":
            alt = list(alt[0][1][3])
        ops = [(str(o), a) for o, a in alt]
        if len(ops) == 1 and ops[0][0] == "IN":
            members = [(str(o), a) for o, a in ops[0][1]]
            if ("NEGATE", None) in members and ("LITERAL", 92) in members:
                continue  # any char except backslash (and others)
            return UNSAFE + "the token regex lets a backslash stand alone inside the quotes (e.g. directly before the closing quote): the character after it does not exist"
        if len(ops) == 1 and ops[0][0] == "NOT_LITERAL" and ops[0][1] == 92:
            continue
        if len(ops) == 2 and ops[0] == ("LITERAL", 92) and ops[1][0] in ("ANY", "IN", "NOT_LITERAL", "LITERAL"):
            continue  # backslash + exactly one more character
        return UNSAFE + "the token regex lets a backslash stand alone inside the quotes (e.g. directly before the closing quote): the character after it does not exist"
    return "regex shape: inside the quotes a backslash only occurs as the first half of a two-character pair, so s[i+1] exists"


def _int_regex_shape(cg: CG, s: RaiseSite) -> Optional[str]:
    """int(t.value[k:]) / int(t.value[, 16]) inside a lexer rule is safe when
    the rule's regex is a literal prefix of length k followed by digits only."""
    import re._parser as sre_parse  # type: ignore

    fn = s.unit.fn.node
    if not fn.name.startswith("t_"):
        return None
    rx = ast.get_docstring(fn, clean=False)
    call = s.node
    if rx is None or not isinstance(call, ast.Call) or not call.args:
        return None
    arg = call.args[0]
    base = 10
    if len(call.args) > 1 and isinstance(call.args[1], ast.Constant):
        base = call.args[1].value
    for kw_ in call.keywords:
        if kw_.arg == "base" and isinstance(kw_.value, ast.Constant):
            base = kw_.value.value
    k = 0
    if isinstance(arg, ast.Subscript) and isinstance(arg.slice, ast.Slice) and src_of(arg.value) == "t.value":
        lo_ = arg.slice.lower
        if arg.slice.upper is not None or arg.slice.step is not None:
            return None
        if isinstance(lo_, ast.Constant) and isinstance(lo_.value, int):
            k = lo_.value
        elif isinstance(lo_, ast.Call) and isinstance(lo_.func, ast.Name) and lo_.func.id == "len" and len(lo_.args) == 1 and isinstance(lo_.args[0], ast.Constant) and isinstance(lo_.args[0].value, str):
            k = len(lo_.args[0].value)
        else:
            return None
    elif src_of(arg) != "t.value":
        return None
    try:
        parsed = list(sre_parse.parse(rx))
    except Exception:
        return None
    # strip \b anchors
    items = [(str(op), av) for op, av in parsed if str(op) != "AT"]
    lits = 0
    i = 0
    while i < len(items) and items[i][0] == "LITERAL":
        lits += 1
        i += 1
    rest = items[i:]
    if base == 16 and k == 0:
        # 0x[0-9a-fA-F]+ : int(text, 16) accepts the 0x prefix
        if lits == 2 and chr(parsed[0][1]) == "0" and chr(parsed[1][1]) in "xX":
            pass
        else:
            return None
    elif lits > k:
        return UNSAFE + f"the slice starts {lits - k} character(s) inside the token's literal prefix: int() rejects the letters"
    elif lits != k:
        return None
    if len(rest) != 1 or rest[0][0] != "MAX_REPEAT":
        return None
    lo, hi, sub = rest[0][1]
    if lo < 1:
        return UNSAFE + "the token regex admits text that int() with this prefix length / base rejects"
    sub = list(sub)
    if len(sub) != 1 or str(sub[0][0]) != "IN":
        return UNSAFE + "the token regex admits text that int() with this prefix length / base rejects"
    allowed = set("0123456789") if base == 10 else set("0123456789abcdefABCDEF")
    for op, av in sub[0][1]:
        if str(op) == "RANGE":
            if not all(chr(c) in allowed for c in range(av[0], av[1] + 1)):
                return UNSAFE + "the token regex admits text that int() with this prefix length / base rejects"
        elif str(op) == "LITERAL":
            if chr(av) not in allowed:
                return UNSAFE + "the token regex admits text that int() with this prefix length / base rejects"
        else:
            return UNSAFE + "the token regex admits text that int() with this prefix length / base rejects"
    return f"regex shape: {lits}-character literal prefix then one or more base-{base} digits"


def _rule_clean(repo: Repo, rid: str) -> bool:
    from .core import all_rules

    rules = all_rules()
    if rid not in rules:
        return False  # the rule the belief rests on does not exist: fail closed
    r = rules[rid](repo)
    return not r.findings and not r.inconclusive


def _tainted(s: RaiseSite) -> bool:
    txt = s.detail
    fn = s.unit.fn.node
    if any(mk in txt for mk in TAINT_MARKERS):
        return True
    if s.kind in ("div", "subscript", "int") and (fn.name.startswith("p_") or fn.name.startswith("t_")):
        return True
    if s.kind == "cast":
        return True  # the operand is an AST object built from the schema
    if s.kind == "subscript" and isinstance(s.node, ast.Subscript) and s.unit.fn.cls is None:
        # module-level helper: an index into something derived from its own parameter
        # (iteration / assignment / str methods) is controlled by the caller's data
        params = {a.arg for a in fn.args.args}
        tainted = set(params)
        for _ in range(4):
            for n in ast.walk(fn):
                src_names: set = set()
                tg: list = []
                if isinstance(n, (ast.Assign, ast.AnnAssign)) and n.value is not None:
                    src_names = {x.id for x in ast.walk(n.value) if isinstance(x, ast.Name)}
                    tg = n.targets if isinstance(n, ast.Assign) else [n.target]
                elif isinstance(n, (ast.For, ast.comprehension)):
                    src_names = {x.id for x in ast.walk(n.iter) if isinstance(x, ast.Name)}
                    tg = [n.target]
                if src_names & tainted:
                    for t in tg:
                        tainted |= {x.id for x in ast.walk(t) if isinstance(x, ast.Name)}
        base_names = {x.id for x in ast.walk(s.node.value) if isinstance(x, ast.Name)}
        if base_names & tainted:
            return True
    return False


@rule("A1", "no exception other than the allowed classes escapes parse / lint / render")
def a1(repo: Repo) -> RuleResult:
    res = RuleResult("A1", floor=60)
    G = graphs(repo)
    m = G.model
    a2res = a2(repo)
    a2_ok: Set[int] = repo.cache.get("A2.discharged", set())
    beliefs = load_beliefs()
    from .core import get_rule

    b1res = get_rule("B1")(repo)
    a12res = a12(repo)
    a13res = a13(repo)
    structural_ok = not (a12res.findings or a12res.inconclusive)
    render_ok = not (a13res.findings or a13res.inconclusive)

    runs: List[Tuple[str, str, CG, List[Unit]]] = [("parse", "parse", G.parse, [G.parse_entry]), ("lint", "lint", G.lint, [G.lint_entry])]
    for lang, (cg, ent) in G.render.items():
        runs.append(("render", "render:" + lang, cg, ent))

    reported: Set[str] = set()
    for kind, label, cg, entries in runs:
        if cg.unknown_decorators:
            res.unsure(f"A1: unknown decorator(s) in reachable code: {sorted(cg.unknown_decorators)[:5]}")
        for u, n, why in cg.unresolved:
            res.unsure(f"A1: unresolved call in {u}: {src_of(n)} ({why})")
        esc = cg.escapes()
        allowed = ALLOWED[kind]
        merged: Dict[Tuple[int, str], Tuple[RaiseSite, Unit]] = {}
        for e in entries:
            for key, (site, _) in esc[e].items():
                merged.setdefault(key, (site, e))
        res.note(f"{label}: {len(cg.units)} analysis units, {len(cg.instantiated)} instantiated classes, {len(merged)} escaping (site, class) pairs, {len(cg.fallbacks)} name-based fallbacks")
        for key, (s, entry) in merged.items():
            if any(cg.exc_is_subclass(s.exc, a) for a in allowed):
                res.inst(part=kind, entry=label, site=f"{s.file}:{s.unit.fn.qual}", exc=s.exc, status="allowed class")
                continue
            status = None
            if s.kind == "p-index":
                status = "B1" if not b1res.inconclusive else None
                if status is None:
                    res.unsure("A1: p[k] sites depend on B1, which is inconclusive")
                    continue
            elif s.kind == "raise" and id(s.node) in a2_ok:
                status = "A2: dispatch covers its domain"
            else:
                r = _auto_discharge(cg, s)
                if r and r.startswith(UNSAFE):
                    unsafe_why = r[len(UNSAFE):]
                    k0 = _site_key(s)
                    res.inst(part=kind, entry=label, site=f"{s.file}:{s.unit.fn.qual}", exc=s.exc, status="UNSAFE")
                    if k0 not in reported:
                        reported.add(k0)
                        f = Finding("A1", s.file, s.line, s.unit.fn.qual, s.detail, f"{s.exc} can escape {label} (allowed: {list(allowed) or 'nothing'}): {unsafe_why}", witness="token text the regex admits but the action cannot handle", path=cg.path_to(esc, entry, key), tag=f"{s.exc}:{short(s.detail, 80)}")
                        f.part = kind
                        res.bad(f)
                    continue
                if r:
                    status = r
            k = _site_key(s)
            if status is None and k not in beliefs and s.kind == "raise":
                # the only `raise <this class>` of the function and the only belief about one: the same site,
                # however its message is put together today
                prefix = f"A1|{s.file}|{s.unit.fn.qual}|{s.exc}|"
                cands = [bk for bk in beliefs if bk.startswith(prefix) and bk[len(prefix):].lstrip().startswith((s.exc + "(", s.exc + ".from_token("))]
                same = [n_ for n_ in ast.walk(s.unit.fn.node) if isinstance(n_, ast.Raise) and n_.exc is not None and src_of(n_.exc.func if isinstance(n_.exc, ast.Call) else n_.exc).split(".")[0] == s.exc]
                if len(cands) == 1 and len(same) == 1:
                    k = cands[0]
                elif not cands and len(same) == 1 and s.unit.fn.cls is not None:
                    # the method moved into a base class: beliefs about it as a method of the classes that inherit it
                    mname = s.unit.fn.node.name
                    inh = []
                    for bk in beliefs:
                        parts_ = bk.split("|")
                        if len(parts_) < 5 or parts_[0] != "A1" or parts_[3] != s.exc or "." not in parts_[2] or parts_[2].rsplit(".", 1)[1] != mname:
                            continue
                        owner = [c_ for c_ in cg.model.all_classes() if c_.name == parts_[2].rsplit(".", 1)[0] and c_.rel == parts_[1]]
                        if owner and cg.model.lookup(owner[0], mname) is s.unit.fn and parts_[4].lstrip().startswith((s.exc + "(", s.exc + ".from_token(")):
                            inh.append(bk)
                    if inh and all((not beliefs[bk].get("requires")) or _rule_clean(repo, beliefs[bk]["requires"]) for bk in inh):
                        k = inh[0]
            if status is None and k in beliefs:
                b = beliefs[k]
                need = b.get("requires")
                if need and not _rule_clean(repo, need):
                    status = None
                    res.note(f"belief {k} not usable: rule {need} it rests on is not clean")
                else:
                    status = "belief: " + b["reason"]
            if status is not None:
                res.inst(part=kind, entry=label, site=f"{s.file}:{s.unit.fn.qual}", exc=s.exc, status=status[:120])
                continue
            res.inst(part=kind, entry=label, site=f"{s.file}:{s.unit.fn.qual}", exc=s.exc, status="UNDISCHARGED")
            if k in reported:
                continue
            reported.add(k)
            path = cg.path_to(esc, entry, key)
            in_lexer_rule = s.unit.fn.node.name.startswith("t_") and ast.get_docstring(s.unit.fn.node, clean=False) is not None and s.kind in ("int", "subscript")
            if in_lexer_rule:
                # the token regex constrains the text in ways only the enumerated shapes understand
                res.unsure(f"A1: {s.exc} at {s.file}:{s.line} {s.unit.fn.qual} `{short(s.detail, 80)}`: the operand is token text matched by the rule's regex; the relation between regex and operation is not one of the recognised shapes")
            elif _tainted(s) or s.exc == "NotImplementedError":
                wit = {
                    "div": "a zero divisor written in the schema",
                    "subscript": "an empty collection / out-of-range index the grammar permits",
                    "int": "token text the regex admits but int() rejects",
                    "cast": "a schema in which the value has another class than the cast claims",
                    "raise": "the condition depends on schema contents only",
                }.get(s.kind, "operand is controlled by the schema text")
                if s.exc == "NotImplementedError":
                    wit = "an abstract method is reached on a concrete class that does not override it"
                f = Finding("A1", s.file, s.line, s.unit.fn.qual, s.detail, f"{s.exc} can escape {label} (allowed: {list(allowed) or 'nothing'})", witness=wit, path=path, tag=f"{s.exc}:{short(s.detail, 80)}")
                f.part = kind
                res.bad(f)
            else:
                res.unsure(f"A1: belief needed: {s.exc} at {s.file}:{s.line} {s.unit.fn.qual} `{short(s.detail, 80)}` may escape {label}; neither a guard, A2, nor beliefs.json (key {k!r}) discharges it")
    return res


# --------------------------------------------------------------------------
# A12 freeze typestate (parser actions)
# --------------------------------------------------------------------------


@rule("A12", "in grammar actions, attribute stores on a node precede its freeze(); nothing is stored or pushed after it")
def a12(repo: Repo) -> RuleResult:
    res = RuleResult("A12", floor=3)
    G = graphs(repo)
    m = G.model
    g = get_grammar(repo)
    assert g.parser_cls is not None
    pc = m.cls("Parser", "bitproto/parser.py")
    for st in g.parser_cls.body:
        if not isinstance(st, ast.FunctionDef):
            continue
        fi = pc.methods.get(st.name)
        if fi is None:
            continue
        ty = Typer(m, fi, pc)
        freezes: Dict[str, Tuple[int, int]] = {}
        for n in ast.walk(st):
            if isinstance(n, ast.Call) and isinstance(n.func, ast.Attribute) and n.func.attr == "freeze" and isinstance(n.func.value, ast.Name):
                pos = (n.lineno, n.col_offset)
                v = n.func.value.id
                if v in freezes:
                    res.bad(Finding("A12", PARSER, n.lineno, fi.qual, src_of(n), f"`{v}` is frozen twice (the second freeze raises AttributeError)", tag=f"{st.name}:{v}:double-freeze"))
                freezes[v] = min(freezes.get(v, pos), pos)
                res.inst(action=st.name, freeze=src_of(n))
        for n in ast.walk(st):
            tgts: List[ast.AST] = []
            if isinstance(n, ast.Assign):
                tgts = list(n.targets)
            elif isinstance(n, (ast.AugAssign, ast.AnnAssign)):
                tgts = [n.target]
            for t in tgts:
                if isinstance(t, ast.Attribute) and isinstance(t.value, ast.Name) and t.value.id != "self":
                    v = t.value.id
                    vt = ty.type_of(t.value)
                    node_classes = [a.cls for a in vt if isinstance(a, Inst) and m.is_subclass(a.cls, G.node_cls)]
                    if not node_classes:
                        continue
                    res.inst(action=st.name, store=src_of(t))
                    pos = (n.lineno, n.col_offset)
                    if v in freezes and pos > freezes[v]:
                        res.bad(Finding("A12", PARSER, n.lineno, fi.qual, src_of(n), f"attribute of `{v}` is stored after `{v}.freeze()` (raises AttributeError from utils.frozen)", witness="any input reducing this production", tag=f"{st.name}:{src_of(t)}:after-freeze"))
                    elif v not in freezes:
                        # frozen at construction?
                        for c in node_classes:
                            subs = [s for s in G.seed if m.is_subclass(s, c)]
                            if subs and all(G.parse._frozen_mode(s) is True for s in subs):
                                res.bad(Finding("A12", PARSER, n.lineno, fi.qual, src_of(n), f"`{v}` is an instance of {c.name}, which is frozen at the end of its constructor; this store raises AttributeError", tag=f"{st.name}:{src_of(t)}:frozen-at-init"))
    return res


# --------------------------------------------------------------------------
# A13 render entry / push_string discipline
# --------------------------------------------------------------------------


@rule("A13", "block render()/defer() run only under a render context; push_string follows a push of the same block")
def a13(repo: Repo) -> RuleResult:
    res = RuleResult("A13", floor=10)
    m = get_model(repo)
    block = m.cls("Block", "renderer/block.py")
    # (a) who calls .render() / .defer() on a block
    for mod in m.mods.values():
        if "/renderer/" not in mod.rel:
            continue
        for ci in mod.classes.values():
            if not m.is_subclass(ci, block):
                continue
            for fi in ci.methods.values():
                for n in ast.walk(fi.node):
                    if isinstance(n, ast.Call) and isinstance(n.func, ast.Attribute) and n.func.attr in ("render", "defer") and not n.args:
                        recv = n.func.value
                        is_super = isinstance(recv, ast.Call) and isinstance(recv.func, ast.Name) and recv.func.id == "super"
                        res.inst(part="entry", where=fi.qual, call=src_of(n))
                        if is_super:
                            continue
                        if fi.name in ("_render_with_ctx", "_defer_with_ctx") and src_of(recv) == "self":
                            # must be inside `with self._maintain_ctx(ctx)`
                            w = enclosing(n, ast.With)
                            if w is None or "_maintain_ctx" not in src_of(w.items[0].context_expr):
                                res.bad(Finding("A13", fi.rel, n.lineno, fi.qual, src_of(n), "render()/defer() is called outside `with self._maintain_ctx(ctx)`: the block has no formatter", tag=f"{fi.qual}:no-ctx"))
                            continue
                        res.bad(Finding("A13", fi.rel, n.lineno, fi.qual, src_of(n), "a block's render()/defer() is called directly instead of through _render_with_ctx/_render_from_block; its context is unset and `self.formatter` asserts", tag=f"{fi.qual}:{src_of(n)}"))
    # (b) push_string after push
    for mod in m.mods.values():
        if "/renderer/" not in mod.rel:
            continue
        for ci in mod.classes.values():
            if not m.is_subclass(ci, block):
                continue
            for fi in ci.methods.values():
                if fi.name in ("push_string",):
                    continue
                calls = [n for n in ast.walk(fi.node) if isinstance(n, ast.Call) and isinstance(n.func, ast.Attribute) and src_of(n.func.value) == "self"]
                ps = [n for n in calls if n.func.attr in ("push_string", "push_typing_hint_inline_comment")]
                if not ps or fi.name == "push_typing_hint_inline_comment":
                    continue
                pushes = [n for n in calls if n.func.attr in ("push", "push_comment", "push_empty_line", "render_alias_typedef", "render_field_declaration", "render_enum_type", "render_case")]
                # on the paths of the method with its helpers inlined: a line has been pushed before any push_string
                engine_ok: Optional[bool] = None
                if fi.name in ("render",) or fi.name.startswith("render_"):
                    try:
                        from .emit import FORMATTERS as _FM, block_flow as _bf
                        from .normal import V as _Vp

                        sfx_ = next((k_ for k_ in _FM if mod.rel.endswith(k_)), None)
                        if sfx_ is not None:
                            fcn_, frel_ = _FM[sfx_]
                            keep_ = tuple(sorted({n_ for k_ in m.mro(m.cls(fcn_, frel_)) for n_ in k_.methods if n_.startswith(("format_", "formart_"))}))
                            flow_ = _bf(repo, ci.name, sfx_, fcn_, frel_, {}, keep=keep_)
                            engine_ok = True
                            for p_ in flow_.run(fi.node, {"self": _Vp("self")}):
                                if p_.done == "raise":
                                    continue
                                have_line = False
                                for e_ in p_.effects:
                                    if e_.kind != "call":
                                        continue
                                    if e_.name in ("push", "push_comment", "push_empty_line", "push_docstring", "push_definition_comments", "push_definition_docstring", "push_location_doc"):
                                        have_line = True
                                    elif e_.name == "push_string" and not have_line:
                                        engine_ok = False
                    except Inconclusive:
                        engine_ok = None
                for n in ps:
                    res.inst(part="push_string", where=fi.qual, call=short(src_of(n), 60))
                    if engine_ok is True and fi.name == "render":
                        continue
                    before = [p for p in pushes if (p.lineno, p.col_offset) < (n.lineno, n.col_offset)]
                    if before:
                        continue
                    if fi.name == "after":
                        # BlockWrapper: before() of the same class must push unconditionally
                        bf = m.lookup(ci, "before")
                        if bf is not None and any(isinstance(s, ast.Expr) and isinstance(s.value, ast.Call) and isinstance(s.value.func, ast.Attribute) and s.value.func.attr in ("push", "push_comment") for s in bf.node.body):
                            continue
                    if fi.name.startswith("render_") or fi.name == "render_alias_typedef":
                        # helper: check its callers push first (one level)
                        ok = True
                        for f2 in ci.methods.values():
                            for c2 in ast.walk(f2.node):
                                if isinstance(c2, ast.Call) and isinstance(c2.func, ast.Attribute) and c2.func.attr == fi.name:
                                    pass
                        if ok and any(isinstance(x, ast.Call) and isinstance(x.func, ast.Attribute) and x.func.attr in ("render_alias_typedef_to_array", "render_alias_typedef_to_common", "render_field_declaration_array", "render_field_declaration_common") for x in ast.walk(fi.node)):
                            continue
                    res.bad(Finding("A13", fi.rel, n.lineno, fi.qual, src_of(n), "push_string() without a preceding push() in this block: `self._strings[-1]` raises IndexError on the empty list", witness="rendering any definition of this kind", tag=f"{fi.qual}:push_string-first"))
    return res


# --------------------------------------------------------------------------
# A4 sorted emission at order-sensitive sites
# --------------------------------------------------------------------------

# an item class is order sensitive when what it renders is consumed
# positionally; recognised by what its render() emits
ORDER_MARKERS = {
    "py-processor-list": ("impls/py/renderer.py", "bp.MessageFieldProcessor("),
    "go-processor-list": ("impls/go/renderer.py", "bp.NewMessageFieldProcessor("),
    "c-descriptor-array": ("impls/c/renderer_c.py", "BpMessageFieldDescriptor("),
    "py-dataclass-fields": ("impls/py/renderer.py", "{self.message_field_name}: {self.message_field_type} ="),
    "go-struct-fields": ("impls/go/renderer.py", "`json:"),
}
# the same markers on emitted text (holes are emit.HOLE)
ORDER_EMITTED = {
    "py-processor-list": r"bp\.MessageFieldProcessor\(",
    "go-processor-list": r"bp\.NewMessageFieldProcessor\(",
    "c-descriptor-array": r"BpMessageFieldDescriptor\(",
    "py-dataclass-fields": r"^\{self\.message_field_name\}: (Union\[int, \{[^}]*\}\]|\{[^}]*\}) = ",
    "go-struct-fields": "`json:",
}


def _fstrings_of(fn: ast.AST) -> str:
    out = []
    for n in ast.walk(fn):
        if isinstance(n, ast.JoinedStr):
            s = ""
            for v in n.values:
                if isinstance(v, ast.Constant):
                    s += str(v.value)
                elif isinstance(v, ast.FormattedValue):
                    s += "{" + src_of(v.value) + "}"
            out.append(s)
        elif isinstance(n, ast.Constant) and isinstance(n.value, str):
            out.append(n.value)
    return "\n".join(out)


def sortedness(e: ast.AST, m: Model) -> Tuple[str, str]:
    """('sorted'|'unsorted'|'unknown', explanation) for an iterable over a
    message's fields."""
    if isinstance(e, ast.Call) and isinstance(e.func, ast.Name) and e.func.id in ("enumerate", "list", "tuple", "iter") and e.args:
        return sortedness(e.args[0], m)
    # for i in range(len(xs)) ... xs[i]: the order of xs
    if isinstance(e, ast.Call) and isinstance(e.func, ast.Name) and e.func.id == "range" and len(e.args) == 1 and isinstance(e.args[0], ast.Call) and isinstance(e.args[0].func, ast.Name) and e.args[0].func.id == "len" and e.args[0].args:
        return sortedness(e.args[0].args[0], m)
    if isinstance(e, ast.Name):
        fn_ = enclosing(e, ast.FunctionDef)
        if fn_ is not None:
            binds = [a_ for a_ in ast.walk(fn_) if isinstance(a_, (ast.Assign, ast.AnnAssign)) and a_.value is not None and any(isinstance(t_, ast.Name) and t_.id == e.id for t_ in (a_.targets if isinstance(a_, ast.Assign) else [a_.target]))]
            muts = [c_ for c_ in ast.walk(fn_) if isinstance(c_, ast.Call) and isinstance(c_.func, ast.Attribute) and isinstance(c_.func.value, ast.Name) and c_.func.value.id == e.id and c_.func.attr in ("sort", "reverse", "append", "insert", "extend", "pop", "remove")]
            if len(binds) == 1 and not muts:
                return sortedness(binds[0].value, m)
    if isinstance(e, ast.Call) and isinstance(e.func, ast.Attribute):
        a = e.func.attr
        if a == "sorted_fields":
            return ("sorted", "sorted_fields()")
        if a in ("values", "items", "keys") and isinstance(e.func.value, ast.Call) and isinstance(e.func.value.func, ast.Attribute):
            inner = e.func.value.func.attr
            if inner == "number_to_field_sorted":
                return ("sorted", "number_to_field_sorted()")
            if inner == "number_to_field":
                return ("unsorted", "number_to_field() is in declaration order")
        if a in ("fields", "message_fields"):
            return ("unsorted", f"{a}() is in declaration order")
    if isinstance(e, ast.Call) and isinstance(e.func, ast.Name) and e.func.id == "sorted" and e.args:
        return _sorted_call_ok(e)
    if isinstance(e, ast.Call) and isinstance(e.func, ast.Name) and e.func.id == "reversed":
        return ("unsorted", "reversed(...)")
    return ("unknown", src_of(e))


def _sorted_call_ok(e: ast.Call) -> Tuple[str, str]:
    key = None
    for kw in e.keywords:
        if kw.arg == "reverse" and not (isinstance(kw.value, ast.Constant) and kw.value.value is False):
            return ("unsorted", "reverse ordering")
        if kw.arg == "key":
            key = kw.value
    if key is None:
        return ("unknown", "sorted() without key on field objects")
    if isinstance(key, ast.Lambda) and len(key.args.args) == 1:
        p = key.args.args[0].arg
        b = key.body
        if isinstance(b, ast.Attribute) and isinstance(b.value, ast.Name) and b.value.id == p and b.attr == "number":
            return ("sorted", "sorted(key=.number)")
        if isinstance(b, ast.Tuple) and b.elts and isinstance(b.elts[0], ast.Attribute) and b.elts[0].attr == "number" and isinstance(b.elts[0].value, ast.Name) and b.elts[0].value.id == p:
            return ("sorted", "sorted(key=(.number, ...))")
        return ("unsorted", f"sort key is `{src_of(b)}`, not the integer field number")
    if isinstance(key, ast.Call) and src_of(key.func).endswith("attrgetter") and key.args and isinstance(key.args[0], ast.Constant):
        return ("sorted", "attrgetter") if key.args[0].value == "number" else ("unsorted", f"attrgetter({key.args[0].value!r})")
    return ("unknown", f"sort key `{src_of(key)}`")


@rule("A4", "order-sensitive emission sites iterate a message's fields in ascending field-number order")
def a4(repo: Repo) -> RuleResult:
    res = RuleResult("A4", floor=7)
    m = get_model(repo)
    # Message.sorted_fields itself
    msg = m.cls("Message", "_ast.py")
    sf = m.lookup(msg, "sorted_fields")
    if sf is None:
        res.unsure("A4: Message.sorted_fields vanished")
    else:
        rets = [n for n in ast.walk(sf.node) if isinstance(n, ast.Return) and n.value is not None]
        res.inst(part="ast", site="Message.sorted_fields", returns=[src_of(r.value) for r in rets])
        for r in rets:
            v = r.value
            st, why = ("unknown", src_of(v))
            if isinstance(v, ast.Call) and isinstance(v.func, ast.Name) and v.func.id == "sorted":
                st, why = _sorted_call_ok(v)
                if st == "sorted" and not (v.args and isinstance(v.args[0], ast.Call) and src_of(v.args[0].func) in ("self.fields", "self.message_fields")):
                    if "fields" not in src_of(v.args[0]) if v.args else True:
                        st, why = "unknown", "sorted() over something else than the message's fields"
            if st == "unsorted":
                f = Finding("A4", sf.rel, r.lineno, "Message.sorted_fields", src_of(v), f"sorted_fields() does not sort ascending by integer field number: {why}", witness="message M { uint8 b = 10; uint8 a = 2 }", tag="sorted_fields")
                f.part = "ast"
                res.bad(f)
            elif st == "unknown":
                res.unsure(f"A4: Message.sorted_fields returns `{why}`: not an enumerated sorting idiom")
    nts = m.lookup(msg, "number_to_field_sorted")
    if nts is not None:
        txt = src_of(nts.node)
        res.inst(part="ast", site="Message.number_to_field_sorted")
        if "self.sorted_fields()" not in txt:
            f = Finding("A4", nts.rel, nts.node.lineno, "Message.number_to_field_sorted", "", "number_to_field_sorted() is not built from sorted_fields()", tag="number_to_field_sorted")
            f.part = "ast"
            res.bad(f)

    # order sensitive item classes per renderer module
    found_sites = 0
    for label, (relsfx, marker) in ORDER_MARKERS.items():
        mod = m.mod(relsfx)
        item_classes = []
        from .emit import class_emissions

        em = class_emissions(repo, relsfx, named=True)
        for ci in mod.classes.values():
            r = ci.methods.get("render")
            if r is None:
                continue
            if marker in _fstrings_of(r.node) or any(re.search(ORDER_EMITTED[label], t) for t in em.get(ci.name, ())):
                item_classes.append(ci.name)
        if not item_classes:
            res.unsure(f"A4: no item class emitting `{marker}` found in {relsfx} (order-sensitive site {label} vanished)")
            continue
        part = _lang_part(mod.rel)
        for ci in mod.classes.values():
            for fi in ci.methods.values():
                for n in ast.walk(fi.node):
                    elt = None
                    gens = []
                    if isinstance(n, (ast.ListComp, ast.GeneratorExp)):
                        elt, gens = n.elt, n.generators
                    elif isinstance(n, ast.For):
                        gens = [n]
                        elt = n
                    if elt is None:
                        continue
                    constructs = [c for c in ast.walk(elt) if isinstance(c, ast.Call) and isinstance(c.func, ast.Name) and c.func.id in item_classes]
                    if not constructs:
                        continue
                    it = gens[0].iter
                    st, why = sortedness(it, m)
                    found_sites += 1
                    res.inst(part=part, site=label, where=fi.qual, iterable=src_of(it), verdict=st)
                    if st == "unsorted":
                        f = Finding(
                            "A4", fi.rel, n.lineno, fi.qual, src_of(it),
                            f"{label}: items that are consumed positionally are emitted in an order that is not ascending field number ({why})",
                            witness="message M { uint8 b = 2; uint8 a = 1 } : fields are laid out / listed in declaration order",
                            tag=f"{label}:{fi.qual}",
                        )
                        f.part = part
                        res.bad(f)
                    elif st == "unknown":
                        res.unsure(f"A4: {fi.qual}: iterable `{why}` is not an enumerated idiom")
    # the planner walk
    try:
        pl = m.func("renderer/formatter.py", "Formatter.format_op_mode_endecode_message")
        # the walk over the message's fields: a for statement or the first generator of a comprehension
        # whose body (element) formats one field
        class _It:
            def __init__(self, it: ast.AST, lineno: int) -> None:
                self.iter, self.lineno = it, lineno

        loops = []
        for n in ast.walk(pl.node):
            if isinstance(n, ast.For) and any(isinstance(c_, ast.Call) and isinstance(c_.func, ast.Attribute) and c_.func.attr == "format_op_mode_endecode_message_field" for b_ in n.body for c_ in ast.walk(b_)):
                loops.append(_It(n.iter, n.lineno))
            elif isinstance(n, (ast.ListComp, ast.GeneratorExp)) and any(isinstance(c_, ast.Call) and isinstance(c_.func, ast.Attribute) and c_.func.attr == "format_op_mode_endecode_message_field" for c_ in ast.walk(n)):
                loops.append(_It(n.generators[0].iter, n.lineno))
        if len(loops) != 1:
            res.unsure("A4: planner message walk is not a single loop")
        else:
            st, why = sortedness(loops[0].iter, m)
            res.inst(part="planner", site="planner-walk", where=pl.qual, iterable=src_of(loops[0].iter), verdict=st)
            if st == "unsorted":
                f = Finding("A4", pl.rel, loops[0].lineno, pl.qual, src_of(loops[0].iter), f"the optimization-mode planner threads the bit cursor through fields in an order that is not ascending field number ({why})", witness="message M { uint8 b = 2; uint3 a = 1 } with -O", tag="planner-walk")
                f.part = "planner"
                res.bad(f)
            elif st == "unknown":
                res.unsure(f"A4: planner iterable `{why}` is not an enumerated idiom")
    except Inconclusive as e:
        res.unsure(f"A4: {e}")
    return res


# --------------------------------------------------------------------------
# A5 must-pass-through / ordering in main
# --------------------------------------------------------------------------


def _cond_set(test: ast.AST) -> Set[str]:
    from .guards import _split

    return {("" if truth else "not ") + src_of(t) for t, truth in _split(test, True)}


def main_table(repo: Repo) -> Dict[str, Any]:
    """Decision table of _main.main from the path engine: parse-error paths,
    and for every assignment of the flags the single normal path."""
    from .fold import by_name, lit_value
    from .normal import V, show
    from .pyflow import PyFlow

    def build() -> Dict[str, Any]:
        m = get_model(repo)
        fi = m.func("bitproto/_main.py", "main")
        mod_ = m.mods[fi.rel]
        helpers = {k: v.node for k, v in mod_.funcs.items() if k not in ("main", "run_bitproto", "build_arg_parser", "fatal", "parse", "lint", "render")}
        flow = PyFlow(funcs=helpers, noreturn=("fatal", "os._exit", "sys.exit"), follow_handlers=True, havoc_on=(), pure=("str",), max_depth=6)
        paths = flow.run(fi.node)
        parse_err, normal, render_err = [], [], []
        for p in paths:
            names = [(e.kind, e.name) for e in p.effects]
            if ("call", "parse") not in names:
                if any(k == "except" for k, _ in names):
                    parse_err.append(p)
                else:
                    normal.append(p)
                continue
            ip = names.index(("call", "parse"))
            if any(k == "except" for k, _ in names[ip + 1:]):
                render_err.append(p)
            else:
                normal.append(p)
        return {"fn": fi, "paths": paths, "parse_err": parse_err, "normal": normal, "render_err": render_err}

    return repo.memo("main_table", build)


FLAGS = ("enable_optimize", "disable_linter", "check", "lang", "filter_messages")


@rule("A5", "main: render only after a successful parse; -F needs -O; check-only exit status; fatal exits non-zero")
def a5(repo: Repo) -> RuleResult:
    from itertools import product

    from .fold import by_name, lit_value
    from .normal import V, show
    from .pyflow import PyFlow

    res = RuleResult("A5", floor=5)
    m = get_model(repo)
    rel = "compiler/bitproto/_main.py"
    try:
        T = main_table(repo)
    except Inconclusive as e:
        res.unsure(f"A5: {e}")
        return res
    line = T["fn"].node.lineno

    def bad(tag: str, msg: str, construct: str = "", witness: str = "") -> None:
        if not any(f.tag == tag for f in res.findings):
            res.bad(Finding("A5", rel, line, "main", construct, msg, witness=witness, tag=tag))

    # (4b) whatever main itself asks about the messages of the file, it asks about all of them: the generators
    # match -F names against every message bound to the file, nested ones included
    mainfn = T["fn"].node
    mod_main = m.mods[T["fn"].rel]
    scan = [mainfn] + [f_.node for n_, f_ in mod_main.funcs.items() if n_ not in ("main", "run_bitproto", "build_arg_parser") and any(isinstance(c_, ast.Call) and isinstance(c_.func, ast.Name) and c_.func.id == n_ for c_ in ast.walk(mainfn))]
    for fn_ in scan:
        uses_filter = any(isinstance(x, ast.Name) and x.id == "filter_messages" for x in ast.walk(fn_))
        for c_ in ast.walk(fn_):
            if isinstance(c_, ast.Call) and isinstance(c_.func, ast.Attribute) and c_.func.attr in ("messages", "filter") and uses_filter:
                rec = next((k_.value for k_ in c_.keywords if k_.arg == "recursive"), None)
                if rec is None and c_.func.attr == "messages" and c_.args:
                    rec = c_.args[0]
                res.inst(part="filter-needs-O", where=fn_.name, call=src_of(c_), recursive=src_of(rec) if rec is not None else None)
                if not (isinstance(rec, ast.Constant) and rec.value is True):
                    f_ = Finding("A5", rel, c_.lineno, fn_.name, src_of(c_), f"`{src_of(c_)}` lists the top-level messages only (recursive is not True) where the -F names are looked at: a message nested in another message is a valid -F name for the generators (they walk every message bound to the file) but is not found here", witness="bitproto c x.bitproto -O -F Inner  (Inner declared inside Outer) is refused / treated as unknown", tag=f"{fn_.name}:messages-not-recursive")
                    f_.part = "filter-needs-O"
                    res.bad(f_)

    # (1) a parser error ends the program with a non-zero status, before lint / render
    pe = T["parse_err"]
    caught = sorted({t for p in pe for e in p.effects if e.kind == "except" for t in e.name.split(",")})
    res.inst(part="parse-guard", handlers=caught, paths=len(pe))
    if not any(e.kind == "call" and e.name == "parse" for p in T["paths"] for e in p.effects):
        res.unsure("A5: main does not call parse()")
        return res
    if "ParserError" not in caught and "Exception" not in caught and "BaseException" not in caught:
        if not pe:
            bad("parse-no-try", "parse() is not inside a try: a parser error becomes a traceback instead of a diagnostic")
        else:
            bad("parse-ParserError", "ParserError from parse() is not caught")
    for p in pe:
        calls = [e for e in p.effects if e.kind == "call"]
        if p.done != "exit":
            bad("parse-ParserError-continues", "the handler of a parse error does not end the program: rendering continues after a rejected schema", construct=str([repr(e) for e in p.effects]), witness="any invalid schema")
        if any(e.name in ("lint", "render") for e in calls):
            bad("parse-ParserError-continues", "lint / render run on the path of a parse error", witness="any invalid schema")
        for e in calls:
            if e.name == "fatal":
                code = e.kw.get("code", e.args[1] if len(e.args) > 1 else None)
                if code is not None and code.const_value() == 0:
                    bad("parse-exit-0", "a rejected schema exits with status 0", construct=repr(e))

    # (2)-(4) decision table over the flags
    normal = T["normal"]
    nrows = 0
    from .pyflow import S as _Sstr

    for vals, endian_v in product(product((0, 1), repeat=len(FLAGS)), ("both", "little", "big")):
        A = dict(zip(FLAGS, vals))
        for lintres in (0, 1):
            repl0 = by_name(A, {"lint": lintres})

            def repl(a_: Any, _r0: Any = repl0, _ev: str = endian_v) -> Any:
                # the value of --endian is one of its three choices
                if a_[0] == "var" and a_[1] == "endian":
                    return _Sstr(_ev)
                return _r0(a_)

            feas = []
            undecided = None
            for p in normal:
                ok = True
                for k, t in p.guards:
                    v = lit_value(k, t, repl)
                    if v is None:
                        undecided = (k, t)
                    elif not v:
                        ok = False
                        break
                if ok:
                    feas.append(p)
            if undecided is not None and len(feas) != 1:
                from .pyflow import show_lit

                res.unsure(f"A5: main: condition `{show_lit(*undecided)}` is not decided by the command-line flags and the lint result")
                return res
            nrows += 1
            if len(feas) != 1:
                res.unsure(f"A5: main: {len(feas)} paths for flags {A}, lint result {lintres}")
                return res
            p = feas[0]
            calls = [e for e in p.effects if e.kind == "call"]
            names = [e.name for e in calls]
            n_lint, n_render = names.count("lint"), names.count("render")
            want_lint = 0 if A["disable_linter"] else 1
            if names.count("parse") != 1 or (n_render and names.index("render") < names.index("parse")):
                bad("render-before-parse", "render() does not follow exactly one parse()", construct=str(names))
            if n_lint != want_lint:
                bad("lint-call", f"lint() is called {n_lint} times with disable_linter={bool(A['disable_linter'])}", construct=str(names))
            if A["check"]:
                if n_render:
                    bad("check-no-return", "check-only mode does not return before rendering", construct=str(names), witness="bitproto -c x.bitproto writes files")
                want_exit = bool(want_lint and lintres > 0)
                if (p.done == "exit") != want_exit:
                    bad("check-exit", "check-only mode does not exit non-zero exactly when there is at least one lint warning", construct=f"flags {A}, lint result {lintres}: ends with {p.done}", witness="bitproto -c on a schema with one warning / with none")
                continue
            if not A["lang"]:
                if p.done != "exit" or n_render:
                    res.unsure("A5: guard `if not lang: fatal` not recognised")
                continue
            if (not A["enable_optimize"]) and A["filter_messages"]:
                if p.done != "exit" or n_render:
                    bad("filter-needs-O", "no `fatal` guard for (-F given and -O absent) dominates render(): -F without -O is silently accepted" + (f" (with --endian {endian_v})" if endian_v != "both" else ""), construct=f"flags {A}, --endian {endian_v}: {names}", witness="bitproto c x.bitproto -F Foo" + (f" --endian {endian_v}" if endian_v != "both" else ""))
                continue
            if n_render != 1 or p.done != "return":
                bad("render-missing", f"with flags {A} the schema is not rendered exactly once ({names}, ends with {p.done})", construct=str(names))
    res.inst(part="decision-table", flags=list(FLAGS), rows=nrows, normal_paths=len(normal))
    res.inst(part="filter-needs-O", rows=nrows)
    res.inst(part="lang-required", rows=nrows)
    res.inst(part="check-only", rows=nrows)
    for p in T["render_err"]:
        if p.done != "exit":
            bad("render-error-continues", "a renderer error does not end the program with a diagnostic", construct=str([repr(e) for e in p.effects][-3:]))

    # (5) fatal ends in os._exit with non-zero default
    fat = m.func("bitproto/utils.py", "fatal").node
    fl = PyFlow(funcs={}, noreturn=("os._exit", "sys.exit", "_exit", "exit"), havoc_on=())
    params = [a.arg for a in fat.args.args]
    ok = True
    why = ""
    for p in fl.run(fat):
        ex = [e for e in p.effects if e.kind == "call" and e.name in ("_exit", "exit")]
        if p.done != "exit" or not ex or not ex[-1].args or show(ex[-1].args[0]) != "code":
            ok, why = False, f"path under {p.guard_text()} ends with {p.done} / {[repr(e) for e in p.effects][-1:]}"
    dflt = None
    for a_, d_ in zip(reversed(fat.args.args), reversed(fat.args.defaults)):
        if a_.arg == "code" and isinstance(d_, ast.Constant):
            dflt = d_.value
    # every caller ends with a status in 1..255: the operating system keeps 8 bits, a multiple of 256 reads as success
    n_codes = 0
    for mod_ in m.mods.values():
        if not mod_.rel.startswith("compiler/bitproto/"):
            continue
        for c_ in ast.walk(mod_.tree):
            if not (isinstance(c_, ast.Call) and ((isinstance(c_.func, ast.Name) and c_.func.id in ("fatal", "exit")) or (isinstance(c_.func, ast.Attribute) and c_.func.attr in ("_exit", "exit") and src_of(c_.func.value) in ("os", "sys")))):
                continue
            is_fatal = isinstance(c_.func, ast.Name) and c_.func.id == "fatal"
            code = next((k_.value for k_ in c_.keywords if k_.arg == "code"), None)
            if code is None:
                pos_ = c_.args[1:] if is_fatal else c_.args[:1]
                code = pos_[0] if pos_ else None
            if code is None:
                continue  # the default
            if enclosing(c_, ast.FunctionDef) is fat:
                continue  # fatal's own os._exit(code)
            n_codes += 1
            cv = code.value if isinstance(code, ast.Constant) and isinstance(code.value, int) and not isinstance(code.value, bool) else None
            if cv is None or not (1 <= cv <= 255):
                f_ = Finding("A5", mod_.rel, c_.lineno, qualname(c_), src_of(c_), f"the process status is `{src_of(code)}`, not a constant in 1..255: the operating system keeps only the low 8 bits, so a value that is a multiple of 256 (or 0) reads as success", witness="bitproto -c on a schema with exactly 256 lint warnings exits 0", tag=f"{qualname(c_)}:status")
                f_.part = "fatal"
                res.bad(f_)
    res.inst(part="fatal", explicit_status_calls=n_codes)
    res.inst(part="fatal", ok=ok, default_code=dflt)
    if not ok or not dflt:
        res.bad(Finding("A5", "compiler/bitproto/utils.py", fat.lineno, "fatal", why, f"fatal() must end the process with its non-zero `code` (default {dflt})", tag="fatal"))
    return res


def _calls_fatal(body: List[ast.stmt]) -> bool:
    return any(isinstance(n, ast.Call) and isinstance(n.func, ast.Name) and n.func.id == "fatal" for st in body for n in ast.walk(st))


# --------------------------------------------------------------------------
# A8 validator wiring
# --------------------------------------------------------------------------


@rule("A8", "scopes are pushed/popped/frozen in pairs; freeze runs the validators; no orphan validator; constructed definitions are pushed")
def a8(repo: Repo) -> RuleResult:
    res = RuleResult("A8", floor=20)
    G = graphs(repo)
    m = G.model
    g = get_grammar(repo)
    assert g.parser_cls is not None

    # (a) open/close pairing per production
    for lhs, prod in g.prods.items():
        for alt in prod.alts:
            opens = [s for s in alt if s.startswith("open_")]
            closes = [s for s in alt if s.startswith("close_")]
            if not opens and not closes:
                continue
            res.inst(part="pairing", production=f"{lhs} : {' '.join(alt)}")
            if len(opens) != 1 or len(closes) != 1 or alt.index(opens[0]) > alt.index(closes[0]):
                res.bad(Finding("A8", "compiler/bitproto/grammars.py", 0, lhs, " ".join(alt), "a scope-opening symbol is not matched by exactly one later scope-closing symbol", tag=f"{lhs}:pairing"))
                continue
            oa, ca = g.action_of(opens[0]), g.action_of(closes[0])
            if oa is None or ca is None:
                res.unsure(f"A8: actions of {opens[0]}/{closes[0]} missing")
                continue
            # on every path that returns normally: the opening action pushes exactly one scope, the
            # closing action pops exactly one and freezes what it popped
            try:
                from .flows import compiler_flow
                from .normal import V as _V
                from .normal import show as _show

                fl8 = compiler_flow(repo, "Parser", "parser.py", inline=lambda n_, f_: n_.startswith("_") and n_ not in ("_get_col",), primitives=("push_scope", "pop_scope", "freeze"))

                def run8(act: Any) -> List[Any]:
                    prm = [a_.arg for a_ in act.node.args.args]
                    return [p_ for p_ in fl8.run(act.node, {prm[0]: _V("self"), prm[1]: _V("p")}) if p_.done == "return"]

                for p_ in run8(oa):
                    n_push = sum(1 for e in p_.effects if e.kind == "call" and e.name == "push_scope")
                    if n_push != 1:
                        res.bad(Finding("A8", PARSER, oa.node.lineno, f"Parser.{oa.name}", "", f"the opening action pushes {n_push} scopes (exactly one expected)", tag=f"{oa.name}:push"))
                        break
                for p_ in run8(ca):
                    pops = [e for e in p_.effects if e.kind == "call" and e.name == "pop_scope"]
                    if len(pops) != 1:
                        res.bad(Finding("A8", PARSER, ca.node.lineno, f"Parser.{ca.name}", "", f"the closing action pops {len(pops)} scopes (exactly one expected): the scope stack goes out of step", witness="any schema with this construct followed by another definition", tag=f"{ca.name}:pop"))
                        break
                    froz = [e for e in p_.effects if e.kind == "call" and e.name == "freeze" and e.recv is not None and _show(e.recv) == "self.pop_scope()"]
                    if not froz:
                        res.bad(Finding("A8", PARSER, ca.node.lineno, f"Parser.{ca.name}", "", "the popped scope is not frozen unconditionally: its post-freeze validators (size limits) never run", witness="a message of more than 65535 bits is accepted", tag=f"{ca.name}:freeze"))
                        break
            except Inconclusive as e:
                res.unsure(f"A8: {lhs}: {e}")

    # (b) freeze chain in utils.frozen and Node
    frz = m.func("bitproto/utils.py", "frozen").node
    txt = src_of(frz)
    res.inst(part="freeze-chain", where="utils.frozen")
    if "__post_freeze__" not in txt or "post_freeze()" not in txt:
        res.bad(Finding("A8", "compiler/bitproto/utils.py", frz.lineno, "frozen", "", "freeze() no longer invokes __post_freeze__: no post-freeze validator runs", witness="uint65 / field number 300 accepted", tag="frozen:post_freeze"))
    if "class_self.freeze()" not in txt:
        res.bad(Finding("A8", "compiler/bitproto/utils.py", frz.lineno, "frozen", "", "instances are no longer frozen at the end of __init__ (post_init=True)", tag="frozen:post_init"))
    node = G.node_cls
    pf = node.methods.get("__post_freeze__")
    res.inst(part="freeze-chain", where="Node.__post_freeze__")
    if pf is None or "self.validate_post_freeze()" not in src_of(pf.node):
        res.bad(Finding("A8", AST, pf.node.lineno if pf else 0, "Node.__post_freeze__", "", "__post_freeze__ does not call validate_post_freeze()", witness="uint65 accepted", tag="node:post_freeze"))
    # classes that define validate_post_freeze must be @frozen (else it never runs)
    for c in m.all_classes():
        if c.rel != AST or "validate_post_freeze" not in c.methods or c is node:
            continue
        res.inst(part="freeze-chain", where=f"{c.name}.validate_post_freeze")
        if c.frozen_mode() is None:
            res.bad(Finding("A8", AST, c.node.lineno, c.name, "", "defines validate_post_freeze but is not decorated @frozen, so the validator never runs", tag=f"{c.name}:not-frozen"))

    # (c) overrides of validate_member_on_push call super
    for c in m.all_classes():
        if c.rel != AST:
            continue
        f = c.methods.get("validate_member_on_push")
        if f is None or c.name == "Scope":
            continue
        res.inst(part="super", where=f"{c.name}.validate_member_on_push")
        sup = [n for n in ast.walk(f.node) if isinstance(n, ast.Call) and isinstance(n.func, ast.Attribute) and n.func.attr == "validate_member_on_push" and isinstance(n.func.value, ast.Call) and src_of(n.func.value.func) == "super"]
        ok = any(st.value in sup for st in f.node.body if isinstance(st, ast.Expr))
        if not ok:
            res.bad(Finding("A8", AST, f.node.lineno, f"{c.name}.validate_member_on_push", "", "the override does not unconditionally call super(): validators of the base scopes (option checks) are skipped", witness="option bogus = 1 inside a message", tag=f"{c.name}:super"))

    # (d) no orphan validator
    for c in m.all_classes():
        if c.rel != AST:
            continue
        for name, f in c.methods.items():
            if not name.startswith("validate_") or name in ("validate_post_freeze", "validate_member_on_push"):
                continue
            res.inst(part="orphan", where=f"{c.name}.{name}")
            called = False
            for c2 in m.all_classes():
                if c2.rel != AST:
                    continue
                for n2, f2 in c2.methods.items():
                    if f2 is f:
                        continue
                    for n in ast.walk(f2.node):
                        if isinstance(n, ast.Call) and isinstance(n.func, ast.Attribute) and n.func.attr == name and src_of(n.func.value) == "self":
                            # unconditional or conditional is the validator's business; must be on a hook path
                            if n2.startswith("validate_"):
                                called = True
            if not called:
                res.bad(Finding("A8", AST, f.node.lineno, f"{c.name}.{name}", "", "this validator is not called from any validation hook: the constraint it enforces is never checked", tag=f"{c.name}.{name}:orphan"))

    # (e) push_member: duplicate check, validator before insertion
    pm = m.func("_ast.py", "Scope.push_member").node
    res.inst(part="push_member")
    try:
        from .normal import V, show
        from .pyflow import PyFlow

        ps = [a.arg for a in pm.args.args]
        pmem, pname = (ps[1], ps[2]) if len(ps) >= 3 else ("member", "name")
        paths = PyFlow(funcs={}, havoc_on=(), primitives=("validate_member_on_push",)).run(pm, {ps[0]: V("self"), pmem: V("member"), pname: V("name")})
        stored = dup_raise = False
        for p_ in paths:
            none_name = None
            for k_, t_ in p_.guards:
                if k_[0] == "isnone" and show(k_[1]) == "name":
                    none_name = t_
                if k_[0] == "truthy" and show(k_[1]) == "name":
                    none_name = (not t_) if none_name is None else none_name
            want_key = "member.name" if none_name else "name"
            dup = [(k_, t_) for k_, t_ in p_.guards if k_[0] == "contains" and show(k_[1]) == "self.members"]
            sts = [e for e in p_.effects if e.kind == "store" and e.name == "self.members"]
            vals = [i for i, e in enumerate(p_.effects) if e.kind == "call" and e.name == "validate_member_on_push"]
            raises = [e for e in p_.effects if e.kind == "raise"]
            if raises and dup and dup[-1][1] and "DuplicatedDefinition" in raises[-1].name:
                dup_raise = True
                if show(dup[-1][0][2]) != want_key and none_name is not None:
                    res.bad(Finding("A8", AST, pm.lineno, "Scope.push_member", show(dup[-1][0][2]), f"the duplicate test looks up `{show(dup[-1][0][2])}`, the member is stored under `{want_key}`", witness="message A {} message A {}", tag="push_member:dup-form"))
            for st_ in sts:
                stored = True
                key = show(st_.args[0])
                si = p_.effects.index(st_)
                if none_name is not None and key != want_key:
                    res.bad(Finding("A8", AST, pm.lineno, "Scope.push_member", key, f"the member is stored under `{key}`, expected `{want_key}` (the explicit name, else the member's own name)", tag="push_member:key"))
                if not dup or dup[-1][1] is not False or show(dup[-1][0][2]) != key:
                    res.bad(Finding("A8", AST, pm.lineno, "Scope.push_member", str(p_.guard_text()), "no duplicate-name check (same key, raising DuplicatedDefinition) before insertion", witness="message A {} message A {}", tag="push_member:dup"))
                if not vals or vals[0] > si or [show(a) for a in p_.effects[vals[0]].args] != ["member", key]:
                    res.bad(Finding("A8", AST, pm.lineno, "Scope.push_member", "", "validate_member_on_push must run (unconditionally, with the member and its name) before the member is inserted", witness="duplicate field number accepted / compared with itself", tag="push_member:order"))
        if not stored:
            res.unsure("A8: Scope.push_member: no store into self.members found")
        elif not dup_raise:
            res.bad(Finding("A8", AST, pm.lineno, "Scope.push_member", "", "no duplicate-name check before insertion", witness="message A {} message A {}", tag="push_member:dup"))
    except Inconclusive as e:
        res.unsure(f"A8: Scope.push_member: {e}")

    # (f) definitions constructed in actions are pushed; bound definitions get scope_stack and _bound
    defn = m.cls("Definition", "_ast.py")
    bound = m.cls("BoundDefinition", "_ast.py")
    for name, act in g.actions.items():
        for n in ast.walk(act.node):
            if isinstance(n, ast.Call):
                cname = None
                if isinstance(n.func, ast.Name):
                    cname = n.func.id
                elif isinstance(n.func, ast.Attribute) and n.func.attr == "from_value" and isinstance(n.func.value, ast.Name):
                    cname = n.func.value.id
                cands = [c for c in m.all_classes() if c.name == cname and c.rel == AST]
                if not cands or not m.is_subclass(cands[0], defn):
                    continue
                c = cands[0]
                res.inst(part="construct", action=name, cls=c.name)
                kws = {k.arg: k.value for k in n.keywords}
                if m.is_subclass(c, bound):
                    if "_bound" not in kws or src_of(kws["_bound"]) != "self.current_proto()":
                        res.bad(Finding("A8", PARSER, n.lineno, f"Parser.{name}", f"{cname}(...)", "a bound definition is constructed without _bound=self.current_proto()", tag=f"{name}:{cname}:bound"))
                if "scope_stack" not in kws or src_of(kws["scope_stack"]) != "self.current_scope_stack()":
                    res.bad(Finding("A8", PARSER, n.lineno, f"Parser.{name}", f"{cname}(...)", "a definition is constructed without scope_stack=self.current_scope_stack()", tag=f"{name}:{cname}:scope_stack"))
                pushed = any(isinstance(x, ast.Call) and isinstance(x.func, ast.Attribute) and x.func.attr in ("push_member", "push_scope") for x in ast.walk(act.node))
                if not pushed:
                    res.bad(Finding("A8", PARSER, n.lineno, f"Parser.{name}", f"{cname}(...)", "the constructed definition is never pushed into a scope (its on-push validators do not run and it cannot be referenced)", tag=f"{name}:{cname}:not-pushed"))

    # (g) the ply parser runs with the file pushed on both stacks (lexer's and parser's), and both are
    # popped again on every exit: either `with X.maintain_filepath(f)` around the call, X.maintain_filepath
    # being push / yield / finally pop, or an explicit try ... finally X.pop_filepath() with the push before the call
    ps = m.func("bitproto/parser.py", "Parser.parse_string").node
    res.inst(part="filepath", where="Parser.parse_string")
    pc = [n for n in ast.walk(ps) if isinstance(n, ast.Call) and src_of(n.func) == "self.parser.parse"]
    alias: Dict[str, str] = {}
    for n in ast.walk(ps):
        if isinstance(n, ast.Assign) and len(n.targets) == 1 and isinstance(n.targets[0], ast.Name) and isinstance(n.value, (ast.Attribute, ast.Name)):
            alias[n.targets[0].id] = src_of(n.value)

    def recv_of(e: ast.AST) -> str:
        t = src_of(e)
        return alias.get(t, t)

    def cm_ok(owner: str) -> Optional[bool]:
        cn, rel_sfx = ("Lexer", "bitproto/lexer.py") if owner == "self.lexer" else ("Parser", "bitproto/parser.py")
        try:
            mf = m.func(rel_sfx, f"{cn}.maintain_filepath").node
        except Inconclusive:
            return None
        trs = [n for n in ast.walk(mf) if isinstance(n, ast.Try)]
        # acquire inside the try or as the statement right in front of it
        pre: List[ast.stmt] = []
        if len(trs) == 1:
            par_t = parent(trs[0])
            sib_ = getattr(par_t, "body", []) if par_t is not None else []
            if trs[0] in sib_ and sib_.index(trs[0]) > 0:
                pre = [sib_[sib_.index(trs[0]) - 1]]
        good = len(trs) == 1 and any(isinstance(x, ast.Call) and src_of(x.func) == "self.push_filepath" for st_ in list(trs[0].body) + pre for x in ast.walk(st_)) and any(isinstance(x, (ast.Yield, ast.YieldFrom)) for st_ in trs[0].body for x in ast.walk(st_)) and any(isinstance(x, ast.Call) and src_of(x.func) == "self.pop_filepath" for st_ in trs[0].finalbody for x in ast.walk(st_))
        if not good:
            res.bad(Finding("A8", f"compiler/{rel_sfx}", mf.lineno, f"{cn}.maintain_filepath", "", "the file path is not pushed in try and popped in finally: after an error in an imported file the stack of the importer is left wrong", tag=f"{cn}:maintain_filepath"))
        return good

    covered: Set[str] = set()
    if len(pc) == 1:
        call = pc[0]
        for w in _enclosing_all(call, ast.With):
            for it_ in w.items:
                ce = it_.context_expr
                if isinstance(ce, ast.Call) and isinstance(ce.func, ast.Attribute) and ce.func.attr == "maintain_filepath":
                    owner = recv_of(ce.func.value)
                    if cm_ok(owner):
                        covered.add(owner)
        for t in _enclosing_all(call, ast.Try):
            if not any(call is x for st_ in t.body for x in ast.walk(st_)):
                continue
            pops = [recv_of(x.func.value) for st_ in t.finalbody for x in ast.walk(st_) if isinstance(x, ast.Call) and isinstance(x.func, ast.Attribute) and x.func.attr == "pop_filepath"]
            idx = next(i for i, st_ in enumerate(t.body) if any(call is x for x in ast.walk(st_)))
            before = list(t.body[:idx])
            # a push immediately in front of the try statement counts as well
            par_ = parent(t)
            for fld in ("body", "orelse", "finalbody"):
                sib = getattr(par_, fld, None)
                if isinstance(sib, list) and t in sib and sib.index(t) > 0:
                    before.append(sib[sib.index(t) - 1])
            pushes = [recv_of(x.func.value) for st_ in before for x in ast.walk(st_) if isinstance(x, ast.Call) and isinstance(x.func, ast.Attribute) and x.func.attr == "push_filepath"]
            for r_ in pops:
                if r_ in pushes:
                    covered.add(r_)
    res.inst(part="filepath", where="Parser.parse_string", bracketed_by=sorted(covered))
    if len(pc) != 1 or not {"self", "self.lexer"} <= covered:
        res.bad(Finding("A8", PARSER, ps.lineno, "Parser.parse_string", str(sorted(covered)), "the ply parser is not run with the file pushed on (and, on every exit, popped from) both the lexer's and the parser's file stack", tag="parse_string:with"))
    return res


def _enclosing_all(n: ast.AST, kinds) -> List[Any]:
    out = []
    p = parent(n)
    while p is not None:
        if isinstance(p, kinds):
            out.append(p)
        p = parent(p)
    return out


# --------------------------------------------------------------------------
# A9 flag plumbing
# --------------------------------------------------------------------------


@rule("A9", "traditional mode reaches every parser incl. import children; optimization-mode capability is checked at renderer construction")
def a9(repo: Repo) -> RuleResult:
    res = RuleResult("A9", floor=6)
    m = get_model(repo)
    # Parser( constructions
    pmod = m.mod("bitproto/parser.py")
    n_ctor = 0
    for fi in list(pmod.funcs.values()) + [f for c in pmod.classes.values() for f in c.methods.values()]:
        for n in ast.walk(fi.node):
            if isinstance(n, ast.Call) and isinstance(n.func, ast.Name) and n.func.id == "Parser":
                n_ctor += 1
                kws = {k.arg: k.value for k in n.keywords}
                init_params = [a.arg for a in m.func("bitproto/parser.py", "Parser.__init__").node.args.args][1:]
                for pn_, av_ in zip(init_params, n.args):
                    kws.setdefault(pn_, av_)
                v = src_of(kws["traditional_mode"]) if "traditional_mode" in kws else None
                res.inst(part="parser-ctor", where=fi.qual, traditional_mode=v)
                want = "self.traditional_mode" if fi.cls is not None else "traditional_mode"
                if v != want:
                    res.bad(Finding("A9", pmod.rel, n.lineno, fi.qual, short(src_of(n), 120), f"a Parser is constructed with traditional_mode={v} instead of {want}: " + ("imported files are parsed without the -O restriction" if fi.cls is not None else "the flag does not reach the parser"), witness="bitproto c main.bitproto -O where an imported file uses the ' marker", tag=f"{fi.qual}:traditional_mode"))
    if n_ctor < 3:
        res.unsure(f"A9: only {n_ctor} Parser( constructions found (3 confirmed by hand)")
    init = m.func("bitproto/parser.py", "Parser.__init__").node
    res.inst(part="parser-ctor", where="Parser.__init__")
    if not any(isinstance(n, ast.Assign) and src_of(n.targets[0]) == "self.traditional_mode" and src_of(n.value) == "traditional_mode" for n in ast.walk(init)):
        res.bad(Finding("A9", pmod.rel, init.lineno, "Parser.__init__", "", "self.traditional_mode is not set from the constructor argument", tag="Parser.__init__:traditional_mode"))
    # main: what parse() and render() receive on every normal path
    from .fold import by_name, replace_atoms
    from .normal import V, show
    from .pyflow import PyFlow

    try:
        T = main_table(repo)
        seen_parse = seen_render = 0
        for p in T["normal"]:
            flags: Dict[str, Optional[bool]] = {}
            for k, t in p.guards:
                if k[0] == "truthy" and show(k[1]) in FLAGS:
                    flags[show(k[1])] = t
            for e in p.effects:
                if e.kind != "call":
                    continue
                if e.name == "parse":
                    seen_parse += 1
                    v = e.kw.get("traditional_mode", e.args[1] if len(e.args) > 1 else None)
                    opt, chk = flags.get("enable_optimize"), flags.get("check")
                    okv = False
                    if v is not None:
                        cv = v.const_value()
                        if cv is not None and opt is not None:
                            okv = bool(cv) == opt or (chk is not None and bool(cv) == (opt and not chk))
                        elif show(v) == "enable_optimize":
                            okv = True
                    if not okv:
                        res.bad(Finding("A9", "compiler/bitproto/_main.py", T["fn"].node.lineno, "main", repr(e), f"parse() does not receive traditional_mode = (-O given [and not check-only]) on the path under {p.guard_text()}", witness="bitproto c x.bitproto -O on an extensible schema generates code", tag="main:traditional_mode"))
                if e.name == "render":
                    seen_render += 1
                    # positional arguments by the signature of renderer.render
                    try:
                        rsig = [a_.arg for a_ in get_model(repo).func("renderer/__init__.py", "render").node.args.args]
                    except Inconclusive:
                        rsig = []
                    for k_, want in (("optimization_mode", "enable_optimize"), ("optimization_mode_filter_messages", "filter_messages"), ("optimization_mode_endian", "endian")):
                        v = e.kw.get(k_)
                        if v is None and k_ in rsig and rsig.index(k_) < len(e.args or []):
                            v = e.args[rsig.index(k_)]
                        okv = v is not None and (show(v) == want or (v.const_value() is not None and flags.get(want) is not None and bool(v.const_value()) == flags.get(want)))
                        if not okv:
                            res.bad(Finding("A9", "compiler/bitproto/_main.py", T["fn"].node.lineno, "main", repr(e)[:160], f"render() receives {k_}={show(v) if v is not None else None} instead of {want}", tag=f"main:render:{k_}"))
        res.inst(part="main", parse_calls=seen_parse, render_calls=seen_render)
        if not seen_parse or not seen_render:
            res.unsure("A9: main: parse / render calls not found on the normal paths")
    except Inconclusive as e:
        res.unsure(f"A9: main: {e}")
    # the command line layer: what main() receives for each flag
    try:
        rb = m.func("bitproto/_main.py", "run_bitproto")
        cl = PyFlow(funcs={}, havoc_on=(), primitives=("main",))
        WANT = {"lang": "language", "outdir": "outdir", "disable_linter": "disable_linter", "check": "check", "enable_optimize": "enable_optimize", "endian": "endian"}
        mparams = [a.arg for a in T["fn"].node.args.args]
        n_main = 0
        for p_ in cl.run(rb.node):
            for e in p_.effects:
                if e.kind != "call" or e.name != "main":
                    continue
                n_main += 1
                got = dict(zip(mparams, e.args))
                got.update(e.kw)
                for k_, attr in WANT.items():
                    v = got.get(k_)
                    res.inst(part="cli", flag=k_, value=show(v) if v is not None else None)
                    if v is None or not show(v).endswith(f".{attr}"):
                        f = Finding("A9", rb.rel, rb.node.lineno, "run_bitproto", show(v) if v is not None else "", f"main() receives {k_}={show(v) if v is not None else None}, not the command line's `{attr}`", tag=f"cli:{k_}")
                        res.bad(f)
        if n_main == 0:
            res.unsure("A9: run_bitproto does not call main()")
        # -F: the list of names is the comma separated parts, each stripped of blanks
        fm_vals: List[ast.AST] = []
        for n in ast.walk(rb.node):
            if isinstance(n, (ast.Assign, ast.AnnAssign)) and n.value is not None:
                tgs = n.targets if isinstance(n, ast.Assign) else [n.target]
                if any(isinstance(t_, ast.Name) and t_.id == "filter_messages" for t_ in tgs) and not (isinstance(n.value, ast.Constant) and n.value.value is None):
                    fm_vals.append(n.value)
            if isinstance(n, ast.Call) and isinstance(n.func, ast.Name) and n.func.id == "main":
                for kw_ in n.keywords:
                    if kw_.arg == "filter_messages" and not isinstance(kw_.value, ast.Name):
                        fm_vals.append(kw_.value)
        if not fm_vals:
            res.unsure("A9: run_bitproto: the value of filter_messages was not found")

        def _strips(e_: ast.AST, var: str) -> Optional[bool]:
            if isinstance(e_, ast.Call) and isinstance(e_.func, ast.Attribute) and e_.func.attr == "strip" and isinstance(e_.func.value, ast.Name) and e_.func.value.id == var and not e_.args:
                return True
            if isinstance(e_, ast.Name) and e_.id == var:
                return False
            return None

        # a helper that builds the list: its non-None returns are what is judged
        mod_rb = m.mods[rb.rel]
        expanded: List[ast.AST] = []
        for v_ in fm_vals:
            if isinstance(v_, ast.Call) and isinstance(v_.func, ast.Name) and v_.func.id in mod_rb.funcs and len(v_.args) == 1 and src_of(v_.args[0]).endswith(".filter_messages"):
                hf = mod_rb.funcs[v_.func.id].node
                hp = hf.args.args[0].arg
                import copy as _copy

                class _R(ast.NodeTransformer):
                    def visit_Name(self, n_: ast.Name) -> Any:
                        return _copy.deepcopy(v_.args[0]) if n_.id == hp and isinstance(n_.ctx, ast.Load) else n_

                for r_ in ast.walk(hf):
                    if isinstance(r_, ast.Return) and r_.value is not None and not (isinstance(r_.value, ast.Constant) and r_.value.value is None):
                        nv = _R().visit(_copy.deepcopy(r_.value))
                        ast.copy_location(nv, v_)
                        ast.fix_missing_locations(nv)
                        expanded.append(nv)
            else:
                expanded.append(v_)
        fm_vals = expanded
        for v_ in fm_vals:
            e_ = v_
            while isinstance(e_, ast.Call) and isinstance(e_.func, ast.Name) and e_.func.id in ("list", "tuple", "sorted") and len(e_.args) == 1:
                e_ = e_.args[0]
            stripped: Optional[bool] = None
            src_: Optional[ast.AST] = None
            drops = False
            if isinstance(e_, ast.Call) and isinstance(e_.func, ast.Name) and e_.func.id == "map" and len(e_.args) == 2:
                fnx, src_ = e_.args
                if isinstance(fnx, ast.Lambda) and len(fnx.args.args) == 1:
                    stripped = _strips(fnx.body, fnx.args.args[0].arg)
                elif src_of(fnx) == "str.strip":
                    stripped = True
            elif isinstance(e_, (ast.ListComp, ast.GeneratorExp)) and len(e_.generators) == 1 and isinstance(e_.generators[0].target, ast.Name):
                g_ = e_.generators[0]
                stripped = _strips(e_.elt, g_.target.id)
                src_ = g_.iter
                drops = bool(g_.ifs)
            res.inst(part="cli", flag="filter_messages", value=src_of(v_), stripped=stripped)
            src_ok = src_ is not None and isinstance(src_, ast.Call) and isinstance(src_.func, ast.Attribute) and src_.func.attr == "split" and src_of(src_.func.value).endswith(".filter_messages") and len(src_.args) == 1 and isinstance(src_.args[0], ast.Constant) and src_.args[0].value == ","
            if stripped is False and src_ok:
                f = Finding("A9", rb.rel, v_.lineno, "run_bitproto", src_of(v_), "the -F names are taken from the comma separated list without stripping blanks: `-F \"A, B\"` selects ` B`, which matches no message, so B's encoder / decoder silently disappear", witness='bitproto c x.bitproto -O -F "Alpha, Gamma"', tag="cli:filter_messages:strip")
                res.bad(f)
            elif stripped is not True or not src_ok:
                res.unsure(f"A9: run_bitproto: `{src_of(v_)}` is not a recognised way to build the -F list")
            elif drops:
                res.unsure(f"A9: run_bitproto: `{src_of(v_)}` drops items of the -F list: whether `-F ,` stays a (non-matching) filter is not decided")
    except Inconclusive as e:
        res.unsure(f"A9: run_bitproto: {e}")
    # render() -> renderer_cls(...) forwards them
    rfi = m.func("renderer/__init__.py", "render")
    flow = PyFlow(funcs={}, havoc_on=())

    def all_calls(p_: Any) -> List[Any]:
        out = []
        for e in p_.effects:
            if e.kind == "call":
                out.append(e)
            elif e.kind == "loop":
                for sp in e.sub or []:
                    out.extend(all_calls(sp))
        return out

    ctors = []
    try:
        for p in flow.run(rfi.node):
            for e in all_calls(p):
                if "optimization_mode" in e.kw or "**" in e.kw:
                    ctors.append(e)
    except Inconclusive as e:
        res.unsure(f"A9: render(): {e}")
    res.inst(part="render", ctors=len(ctors))
    if not ctors:
        res.unsure("A9: renderer construction in render() not recognised")
    for e in ctors:
        if "**" in e.kw:
            res.unsure(f"A9: render(): keyword arguments of `{repr(e)[:100]}` come from a mapping that is not a literal")
            continue
        for k_ in ("optimization_mode", "optimization_mode_filter_messages", "optimization_mode_endian"):
            v = e.kw.get(k_)
            if v is None or show(v) != k_:
                res.bad(Finding("A9", "compiler/bitproto/renderer/__init__.py", rfi.node.lineno, "render", repr(e)[:160], f"the renderer is constructed with {k_}={show(v) if v is not None else None}", tag=f"render:{k_}"))
    # Renderer.__init__ calls check unconditionally after setting the flag
    ri = m.func("renderer/renderer.py", "Renderer.__init__").node
    stmts = [src_of(s) for s in ri.body]
    res.inst(part="renderer-init")
    try:
        i_set = stmts.index("self.optimization_mode = optimization_mode")
        i_chk = stmts.index("self.check_proto_for_optimization_mode()")
        if i_chk < i_set:
            raise ValueError
    except ValueError:
        res.bad(Finding("A9", "compiler/bitproto/renderer/renderer.py", ri.lineno, "Renderer.__init__", "", "check_proto_for_optimization_mode() is not called unconditionally after self.optimization_mode is set", witness="bitproto py x.bitproto -O generates code", tag="Renderer.__init__:check"))
    ck = m.func("renderer/renderer.py", "Renderer.check_proto_for_optimization_mode").node
    res.inst(part="renderer-init", check=short(src_of(ck), 200))
    raises = [n for n in ast.walk(ck) if isinstance(n, ast.Raise)]
    ok = False
    for r in raises:
        if "LanguageNotSupportOptimizationMode" in src_of(r):
            facts = {("" if truth else "not ") + src_of(t) for t, truth in facts_at(r, ck)}
            if facts == {"self.optimization_mode", "not self.support_optimization()"}:
                ok = True
    if not ok:
        res.bad(Finding("A9", "compiler/bitproto/renderer/renderer.py", ck.lineno, "Renderer.check_proto_for_optimization_mode", "", "LanguageNotSupportOptimizationMode is not raised exactly when optimization mode is on and the renderer does not support it", witness="bitproto py x.bitproto -O", tag="check_proto_for_optimization_mode"))
    # renderers that claim support branch on it in block(); others keep False
    rbase = m.cls("Renderer", "renderer/renderer.py")
    for c in m.subclasses(rbase):
        if c is rbase:
            continue
        so = c.methods.get("support_optimization")
        claims = so is not None and any(isinstance(n, ast.Return) and isinstance(n.value, ast.Constant) and n.value.value is True for n in ast.walk(so.node))
        blk = m.lookup(c, "block")
        uses = blk is not None and "self.optimization_mode" in src_of(blk.node)
        res.inst(part="support", renderer=c.name, claims=claims, block_branches=uses)
        if claims and not uses:
            res.bad(Finding("A9", c.rel, c.node.lineno, c.name, "", "the renderer claims optimization-mode support but block() ignores self.optimization_mode", tag=f"{c.name}:block"))
        if uses and not claims:
            res.bad(Finding("A9", c.rel, c.node.lineno, c.name, "", "block() has an optimization-mode branch but support_optimization() is not True (the branch is dead and -O is refused)", tag=f"{c.name}:support"))
    return res


# --------------------------------------------------------------------------
# A11 lint wiring
# --------------------------------------------------------------------------


def show_name_startswith(p: Any, name: str) -> bool:
    from .normal import show

    return show(p).startswith(name)


@rule("A11", "every lint rule is registered, targets a supported type, and cites the definition it checked")
def a11(repo: Repo) -> RuleResult:
    res = RuleResult("A11", floor=8)
    m = get_model(repo)
    lm = m.mod("bitproto/linter.py")
    rule_base = lm.classes.get("Rule")
    linter = lm.classes.get("Linter")
    if rule_base is None or linter is None:
        raise Inconclusive("linter.py: Rule/Linter vanished")
    rules_fn = linter.methods.get("rules")
    registered = set()
    if rules_fn is not None:
        for n in ast.walk(rules_fn.node):
            if isinstance(n, ast.Call) and isinstance(n.func, ast.Name) and n.func.id in lm.classes:
                registered.add(n.func.id)
    supported: List[str] = []
    st = lm.assigns.get("SUPPORTED_TYPES")
    if isinstance(st, ast.Tuple):
        supported = [e.id for e in st.elts if isinstance(e, ast.Name)]
    if not supported:
        res.unsure("A11: SUPPORTED_TYPES is not a tuple literal of classes")
    for c in lm.classes.values():
        if c is rule_base or not m.is_subclass(c, rule_base):
            continue
        tc = m.lookup(c, "target_class")
        if tc is not None and tc.cls is rule_base:
            tc = None  # the abstract declaration of the base
        has_subclasses = any(o is not c and m.is_subclass(o, c) for o in lm.classes.values())
        if tc is None and has_subclasses and c.name not in registered:
            # an abstract intermediate class (template method): its concrete subclasses are the rules
            res.inst(rule=c.name, abstract=True)
            continue
        target = None
        if tc is not None:
            for n in ast.walk(tc.node):
                if isinstance(n, ast.Return) and isinstance(n.value, ast.Name):
                    target = n.value.id
        res.inst(rule=c.name, target=target, registered=c.name in registered)
        if c.name not in registered:
            res.bad(Finding("A11", lm.rel, c.node.lineno, c.name, "", "this lint rule is never instantiated in Linter.rules(): its warning is never produced", witness="a schema violating exactly this convention lints clean", tag=f"{c.name}:unregistered"))
        if target is None or target not in supported:
            res.bad(Finding("A11", lm.rel, c.node.lineno, c.name, str(target), "target_class() is not one of SUPPORTED_TYPES: Linter.lint never dispatches to this rule", tag=f"{c.name}:target"))
        chk = m.lookup(c, "check")
        if chk is None or chk.cls is rule_base:
            res.bad(Finding("A11", lm.rel, c.node.lineno, c.name, "", "no check() method", tag=f"{c.name}:check"))
            continue
        first = chk.node.args.args[1].arg if len(chk.node.args.args) > 1 else "definition"
        for n in ast.walk(chk.node):
            if isinstance(n, ast.Return) and isinstance(n.value, ast.Call):
                f = n.value.func
                if isinstance(f, ast.Attribute) and f.attr == "from_token":
                    kws = {k.arg: src_of(k.value) for k in n.value.keywords}
                    tok = kws.get("token") or (src_of(n.value.args[0]) if n.value.args else None)
                    if tok != first:
                        res.bad(Finding("A11", lm.rel, n.lineno, f"{c.name}.check", src_of(n.value), f"the warning is bound to `{tok}`, not to the checked definition `{first}`: it cites the wrong file/line", tag=f"{c.name}:token"))
                elif isinstance(f, ast.Name) and f.id.endswith(("Warning", "Pascal", "Upper", "Snake", "0")):
                    res.bad(Finding("A11", lm.rel, n.lineno, f"{c.name}.check", src_of(n.value), "the warning is constructed without from_token(): it carries no file and line", tag=f"{c.name}:no-from_token"))
    # Linter.lint dispatch: bound=proto, recursive=True; warning counted iff emitted
    lf = linter.methods.get("lint")
    if lf is None:
        res.unsure("A11: Linter.lint vanished")
    else:
        from .grammar import inline_generator_loops, lower_enumerate_counters
        from .normal import C as K, V, show
        from .pyflow import PyFlow

        lmeths = {k: v.node for k, v in linter.methods.items()}
        lint_node = inline_generator_loops(lower_enumerate_counters(lf.node), lmeths)
        res.inst(rule="Linter.lint", text=short(src_of(lf.node), 160), generator_inlined=lint_node is not lf.node)
        rets = [n for n in ast.walk(lint_node) if isinstance(n, ast.Return) and isinstance(n.value, ast.Name)]
        counter = rets[0].value.id if len(rets) == 1 else None
        if counter is None:
            res.bad(Finding("A11", lm.rel, lf.node.lineno, "Linter.lint", "", "lint() does not return the warning count", tag="lint:return"))
        else:
            try:
                flow = PyFlow(funcs={}, methods=lmeths, havoc_on=(), inline_filter=lambda n_, f_: n_ not in ("rules", "filter_rules", "lint"))
                leafs: List[Tuple[Any, str]] = []
                filters: List[Any] = []

                def walk_loops(p_: Any) -> None:
                    for e in p_.effects:
                        if e.kind == "call" and e.name == "filter":
                            filters.append(e)
                        if e.kind == "loop":
                            subs = e.sub or []
                            inner = [sp for sp in subs if any(x.kind == "loop" for x in sp.effects)]
                            for sp in subs:
                                for x in sp.effects:
                                    if x.kind == "call" and x.name == "filter":
                                        filters.append(x)
                                if sp in inner:
                                    walk_loops(sp)
                                elif any(x.kind == "call" and x.name == "check" for x in sp.effects) or any(x.kind == "call" and x.name == "warning" for x in sp.effects):
                                    leafs.append((sp, e.op))

                prm_ = [a_.arg for a_ in lf.node.args.args]
                top = flow.run(lint_node, {prm_[0]: V("self"), prm_[1]: V("proto")} if len(prm_) > 1 else None)
                for p_ in top:
                    walk_loops(p_)
                # what is linted: the definitions of this file, at every depth
                okf = bool(filters)
                for fe in filters:
                    rec_, bnd_ = fe.kw.get("recursive"), fe.kw.get("bound")
                    if rec_ is None or rec_.const_value() != 1 or bnd_ is None or show(bnd_) != "proto" or fe.recv is None or show(fe.recv) != "proto":
                        okf = False
                res.inst(rule="Linter.lint", filter_calls=len(filters), ok=okf)
                if not okf:
                    res.bad(Finding("A11", lm.rel, lf.node.lineno, "Linter.lint", "", "definitions are not collected with recursive=True, bound=proto: nested definitions are skipped or imported files are linted under the wrong file", tag="lint:filter"))

                ok = bool(leafs)
                why = "no loop path calls rule.check" if not leafs else ""
                for sp, tag in leafs:
                    warned = any(x.kind == "call" and x.name == "warning" for x in sp.effects)
                    before = V(counter + tag)
                    after = sp.env.get(counter, before)
                    delta = (after - before).const_value()
                    if delta != (1 if warned else 0):
                        ok = False
                        why = f"on the path under {sp.guard_text()} (warning emitted: {warned}) the count changes by {delta}"
                res.inst(rule="Linter.lint", count_paths=len(leafs), ok=ok)
                if not ok:
                    res.bad(Finding("A11", lm.rel, lf.node.lineno, "Linter.lint", why, "the warning count is not incremented exactly once per warning produced" + (f": {why}" if why else ""), witness="check-only exit status is wrong", tag="lint:count"))
                for p_ in top:
                    if p_.done == "return" and (p_.ret is None or not show_name_startswith(p_.ret, counter)):
                        res.bad(Finding("A11", lm.rel, lf.node.lineno, "Linter.lint", "", "lint() does not return the warning count", tag="lint:return"))
            except Inconclusive as e:
                res.unsure(f"A11: Linter.lint: {e}")
    return res
