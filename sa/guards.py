"""
E2 (syntax-directed): facts that hold when control reaches a node, derived
from the enclosing / preceding control structure of a Python function.

A fact is (test expression, truth value).  A fact is dropped when one of the
names it mentions is assigned textually between the test and the use (sound
for the structured code of this repository: no goto, tests are re-evaluated on
every loop iteration).
"""

from __future__ import annotations

import ast
from typing import Dict, Iterable, List, Optional, Tuple

from .core import parent, src_of

Fact = Tuple[ast.AST, bool]


def always_exits(body: List[ast.stmt]) -> bool:
    if not body:
        return False
    last = body[-1]
    if isinstance(last, (ast.Return, ast.Raise, ast.Continue, ast.Break)):
        return True
    if isinstance(last, ast.If):
        return bool(last.orelse) and always_exits(last.body) and always_exits(last.orelse)
    if isinstance(last, ast.Expr) and isinstance(last.value, ast.Call):
        f = last.value.func
        name = f.id if isinstance(f, ast.Name) else (f.attr if isinstance(f, ast.Attribute) else "")
        if name in ("fatal", "_exit", "exit"):
            return True
    return False


def _pos(n: ast.AST) -> Tuple[int, int]:
    return (getattr(n, "lineno", 0), getattr(n, "col_offset", 0))


def _end(n: ast.AST) -> Tuple[int, int]:
    return (getattr(n, "end_lineno", 0) or 0, getattr(n, "end_col_offset", 0) or 0)


def _names(e: ast.AST) -> List[str]:
    return [n.id for n in ast.walk(e) if isinstance(n, ast.Name)]


def _exclusive(a: ast.AST, b: ast.AST) -> bool:
    """a and b lie in different branches of one if statement."""
    def branches(n: ast.AST):
        out = {}
        child, p = n, parent(n)
        while p is not None:
            if isinstance(p, ast.If):
                if child in p.body:
                    out[id(p)] = "body"
                elif child in p.orelse:
                    out[id(p)] = "orelse"
            child, p = p, parent(p)
        return out
    ba, bb = branches(a), branches(b)
    return any(k in bb and bb[k] != v for k, v in ba.items())


def assignments_between(fn: ast.AST, name: str, start: Tuple[int, int], use: ast.AST) -> List[ast.AST]:
    """Statements assigning `name` textually between `start` and `use` that are
    not in a branch exclusive with `use`."""
    out: List[ast.AST] = []
    stop = _pos(use)
    for n in ast.walk(fn):
        tgt: List[ast.AST] = []
        if isinstance(n, ast.Assign):
            tgt = list(n.targets)
        elif isinstance(n, (ast.AugAssign, ast.AnnAssign)):
            tgt = [n.target]
        for t in tgt:
            if isinstance(t, ast.Name) and t.id == name and start <= _pos(n) < stop and not _exclusive(n, use):
                out.append(n)
    return out


def _assigned_between(fn: ast.AST, names: Iterable[str], start: Tuple[int, int], stop: Tuple[int, int], use: Optional[ast.AST] = None) -> bool:
    ns = set(names)
    for n in ast.walk(fn):
        tgt: List[ast.AST] = []
        if isinstance(n, ast.Assign):
            tgt = list(n.targets)
        elif isinstance(n, (ast.AugAssign, ast.AnnAssign)):
            tgt = [n.target]
        elif isinstance(n, (ast.For, ast.comprehension)):
            tgt = [n.target]
        elif isinstance(n, ast.NamedExpr):
            tgt = [n.target]
        for t in tgt:
            for x in ast.walk(t):
                if isinstance(x, ast.Name) and x.id in ns and isinstance(x.ctx, ast.Store):
                    if start <= _pos(n) < stop:
                        if use is not None and _exclusive(n, use):
                            continue
                        return True
    return False


def facts_at(node: ast.AST, fn: ast.AST, kill: bool = True, skip_raise_siblings: bool = False) -> List[Fact]:
    raw: List[Tuple[ast.AST, bool, Tuple[int, int]]] = []

    def add(test: ast.AST, truth: bool) -> None:
        raw.append((test, truth, _end(test)))

    child: ast.AST = node
    p = parent(node)
    while p is not None and child is not fn:
        if isinstance(p, ast.If):
            if child in p.body:
                add(p.test, True)
            elif child in p.orelse:
                add(p.test, False)
        elif isinstance(p, ast.While):
            if child in p.body:
                add(p.test, True)
        elif isinstance(p, ast.IfExp):
            if child is p.body:
                add(p.test, True)
            elif child is p.orelse:
                add(p.test, False)
        elif isinstance(p, ast.BoolOp):
            if child in p.values:
                idx = p.values.index(child)
                for v in p.values[:idx]:
                    add(v, isinstance(p.op, ast.And))
        elif isinstance(p, ast.comprehension):
            if child in p.ifs:
                for v in p.ifs[: p.ifs.index(child)]:
                    add(v, True)
        elif isinstance(p, (ast.ListComp, ast.SetComp, ast.GeneratorExp, ast.DictComp)):
            if child is getattr(p, "elt", None) or child is getattr(p, "key", None) or child is getattr(p, "value", None):
                for g in p.generators:
                    for v in g.ifs:
                        add(v, True)
        # preceding siblings in statement lists
        for fld in ("body", "orelse", "finalbody"):
            lst = getattr(p, fld, None)
            if isinstance(lst, list) and child in lst:
                for s in lst[: lst.index(child)]:
                    if isinstance(s, ast.Assert):
                        add(s.test, True)
                    elif isinstance(s, ast.If):
                        if skip_raise_siblings and not s.orelse and s.body and isinstance(s.body[-1], ast.Raise):
                            # an earlier `if c: raise` only adds the path condition
                            # `not c`; for "is the input rejected" it is immaterial
                            continue
                        if always_exits(s.body) and not s.orelse:
                            add(s.test, False)
                        elif s.orelse and always_exits(s.orelse) and not always_exits(s.body):
                            add(s.test, True)
                        elif s.orelse and always_exits(s.body) and not always_exits(s.orelse):
                            add(s.test, False)
        if isinstance(p, ast.ExceptHandler):
            pass
        child, p = p, parent(p)

    out: List[Fact] = []
    here = _pos(node)
    for test, truth, at in raw:
        if kill and _assigned_between(fn, _names(test), at, here, node):
            continue
        out.extend(_split(test, truth))
    return out


def _split(test: ast.AST, truth: bool) -> List[Fact]:
    """(a and b) true -> a true, b true;  (a or b) false -> a false, b false;
    not x -> x with flipped truth."""
    if isinstance(test, ast.UnaryOp) and isinstance(test.op, ast.Not):
        return _split(test.operand, not truth)
    if isinstance(test, ast.BoolOp):
        if isinstance(test.op, ast.And) and truth:
            return [f for v in test.values for f in _split(v, True)]
        if isinstance(test.op, ast.Or) and not truth:
            return [f for v in test.values for f in _split(v, False)]
    return [(test, truth)]


# ---------------------------------------------------------------- predicates


def same(a: ast.AST, b: ast.AST) -> bool:
    return src_of(a) == src_of(b)


def _is_len_of(e: ast.AST, x: ast.AST) -> bool:
    return isinstance(e, ast.Call) and isinstance(e.func, ast.Name) and e.func.id == "len" and len(e.args) == 1 and same(e.args[0], x)


def _const_int(e: ast.AST) -> Optional[int]:
    if isinstance(e, ast.Constant) and isinstance(e.value, int) and not isinstance(e.value, bool):
        return e.value
    if isinstance(e, ast.UnaryOp) and isinstance(e.op, ast.USub):
        v = _const_int(e.operand)
        return -v if v is not None else None
    return None


def known_nonempty(x: ast.AST, facts: List[Fact]) -> bool:
    for t, truth in facts:
        if truth and same(t, x):
            return True
        if isinstance(t, ast.Compare) and len(t.ops) == 1:
            l, op, r = t.left, t.ops[0], t.comparators[0]
            if _is_len_of(l, x):
                k = _const_int(r)
                if k is not None:
                    if truth and ((isinstance(op, ast.Gt) and k >= 0) or (isinstance(op, ast.GtE) and k >= 1) or (isinstance(op, ast.Eq) and k >= 1) or (isinstance(op, ast.NotEq) and k == 0)):
                        return True
                    if not truth and ((isinstance(op, ast.LtE) and k >= 0) or (isinstance(op, ast.Lt) and k >= 1) or (isinstance(op, ast.Eq) and k == 0)):
                        return True
            # k < len(x)
            if _is_len_of(r, x):
                k = _const_int(l)
                if k is not None and truth and ((isinstance(op, ast.Lt) and k >= 0) or (isinstance(op, ast.LtE) and k >= 1)):
                    return True
    return False


def known_index_lt_len(x: ast.AST, i: ast.AST, facts: List[Fact]) -> bool:
    for t, truth in facts:
        if isinstance(t, ast.Compare) and len(t.ops) == 1:
            l, op, r = t.left, t.ops[0], t.comparators[0]
            if truth and isinstance(op, ast.Lt) and same(l, i) and _is_len_of(r, x):
                return True
            if truth and isinstance(op, ast.Gt) and same(r, i) and _is_len_of(l, x):
                return True
            if (not truth) and isinstance(op, ast.GtE) and same(l, i) and _is_len_of(r, x):
                return True
    return False


def known_key_in(d: ast.AST, k: ast.AST, facts: List[Fact]) -> bool:
    for t, truth in facts:
        if isinstance(t, ast.Compare) and len(t.ops) == 1:
            l, op, r = t.left, t.ops[0], t.comparators[0]
            if truth and isinstance(op, ast.In) and same(l, k) and same(r, d):
                return True
            if (not truth) and isinstance(op, ast.NotIn) and same(l, k) and same(r, d):
                return True
    return False


def known_nonzero(e: ast.AST, facts: List[Fact]) -> bool:
    for t, truth in facts:
        if truth and same(t, e):
            return True
        if isinstance(t, ast.Compare) and len(t.ops) == 1:
            l, op, r = t.left, t.ops[0], t.comparators[0]
            k = _const_int(r)
            if same(l, e) and k is not None:
                if truth and ((isinstance(op, ast.NotEq) and k == 0) or (isinstance(op, ast.Gt) and k >= 0) or (isinstance(op, ast.GtE) and k >= 1)):
                    return True
                if (not truth) and ((isinstance(op, ast.Eq) and k == 0) or (isinstance(op, ast.LtE) and k >= 0)):
                    return True
    return False
