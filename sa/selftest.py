"""
Checker validation both ways (DESIGN section 7).

Every variant is an in-memory edit of one file of the current tree (Repo
overlay; C variants are materialised in a mkdtemp directory for clang and
removed at once).  *breaking* variants must be reported by the named rule(s)
as a finding; *benign* twins must leave every rule of the listed properties
silent (no finding, not inconclusive).  Results are reported with the token
SELFTEST-..., never with a VIOLATION line.
"""

from __future__ import annotations

import concurrent.futures as cf
import os
import sys
from typing import Any, Dict, List, Optional, Tuple

from .core import PropSpec, Repo

PC = "compiler/bitproto/"
BP = "lib/py/bitprotolib/bp.py"
GO = "lib/go/bitproto.go"
CC = "lib/c/bitproto.c"
CH = "lib/c/bitproto.h"

# (id, kind, properties, file, old, new, rules expected to report (any of))
V: List[Tuple[str, str, List[str], str, str, str, List[str]]] = [
    # ---------------- D1 / E1 (py, go, planner)
    ("py-enc-shift-swapped", "break", ["C01", "C07", "C14"], BP, "shift = (j % 8) - (ctx.i % 8)", "shift = (ctx.i % 8) - (j % 8)", ["D1"]),
    ("py-dec-mask-base", "break", ["C02", "C14"], BP, "mask = get_mask(j % 8, c)", "mask = get_mask(ctx.i % 8, c)", ["D1"]),
    ("py-enc-index", "break", ["C01"], BP, "ctx.s[int(ctx.i / 8)] |= d", "ctx.s[int(j / 8)] |= d", ["D1"]),
    ("py-enc-assign", "break", ["C01", "C07"], BP, "ctx.s[int(ctx.i / 8)] |= d", "ctx.s[int(ctx.i / 8)] = d", ["D1"]),
    ("py-mask-off-by-one", "break", ["C01", "C02", "C07", "C14"], BP, "return (1 << ((k + 1 + c) - 1)) - (1 << ((k + 1) - 1))", "return (1 << ((k + 1 + c) - 1)) - (1 << (k + 1))", ["D1", "G1"]),
    ("py-rshift", "break", ["C01"], BP, "rshift = int(j / 8) * 8", "rshift = int(j / 8)", ["D1"]),
    ("py-chunk-no-dest-room", "break", ["C01", "C02", "C07", "C14"], BP, "return min(n - j, 8 - (j % 8), 8 - (i % 8))", "return min(n - j, 8 - (j % 8))", ["E1", "G1"]),
    ("py-chunk-beyond-field", "break", ["C07", "C14"], BP, "return min(n - j, 8 - (j % 8), 8 - (i % 8))", "return min(8 - (j % 8), 8 - (i % 8))", ["E1", "G1"]),
    ("py-cursor-step", "break", ["C01", "C02"], BP, "        ctx.i += c\n        j += c", "        ctx.i += c\n        j += 8", ["D1"]),
    ("go-enc-shift-swapped", "break", ["C19", "C14"], GO, "shift := (j % 8) - (i % 8)\n\tmask := byte(getMask(i%8, c))", "shift := (i % 8) - (j % 8)\n\tmask := byte(getMask(i%8, c))", ["D1"]),
    ("go-mask", "break", ["C19", "C14"], GO, "return (1 << ((k + 1 + c) - 1)) - (1 << ((k + 1) - 1))", "return (1 << ((k + c) - 1)) - (1 << ((k + 1) - 1))", ["D1", "G1"]),
    ("go-min", "break", ["C19", "C14"], GO, "\tif a < b {\n\t\treturn a\n\n\t}\n\treturn b", "\tif a > b {\n\t\treturn a\n\n\t}\n\treturn b", ["E1", "G1", "D1"]),
    ("planner-shift", "break", ["C04", "C14"], PC + "renderer/formatter.py", "shift, mask = ((i % 8) - (j % 8)), self.op_mode_get_mask(j % 8, c)", "shift, mask = ((j % 8) - (i % 8)), self.op_mode_get_mask(j % 8, c)", ["D1"]),
    ("planner-fi", "break", ["C04"], PC + "renderer/formatter.py", "si, fi, r = int(i / 8), int(j / 8), i % 8", "si, fi, r = int(i / 8), int(i / 8), i % 8", ["D1"]),
    ("planner-r", "break", ["C04", "C07"], PC + "renderer/formatter.py", "si, fi, r = int(i / 8), int(j / 8), j % 8", "si, fi, r = int(i / 8), int(j / 8), i % 8", ["D1"]),
    ("planner-chunk", "break", ["C04", "C07", "C14", "C09"], PC + "renderer/formatter.py", "c = min(8 - (i[0] % 8), 8 - (j % 8), n - j)", "c = min(8 - (i[0] % 8), n - j)", ["E1"]),
    ("planner-mask", "break", ["C04", "C14"], PC + "renderer/formatter.py", "return (1 << (k + c)) - (1 << k)", "return (1 << (k + c)) - 1", ["D1"]),
    # ---------------- D3 / C3 / D7
    ("py-array-skip-old", "break", ["C05", "C02"], BP, "ito = i + 16 + ahead * element_nbits", "ito = i + ahead * self.capacity", ["D3"]),
    ("py-msg-skip", "break", ["C05"], BP, "ito = i + ahead\n", "ito = i + 16 + ahead\n", ["D3"]),
    ("py-msg-skip-guard", "break", ["C05"], BP, "        if self.extensible and not ctx.is_encode:\n            ito = i + ahead\n            if ito >= ctx.i:", "        if self.extensible and not ctx.is_encode:\n            ito = i + ahead\n            if ito < ctx.i:", ["D3"]),
    ("py-start-after-prefix", "break", ["C05"], BP, "        # Record current number of bits processed.\n        i = ctx.i\n        # Opponent message nbits if extensible set.\n        ahead = 0\n\n        if self.extensible:\n            if ctx.is_encode:\n                # Encode extensible ahead  if extensible.\n                self.encode_extensible_ahead(ctx)\n            else:\n                # Decode extensible ahead  if extensible.\n                ahead = self.decode_extensible_ahead(ctx)\n", "        ahead = 0\n\n        if self.extensible:\n            if ctx.is_encode:\n                self.encode_extensible_ahead(ctx)\n            else:\n                ahead = self.decode_extensible_ahead(ctx)\n        i = ctx.i\n", ["D3"]),
    ("py-prefix-width", "break", ["C01", "C05"], BP, "        accessor = IntAccessor(data=self.nbits)\n        di = DataIndexer(field_number=1)\n        process_base_type(16, ctx, di, accessor)", "        accessor = IntAccessor(data=self.nbits)\n        di = DataIndexer(field_number=1)\n        process_base_type(8, ctx, di, accessor)", ["C3"]),
    ("py-prefix-data", "break", ["C01", "C05"], BP, "accessor = IntAccessor(data=self.capacity)", "accessor = IntAccessor(data=self.capacity - 1)", ["C3"]),
    ("go-array-skip", "break", ["C05", "C19"], GO, "ito := i + 16 + int(ahead)*elementNbits", "ito := i + int(ahead)*elementNbits", ["D3"]),
    ("go-prefix-fieldnumber", "break", ["C05", "C19"], GO, "\tdata := uint16(t.nbits)\n\taccessor := &Uint16Accessor{data}\n\tdi := NewDataIndexer(1)", "\tdata := uint16(t.nbits)\n\taccessor := &Uint16Accessor{data}\n\tdi := NewDataIndexer(0)", ["C3"]),
    ("py-alias-extra", "break", ["C12"], BP, "        self.to.process(ctx, di, accessor)", "        ctx.i += 0\n        self.to.process(ctx, di, accessor)", ["D7"]),
    ("ast-ahead-8", "break", ["C01", "C05"], PC + "_ast.py", "    @override(ExtensibleType)\n    def ahead_nbits(self) -> int:\n        return 16\n\n    @override(Type)\n    @cache_if_frozen\n    def nbits(self) -> int:\n        n = self.cap", "    @override(ExtensibleType)\n    def ahead_nbits(self) -> int:\n        return 8\n\n    @override(Type)\n    @cache_if_frozen\n    def nbits(self) -> int:\n        n = self.cap", ["C3"]),
    # ---------------- D5 / C2
    ("nbytes-floor", "break", ["C01", "C07"], PC + "_ast.py", "        if nbits % 8 == 0:\n            return int(nbits / 8)\n        return int(nbits / 8) + 1", "        return int(nbits / 8) + 1", ["D5"]),
    ("array-nbits-no-prefix", "break", ["C01", "C07", "C12"], PC + "_ast.py", "        n = self.cap * self.element_type.nbits()\n        if not self.extensible:\n            return n\n        return self.ahead_nbits() + n", "        n = self.cap * self.element_type.nbits()\n        return n", ["D5"]),
    ("alias-nbits", "break", ["C12", "C01"], PC + "_ast.py", "    @override(Type)\n    def nbits(self) -> int:\n        return self.type.nbits()\n\n    @property\n    def extensible", "    @override(Type)\n    def nbits(self) -> int:\n        return self.type.nbits() + 0 * len(self.name) + 1\n\n    @property\n    def extensible", ["D5", "F3"]),
    ("size-const-source", "break", ["C07", "C01"], PC + "renderer/block.py", "return self.formatter.format_int_value(self.d.nbytes())", "return self.formatter.format_int_value(self.d.nbytes() + 1)", ["D5"]),
    ("storage-3bytes-16", "break", ["C03", "C14", "C19"], PC + "renderer/formatter.py", "        elif nbytes in (3, 4):\n            return 32", "        elif nbytes in (3,):\n            return 16\n        elif nbytes in (4,):\n            return 32", ["C2", "CC2"]),
    # ---------------- A4
    ("sorted-by-str", "break", ["C01", "C12", "C03", "C19", "C04"], PC + "_ast.py", "return sorted(self.fields(), key=lambda field: field.number)", "return sorted(self.fields(), key=lambda field: str(field.number))", ["A4"]),
    ("py-processor-unsorted", "break", ["C01", "C12"], PC + "renderer/impls/py/renderer.py", "            BlockMessageMethodProcessorFieldItem(d, indent=self.indent)\n            for d in self.d.sorted_fields()", "            BlockMessageMethodProcessorFieldItem(d, indent=self.indent)\n            for d in self.d.fields()", ["A4"]),
    ("c-descriptor-unsorted", "break", ["C03", "C12", "C16"], PC + "renderer/impls/c/renderer_c.py", "for i, d in enumerate(self.d.sorted_fields())", "for i, d in enumerate(self.d.fields())", ["A4"]),
    ("planner-unsorted", "break", ["C04", "C12"], PC + "renderer/formatter.py", "        for field in t.sorted_fields():\n            chain_ = self.format_op_mode_field_name_chain(chain, field)", "        for field in t.fields():\n            chain_ = self.format_op_mode_field_name_chain(chain, field)", ["A4"]),
    # ---------------- D4 / D6 / C4
    ("py-sign-skip-24", "break", ["C02", "C14"], PC + "renderer/impls/py/renderer.py", "        if n in {8, 16, 32, 64}:\n            # Although python", "        if n in {8, 16, 24, 32, 64}:\n            # Although python", ["D4"]),
    ("py-sign-mask", "break", ["C02", "C14"], PC + "renderer/impls/py/renderer.py", "mask = ~((1 << n) - 1)", "mask = ~((1 << (n - 1)) - 1)", ["D4"]),
    ("bp-int16-threshold", "break", ["C02", "C14"], BP, "return i if i < 32768 else i - 65536", "return i if i <= 32768 else i - 65536", ["D4"]),
    ("go-sign-distance", "break", ["C19", "C14"], PC + "renderer/impls/go/renderer.py", "d = self.formatter.get_nbits_of_integer(single) - single.nbits()", "d = self.formatter.get_nbits_of_integer(single) - single.nbits() - 1", ["D4"]),
    ("c-opmode-sign-skip", "break", ["C04", "C14"], PC + "renderer/impls/c/formatter.py", "        if n in {8, 16, 32, 64}:\n            # No need to do additional actions\n            # int8/16/32/64 signed integers' sign bit is already on the highest bit position.\n            return []\n\n        m = ~((1 << n) - 1)", "        if n % 8 == 0:\n            return []\n\n        m = ~((1 << n) - 1)", ["D4"]),
    ("py-setbyte-enum-class", "break", ["C02"], PC + "renderer/impls/py/renderer.py", '            type_name = "int"\n            if self.array_depth == 0', '            type_name = self.formatter.format_type(single)\n            if self.array_depth == 0', ["D6"]),
    ("py-getbyte-noshift", "break", ["C01"], PC + "renderer/impls/py/renderer.py", 'self.push(f"return ({value} {shift}) & 255", indent=self.indent + 4)', 'self.push(f"return ({value}) & 255", indent=self.indent + 4)', ["D6"]),
    ("go-setbyte-widen-after", "break", ["C19"], PC + "renderer/impls/go/renderer.py", 'self.push(f"{left} {assign} ({value} {shift})", indent=self.indent + 1)', 'self.push(f"{left} {assign} {type_name}(b {shift})", indent=self.indent + 1)', ["D6"]),
    ("py-array-args-swapped", "break", ["C01", "C02"], PC + "renderer/impls/py/formatter.py", 'return f"bp.Array({extensible}, {capacity}, {et})"', 'return f"bp.Array({capacity}, {extensible}, {et})"', ["C4"]),
    ("go-msgproc-args", "break", ["C19"], PC + "renderer/impls/go/renderer.py", 'f"return bp.NewMessageProcessor({extensible}, {nbits}, fieldDescriptors)"', 'f"return bp.NewMessageProcessor({nbits}, {extensible}, fieldDescriptors)"', ["C4"]),
    ("py-depth-not-incremented", "break", ["C01", "C02"], PC + "renderer/impls/py/renderer.py", "class BlockMessageMethodGetSetByteItemBase(BlockBindMessageField[F]):\n    def __init__(\n        self,\n        *args: Any,\n        **kwds: Any,\n    ) -> None:\n        super().__init__(*args, **kwds)\n        self.array_depth: int = 0\n\n    def format_data_ref(self) -> str:\n        array_indexing = \"\".join(f\"[di.i({i})]\" for i in range(self.array_depth))", "class BlockMessageMethodGetSetByteItemBase(BlockBindMessageField[F]):\n    def __init__(\n        self,\n        *args: Any,\n        **kwds: Any,\n    ) -> None:\n        super().__init__(*args, **kwds)\n        self.array_depth: int = 0\n\n    def format_data_ref(self) -> str:\n        array_indexing = \"\".join(f\"[di.i({i})]\" for i in range(1, self.array_depth))", ["D6"]),
    # ---------------- C runtime
    ("c-copier-32-threshold", "break", ["C03", "C07", "C14"], CC, "if (bits >= 32) {", "if (bits > 24) {", ["EC1"]),
    ("c-copier-mask", "break", ["C03", "C07", "C14"], CC, "if (ch) dst[0] |= ((ch >> si << di) & ~(0xff << di << c));", "if (ch) dst[0] |= ((ch >> si << di) & ~(0xff << c));", ["EC1"]),
    ("c-copier-min", "break", ["C03", "C07", "C14"], CC, "c = BpMin(8 - si, n);", "c = 8 - si;", ["EC1"]),
    ("c-copier-epilogue", "break", ["C03", "C14"], CC, "        n -= c;\n        di += c;\n        si += c;", "        n -= c;\n        di += c;\n        si += 8;", ["EC1"]),
    ("c-batch-24", "break", ["C03", "C07", "C14"], CC, "return nbits == 8 || nbits == 16 || nbits == 32 || nbits == 64;", "return nbits == 8 || nbits == 16 || nbits == 24 || nbits == 32 || nbits == 64;", ["EC2"]),
    ("c-batch-bool", "break", ["C03", "C14"], CC, "    return flag == BP_TYPE_BYTE || flag == BP_TYPE_UINT ||\n           flag == BP_TYPE_ENUM || flag == BP_TYPE_INT;", "    return flag == BP_TYPE_BYTE || flag == BP_TYPE_UINT ||\n           flag == BP_TYPE_ENUM || flag == BP_TYPE_INT || flag == BP_TYPE_MESSAGE;", ["EC2"]),
    ("c-be-batch-enabled", "break", ["C06"], CC, "        // BpEndecodeBaseType).\n        0\n#endif", "        // BpEndecodeBaseType).\n        (element_nbits == 8)\n#endif", ["EC2"]),
    ("c-sign-skip-24", "break", ["C03", "C14"], CC, "if (nbits == 8 || nbits == 16 || nbits == 32 || nbits == 64) return;", "if (nbits == 8 || nbits == 16 || nbits == 24 || nbits == 32 || nbits == 64) return;", ["CD4"]),
    ("c-sign-case16-cast", "break", ["C03", "C14"], CC, "if ((*(uint16_t *)data) & ((uint16_t)1 << (nbits - 1))) {", "if ((*(uint8_t *)data) & ((uint16_t)1 << (nbits - 1))) {", ["CD4"]),
    ("c-field-switch-drop-enum", "break", ["C03", "C16"], CC, "        case BP_TYPE_BYTE:\n        case BP_TYPE_ENUM:\n            BpEndecodeBaseType((descriptor->type).nbits, ctx, descriptor->data);", "        case BP_TYPE_BYTE:\n            BpEndecodeBaseType((descriptor->type).nbits, ctx, descriptor->data);", ["CA2"]),
    ("c-int-routed-base", "break", ["C03"], CC, "        case BP_TYPE_INT:\n            BpEndecodeInt((descriptor->type).size, (descriptor->type).nbits,\n                          ctx, descriptor->data);\n            break;", "        case BP_TYPE_INT:\n            BpEndecodeBaseType((descriptor->type).nbits, ctx, descriptor->data);\n            break;", ["CA2"]),
    ("c-array-skip-old", "break", ["C05", "C03", "C12"], CC, "int ito = i + 16 + (((int)ahead) * nbits_per_element);", "int ito = i + (((int)ahead) * descriptor->cap);", ["EC3"]),
    ("c-msg-skip-guard", "break", ["C05"], CC, "        int ito = i + (int)ahead;\n        if (ito >= ctx->i) {", "        int ito = i + (int)ahead;\n        if (ito <= ctx->i) {", ["EC3"]),
    ("c-prefix-8", "break", ["C05", "C03"], CC, "    uint16_t data = (uint16_t)(descriptor->nbits);\n    BpEndecodeBaseType(16, ctx, (void *)&data);", "    uint16_t data = (uint16_t)(descriptor->nbits);\n    BpEndecodeBaseType(8, ctx, (void *)&data);", ["EC3"]),
    ("c-be-staging-size", "break", ["C06"], CC, "    if (nbits <= 16) return 2;\n    if (nbits <= 32) return 4;", "    if (nbits <= 16) return 2;\n    if (nbits <= 24) return 3;\n    if (nbits <= 32) return 4;", ["CC2"]),
    ("c-be-staging-loop", "break", ["C06"], CC, "for (int k = 0; k < size; k++) le[k] = p[size - 1 - k];", "for (int k = 0; k < size; k++) le[k] = p[k];", ["EC4"]),
    ("c-be-word-cast", "break", ["C06"], CC, "                if (bits >= 8) {\n                    // Copy as an unsigned char.\n                    dst[0] = (src[0] >> si) & 0xff;", "                if (bits >= 8) {\n                    // Copy as an unsigned char.\n#ifdef BP_BIG_ENDIAN\n                    if (bits >= 16) { ((uint16_t *)dst)[0] = ((uint16_t *)src)[0] >> si; }\n#endif\n                    dst[0] = (src[0] >> si) & 0xff;", ["EC4", "EC1"]),
    ("c-json-comma", "break", ["C16"], CC, "        if (k + 1 < descriptor->nfields) {\n            BpJsonFormatString(ctx, \",\");", "        if (k < descriptor->nfields) {\n            BpJsonFormatString(ctx, \",\");", ["CJ"]),
    ("c-json-bool-polarity", "break", ["C16"], CC, '(*((bool *)(data))) ? "true" : "false"', '(*((bool *)(data))) ? "false" : "true"', ["CJ"]),
    ("c-json-int16-cast", "break", ["C16"], CC, 'BpJsonFormatString(ctx, "%d", (*((int16_t *)data)));', 'BpJsonFormatString(ctx, "%d", (*((uint16_t *)data)));', ["CC2"]),
    ("h-macro-swap", "break", ["C03"], CH, "#define BpUint(nbits, size) \\\n    ((struct BpType){BP_TYPE_UINT, (nbits), (size), NULL, NULL, 0})", "#define BpUint(nbits, size) \\\n    ((struct BpType){BP_TYPE_UINT, (size), (nbits), NULL, NULL, 0})", ["CC4"]),
    ("c-gen-array-desc-swap", "break", ["C03"], PC + "renderer/impls/c/formatter.py", 'return f"BpArrayDescriptor({extensible}, {cap}, {bp_type})"', 'return f"BpArrayDescriptor({cap}, {extensible}, {bp_type})"', ["CC4"]),
    # ---------------- D2 / F5
    ("c-le-item-assign", "break", ["C04", "C07"], PC + "renderer/impls/c/formatter.py", '        assign = "=" if r == 0 else "|="\n        shift_s = self.format_op_mode_smart_shift(shift)\n        return f"s[{si}] {assign}', '        assign = "=" if fi == 0 else "|="\n        shift_s = self.format_op_mode_smart_shift(shift)\n        return f"s[{si}] {assign}', ["D2"]),
    ("c-le-dec-roles", "break", ["C04"], PC + "renderer/impls/c/formatter.py", 'return f"((unsigned char *)&({chain}))[{fi}] {assign} (s[{si}] {shift_s}) & {mask};"', 'return f"((unsigned char *)&({chain}))[{si}] {assign} (s[{fi}] {shift_s}) & {mask};"', ["D2"]),
    ("c-be-total-shift", "break", ["C04", "C06"], PC + "renderer/impls/c/formatter.py", "total_shift = fi * 8 + shift", "total_shift = fi * 8 - shift", ["D2"]),
    ("go-dec-assign", "break", ["C04"], PC + "renderer/impls/go/formatter.py", '        assign = "|="\n        type_s = self.format_type(t)', '        assign = "="\n        type_s = self.format_type(t)', ["D2"]),
    ("f5-both-swapped", "break", ["C04", "C06"], PC + "renderer/impls/c/renderer_c.py", '            self.push("#ifndef BP_BIG_ENDIAN")\n            le()\n            self.push("#else")\n            be()\n            self.push("#endif")\n\n\nclass BlockMessageDecoderOpMode', '            self.push("#ifdef BP_BIG_ENDIAN")\n            le()\n            self.push("#else")\n            be()\n            self.push("#endif")\n\n\nclass BlockMessageDecoderOpMode', ["F5"]),
    # ---------------- parser / acceptance
    ("uint-cap-65", "break", ["C08"], PC + "_ast.py", "        if not (0 < self.cap <= 64):\n            raise InvalidUintCap", "        if not (0 < self.cap <= 65):\n            raise InvalidUintCap", ["C1"]),
    ("array-cap-65536", "break", ["C08"], PC + "_ast.py", "if not (0 < self.cap < 65536):", "if not (0 < self.cap <= 65536):", ["C1"]),
    ("field-number-0", "break", ["C08"], PC + "_ast.py", "if not (0 < self.number < 256):", "if not (0 <= self.number < 256):", ["C1"]),
    ("msg-size-ge", "break", ["C08"], PC + "_ast.py", "if self.nbits() > 65535:", "if self.nbits() > 65536:", ["C1"]),
    ("max-bytes-ge", "break", ["C08"], PC + "_ast.py", "if max_bytes > 0 and self.nbytes() > max_bytes:", "if max_bytes > 0 and self.nbytes() >= max_bytes:", ["C1"]),
    ("enum-overflow-ge", "break", ["C08"], PC + "_ast.py", "if field.value.bit_length() > self.nbits():", "if field.value.bit_length() >= self.nbits():", ["C1"]),
    ("dup-number-cached", "break", ["C08", "C18"], PC + "_ast.py", "    @cache_if_frozen\n    def number_to_field(self)", "    @cache\n    def number_to_field(self)", ["A7"]),
    ("enum-super-skipped", "break", ["C08"], PC + "_ast.py", "        super(Enum, self).validate_member_on_push(member, name)\n", "        pass\n", ["A8"]),
    ("array-validator-orphan", "break", ["C08"], PC + "_ast.py", "        self.validate_array_cap()\n        self.validate_array_element_type()", "        self.validate_array_cap()", ["A8"]),
    ("close-msg-no-freeze", "break", ["C08"], PC + "parser.py", "        message.scope_end_col = self._get_col(p, 1)  # '}'\n        message.freeze()", "        message.scope_end_col = self._get_col(p, 1)  # '}'", ["A8"]),
    ("alias-in-message-grammar", "break", ["C08"], PC + "grammars.py", "message_item : option\n             | enum", "message_item : option\n             | alias\n             | enum", ["B3"]),
    # a `const` inside an enum is then still rejected, by the generic StatementInMessageUnsupported: acceptance is unchanged
    ("benign-unsupported-enum-const-generic-error", "benign", ["C08"], PC + "parser.py", "        if isinstance(p[1], Constant):\n            raise ConstInEnumUnsupported.from_token(token=p[1])\n", "", ["B3"]),
    ("lookup-not-reversed", "break", ["C11", "C08"], PC + "parser.py", "for scope in self.scope_stack_in_current_proto()[::-1]:", "for scope in self.scope_stack_in_current_proto():", ["B5"]),
    ("lookup-whole-stack", "break", ["C11"], PC + "parser.py", "for scope in self.scope_stack_in_current_proto()[::-1]:", "for scope in self.current_scope_stack()[::-1]:", ["B5"]),
    ("push-in-open", "break", ["C11", "C08"], PC + "parser.py", "            scope_start_col=self._get_col(p, 4),  # '{'\n        )\n        self.push_scope(message)", "            scope_start_col=self._get_col(p, 4),  # '{'\n        )\n        self.current_scope().push_member(message)\n        self.push_scope(message)", ["B5"]),
    ("import-as-name", "break", ["C11"], PC + "parser.py", "        if len(p) == 5:  # Importing as `name`\n            name = p[2]", "        if len(p) == 4:  # Importing as `name`\n            name = p[2]", ["B5", "B1"]),
    ("field-type-symbol", "break", ["C11", "C12"], PC + "parser.py", "        name = p[2]\n        type = p[1]\n        field_number = p[4]", "        name = p[2]\n        type = p[1]\n        field_number = p[5]", ["V1", "B1"]),
    ("array-cap-symbol", "break", ["C13"], PC + "parser.py", "            element_type=p[1],\n            cap=p[3],", "            element_type=p[1],\n            cap=p[1],", ["V1"]),
    # ---------------- totality
    ("lexer-escape-guard", "break", ["C09"], PC + "lexer.py", "                if s[i] in Lexer.escaping_chars:\n                    val += Lexer.escaping_chars[s[i]]\n                else:\n                    raise InvalidEscapingChar(\n                        token=t.value,\n                        filepath=self.current_filepath(),\n                        lineno=t.lexer.lineno,\n                    )", "                val += Lexer.escaping_chars[s[i]]", ["A1"]),
    ("p-error-returns", "break", ["C09", "C08"], PC + "parser.py", '        if p is None:\n            raise GrammarError(message="Grammar error at eof.", filepath=filepath)', '        if p is None:\n            return', ["B6"]),
    ("div-guard-removed", "break", ["C09", "C13"], PC + "parser.py", "        if p[3] == 0:\n            raise CalculationExpressionError(\n                message=\"Division by zero in calculation expression.\",\n                filepath=self.current_filepath(),\n                token=\"/\",\n                lineno=p.lineno(2),\n            )\n", "", ["A1"]),
    ("p0-read", "break", ["C09"], PC + "parser.py", "raise ImportInMessageUnsupported.from_token(token=p[1])", "raise ImportInMessageUnsupported.from_token(token=p[0])", ["B1"]),
    ("p-index-out-of-range", "break", ["C09"], PC + "parser.py", "        name = p[1]\n        value = p[3]\n        field = EnumField(", "        name = p[1]\n        value = p[5]\n        field = EnumField(", ["B1"]),
    ("uint-regex-star", "break", ["C09"], PC + "lexer.py", 'r"\\buint[0-9]+\\b"', 'r"\\buint[0-9]*\\b"', ["A1"]),
    ("format-type-drop-enum", "break", ["C09", "C10"], PC + "renderer/formatter.py", "        elif isinstance(t, Enum):\n            return self.format_enum_type(t)\n        elif isinstance(t, Message):\n            return self.format_message_type(t)", "        elif isinstance(t, Message):\n            return self.format_message_type(t)", ["A2"]),
    ("valueerror-in-validator", "break", ["C09", "C08"], PC + "_ast.py", "        if self.value < 0:\n            raise InvalidEnumFieldValue.from_token(token=self)", "        if self.value < 0:\n            raise ValueError(f\"negative enum value {self.value}\")", ["A1", "C1"]),
    ("push-string-first", "break", ["C09", "C10"], PC + "renderer/impls/go/renderer.py", '        self.push(f"func (m *{self.message_name}) Size() uint32 {{")\n        self.push_string(f"return {self.message_nbytes}")', '        self.push_string(f"func (m *{self.message_name}) Size() uint32 {{")\n        self.push_string(f"return {self.message_nbytes}")', ["A13"]),
    ("lexer-loop-no-advance", "break", ["C09"], PC + "lexer.py", "            else:\n                val += s[i]\n            i += 1", "            else:\n                val += s[i]\n                i += 1", ["T1"]),
    # ---------------- constants
    ("minus-swapped", "break", ["C13"], PC + "parser.py", "p[0] = p[1] - p[3]", "p[0] = p[3] - p[1]", ["B4"]),
    ("divide-true", "break", ["C13"], PC + "parser.py", "p[0] = int(p[1] // p[3])", "p[0] = int(p[1] / p[3])", ["B4"]),
    ("precedence-one-level", "break", ["C13"], PC + "parser.py", '        ("left", "PLUS", "MINUS"),\n        ("left", "TIMES", "DIVIDE"),', '        ("left", "PLUS", "MINUS", "TIMES", "DIVIDE"),', ["B4"]),
    ("precedence-right", "break", ["C13"], PC + "parser.py", '("left", "PLUS", "MINUS"),', '("right", "PLUS", "MINUS"),', ["B4"]),
    ("hex-after-int", "break", ["C13"], PC + "lexer.py", '    def t_HEX_LITERAL(self, t: LexToken) -> LexToken:\n        r"0x[0-9a-fA-F]+"\n        t.value = int(t.value, 16)\n        return t\n\n    def t_INT_LITERAL(self, t: LexToken) -> LexToken:\n        r"[0-9]+"\n        # NOTE: Currently only non-negative integers are supported.\n        # FIXME Negative integers?\n        t.value = int(t.value)\n        return t\n', '    def t_INT_LITERAL(self, t: LexToken) -> LexToken:\n        r"[0-9]+"\n        t.value = int(t.value)\n        return t\n\n    def t_HEX_LITERAL(self, t: LexToken) -> LexToken:\n        r"0x[0-9a-fA-F]+"\n        t.value = int(t.value, 16)\n        return t\n', ["B4"]),
    ("escape-table", "break", ["C13"], PC + "lexer.py", '        "t": "\\t",\n        "r": "\\r",', '        "t": "\\t",\n        "r": "\\n",', ["B4"]),
    ("str-unescaped", "break", ["C13"], PC + "renderer/impls/go/formatter.py", "return '\"{0}\"'.format(self.escape_str_value(value))", "return '\"{0}\"'.format(value)", ["C6"]),
    ("bool-literal-py", "break", ["C13"], PC + "renderer/impls/py/formatter.py", '        if value:\n            return "True"\n        return "False"', '        if value:\n            return "true"\n        return "false"', ["C6"]),
    ("format-value-int-first", "break", ["C13"], PC + "renderer/formatter.py", "        if value is True or value is False:\n            return self.format_bool_value(value)\n        elif isinstance(value, str):\n            return self.format_str_value(value)\n        elif isinstance(value, int):\n            return self.format_int_value(value)", "        if isinstance(value, int):\n            return self.format_int_value(value)\n        elif isinstance(value, str):\n            return self.format_str_value(value)\n        elif value is True or value is False:\n            return self.format_bool_value(value)", ["C6"]),
    ("option-value-not-unwrapped", "break", ["C13"], PC + "parser.py", "p[0] = p[1].unwrap() if isinstance(p[1], Constant) else p[1]", "p[0] = p[1]", ["V1"]),
    # ---------------- -O / -F
    ("child-parser-mode", "break", ["C17"], PC + "parser.py", "            traditional_mode=self.traditional_mode,\n        ).parse(filepath)", "        ).parse(filepath)", ["A9"]),
    ("filter-without-O", "break", ["C17"], PC + "_main.py", '    if not enable_optimize:\n        if filter_messages:\n            fatal("-F not available in non-optimization mode.")\n', "", ["A5"]),
    ("py-claims-opt", "break", ["C17"], PC + "renderer/renderer.py", "        if not self.optimization_mode:\n            return\n        if not self.support_optimization():", "        if not self.optimization_mode:\n            return\n        if False and not self.support_optimization():", ["A9"]),
    ("filter-in-datastructs", "break", ["C17"], PC + "renderer/impls/c/renderer_h.py", "        if isinstance(d, Message):\n            return BlockMessageDef(d)\n        return None", "        if isinstance(d, Message):\n            filter_messages = self._get_ctx_or_raise().optimization_mode_filter_messages\n            if filter_messages and d.name not in filter_messages:\n                return None\n            return BlockMessageDef(d)\n        return None", ["F4"]),
    ("filter-predicate", "break", ["C17"], PC + "renderer/impls/c/renderer_c.py", "            if filter_messages:\n                if d.name not in filter_messages:\n                    return None\n            return BlockMessageFunctionsOpMode(d)", "            if filter_messages:\n                if d.name in filter_messages:\n                    return None\n            return BlockMessageFunctionsOpMode(d)", ["F4"]),
    ("extensible-flag-mode", "break", ["C17"], PC + "parser.py", "if extensible and self.traditional_mode:", "if extensible and not self.traditional_mode:", ["B3"]),
    # ---------------- determinism / lint
    ("set-iteration", "break", ["C18"], PC + "renderer/impls/py/renderer.py", "            BlockMessageField(field, indent=self.indent)\n            for field in self.d.sorted_fields()", "            BlockMessageField(field, indent=self.indent)\n            for field in set(self.d.sorted_fields())", ["A10", "A4"]),
    ("cwd-in-output", "break", ["C18"], PC + "renderer/block.py", '        notice = "Code generated by bitproto. DO NOT EDIT."', '        import os\n        notice = "Code generated by bitproto in " + os.getcwd() + ". DO NOT EDIT."', ["A10"]),
    ("lint-writes-ast", "break", ["C18", "C20"], PC + "linter.py", "        definition_name = name or definition.name\n        expect = snake_case(definition_name)", "        definition_name = name or definition.name\n        definition.indent = 0\n        expect = snake_case(definition_name)", ["A6"]),
    ("global-counter", "break", ["C18"], PC + "renderer/formatter.py", "    def format_op_mode_endecoder_message_var(self) -> str:\n        \"\"\"Returns the message variable name in rendered encoder and decoder function.\"\"\"\n        raise NotImplementedError", "    def format_op_mode_endecoder_message_var(self) -> str:\n        \"\"\"Returns the message variable name in rendered encoder and decoder function.\"\"\"\n        global _COUNTER\n        _COUNTER = 1\n        raise NotImplementedError", ["A10"]),
    ("lint-rule-unregistered", "break", ["C20"], PC + "linter.py", "            RuleEnumContains0(),\n", "", ["A11", "C7"]),
    ("lint-polarity", "break", ["C20"], PC + "linter.py", "        definition_name = name or definition.name\n        expect = pascal_case(definition_name)\n        if expect != definition_name:\n            return MessageNameNotPascal", "        definition_name = name or definition.name\n        expect = pascal_case(definition_name)\n        if expect == definition_name:\n            return MessageNameNotPascal", ["C7"]),
    ("lint-field-pascal", "break", ["C20"], PC + "linter.py", "        expect = snake_case(definition_name)\n        if expect != definition_name:\n            return MessageFieldNameNotSnake", "        expect = pascal_case(definition_name)\n        if expect != definition_name:\n            return MessageFieldNameNotSnake", ["C7"]),
    ("comment-swallows-newline", "break", ["C20"], PC + "lexer.py", 'r"\\/\\/[^\\n]*"', 'r"\\/\\/[^\\n]*\\n?"', ["B2"]),
    ("col-first-line-clamp", "break", ["C20"], PC + "parser.py", "        return lexpos - last_newline\n", "        return lexpos - max(last_newline, 0)\n", ["B2"]),
    ("col-zero-based", "break", ["C20"], PC + "parser.py", "        return lexpos - last_newline\n", "        return lexpos - last_newline - 1\n", ["B2"]),
    ("col-unbounded-search", "break", ["C20"], PC + "parser.py", "        last_newline = p.lexer.lexdata.rfind(\"\\n\", 0, lexpos)\n", "        last_newline = p.lexer.lexdata.rfind(\"\\n\")\n", ["B2"]),
    ("benign-col-slice-search", "benign", ["C20"], PC + "parser.py", "        last_newline = p.lexer.lexdata.rfind(\"\\n\", 0, lexpos)\n", "        last_newline = p.lexer.lexdata[:lexpos].rfind(\"\\n\")\n", []),
    ("benign-col-explicit-first-line", "benign", ["C20"], PC + "parser.py", "        return lexpos - last_newline\n", "        if last_newline < 0:\n            return lexpos + 1\n        return lexpos - last_newline\n", []),
    ("enum-field-line", "break", ["C20"], PC + "parser.py", "            token=p[1],\n            token_col_start=self._get_col(p, 1),\n            lineno=p.lineno(1),\n            indent=self.current_indent(p),\n            filepath=self.current_filepath(),\n            scope_stack", "            token=p[1],\n            token_col_start=self._get_col(p, 3),\n            lineno=p.lineno(1),\n            indent=self.current_indent(p),\n            filepath=self.current_filepath(),\n            scope_stack", ["B2"]),
    ("type-tracking-dropped", "break", ["C20"], PC + "parser.py", "    def p_dotted_identifier(self, p: P) -> None:\n        self.copy_p_tracking(p)  # from 1 => 0\n", "    def p_dotted_identifier(self, p: P) -> None:\n", ["B2"]),
    ("check-exit", "break", ["C20"], PC + "_main.py", "        if lint_warnings > 0:\n            fatal()\n        return", "        if lint_warnings > 1:\n            fatal()\n        return", ["A5"]),
    ("diag-no-line", "break", ["C20", "C08"], PC + "errors.py", 'return f"{self.filepath}:L{self.lineno} {self.token} => {message}"', 'return f"{self.filepath} {self.token} => {message}"', ["B2"]),
    # ---------------- naming / codegen
    ("c-message-keep", "break", ["C15"], PC + "renderer/impls/c/formatter.py", '                EnumField: ("snake", "upper"),\n                Message: "pascal",', '                EnumField: ("snake", "upper"),\n                Message: "keep",', ["C5"]),
    ("py-message-pascal", "break", ["C15"], PC + "renderer/impls/py/formatter.py", '                Constant: "upper",\n                EnumField: ("snake", "upper"),\n            }', '                Constant: "upper",\n                EnumField: ("snake", "upper"),\n                Message: "pascal",\n            }', ["C5"]),
    ("go-field-keep", "break", ["C15"], PC + "renderer/impls/go/formatter.py", '                MessageField: "pascal",\n', "", ["C5"]),
    ("nested-name-order", "break", ["C15", "C10"], PC + "renderer/formatter.py", "items.insert(0, self._get_definition_name(namespace))", "items.append(self._get_definition_name(namespace))", ["C5"]),
    ("out-filename-proto", "break", ["C15", "C10"], PC + "renderer/formatter.py", '        out_filename = out_base_name + "_bp" + extension', '        out_filename = proto.name + "_bp" + extension', ["C5"]),
    ("children-after-parent", "break", ["C10"], PC + "_ast.py", "            if recursive:  # Child first\n                if isinstance(member, Scope):\n                    scope = cast(Scope, member)\n                    items.extend(scope.filter(t, recursive=recursive))\n            if isinstance(member, t):\n                items.append((name, member))", "            if isinstance(member, t):\n                items.append((name, member))\n            if recursive:\n                if isinstance(member, Scope):\n                    scope = cast(Scope, member)\n                    items.extend(scope.filter(t, recursive=recursive))", ["F2"]),
    ("unbalanced-brace", "break", ["C10"], PC + "renderer/impls/c/renderer_c.py", '    @override(BlockWrapper)\n    def after(self) -> None:\n        self.push("BpJsonFormatMessage(&descriptor, ctx, data);", indent=4)\n        self.push("}")', '    @override(BlockWrapper)\n    def after(self) -> None:\n        self.push("BpJsonFormatMessage(&descriptor, ctx, data);", indent=4)', ["F1"]),
    ("include-proto-name", "break", ["C10"], PC + "renderer/impls/c/formatter.py", "return '#include \"{0}\"'.format(self.format_out_filename(t, extension=\".h\"))", "return '#include \"{0}_bp.h\"'.format(t.name)", ["F7"]),
    ("helper-name-collision", "break", ["C10"], PC + "renderer/impls/c/formatter.py", 'prefix = self.bp_processor_name_prefix()\n        return f"{prefix}Array_{message_name}_{d.number}"', 'prefix = self.bp_processor_name_prefix()\n        return f"{prefix}Array_{message_name}{d.number}"', ["F6"]),
    ("tojson-default-dropped", "break", ["C16"], BP, "            default=json_default,\n", "", ["C8"]),

    # ---------------- variants distilled from the independently seeded changes (see /verif/seeded)
    ("seed-msg-size-ignores-prefix", "break", ["C08"], PC + "_ast.py", "        if self.nbits() > 65535:\n            raise MessageSizeOverflows.from_token(token=self)", "        nbits = sum(field.type.nbits() for field in self.fields())\n        if nbits > 65535:\n            raise MessageSizeOverflows.from_token(token=self)", ["C1"]),
    ("seed-dup-import-string", "break", ["C08"], PC + "parser.py", "if os.path.samefile(proto.filepath, filepath):", "if proto.filepath == filepath:", ["C1"]),
    ("seed-cycle-check-string", "break", ["C09", "C08"], PC + "parser.py", "        for filepath_ in self.filepath_stack:\n            if os.path.samefile(filepath, filepath_):\n                return True\n        return False", "        return filepath in self.filepath_stack", ["C1"]),
    ("seed-py-aligned-fast-path", "break", ["C01", "C07"], BP, "        process_single_byte(ctx, di, accessor, j, c)\n        ctx.i += c", "        if ctx.is_encode and ctx.i % 8 == 0 and j % 8 == 0:\n            ctx.s[ctx.i >> 3] = accessor.bp_get_byte(di, j)\n        else:\n            process_single_byte(ctx, di, accessor, j, c)\n        ctx.i += c", ["D1"]),
    ("seed-int-sign-skipped", "break", ["C02"], BP, "        if ctx.is_encode:\n            return\n\n        accessor.bp_process_int(di)", "        if ctx.is_encode or self.nbits % 8 == 0:\n            return\n\n        accessor.bp_process_int(di)", ["D7"]),
    ("seed-array-default-shared", "break", ["C02"], PC + "renderer/impls/py/formatter.py", '        return f"[{element_default_value} for _ in range({cap})]"', '        if not isinstance(t.element_type, (Message, Array)):\n            return f"[{element_default_value}] * {cap}"\n        return f"[{element_default_value} for _ in range({cap})]"', ["D6"]),
    ("seed-enum-default-by-number", "break", ["C10"], PC + "renderer/impls/py/formatter.py", 'return f"{self.format_type(t)}.{self.format_enum_field_name(t.fields()[0])}"', 'return f"{self.format_type(t)}(0)"', ["F8"]),
    ("seed-batch-alias-of-array", "break", ["C03", "C14"], CC, "        (BpIsBaseIntegerType(flag) || BpIsBaseIntegerType(to_flag))", "        (BpIsBaseIntegerType(flag) || to_flag != 0)", ["EC2"]),
    ("seed-py-relative-skip", "break", ["C05"], BP, "            ito = i + ahead\n            if ito >= ctx.i:\n                ctx.i = ito", "            if ahead > self.nbits:\n                ctx.i += ahead - self.nbits", ["D3"]),
    ("seed-c-array-static-width", "break", ["C05"], CC, "int nbits_per_element = (ctx->i - i - 16) / descriptor->cap;", "int nbits_per_element = element_nbits;", ["EC3"]),
    ("seed-opmode-unmasked", "break", ["C07", "C04"], PC + "renderer/impls/c/formatter.py", '        return f"s[{si}] {assign} (((unsigned char *)&({chain}))[{fi}] {shift_s}) & {mask};"', '        byte = f"((unsigned char *)&({chain}))[{fi}]"\n        if r == 0 and shift == 0:\n            return f"s[{si}] = {byte};"\n        return f"s[{si}] {assign} ({byte} {shift_s}) & {mask};"', ["D2"]),
    ("seed-c-16bit-path-widened", "break", ["C07", "C03", "C14"], CC, "} else if (bits >= 16) {", "} else if (bits > 8) {", ["EC1"]),
    ("seed-prefix-from-importer", "break", ["C10", "C15"], PC + "renderer/formatter.py", "            bound = d_.bound\n", "            bound = cast_or_raise(Proto, d.scope_stack[0])\n", ["C5"]),
    ("helper-array-prefix-collision", "break", ["C10"], PC + "renderer/impls/c/formatter.py", 'prefix = self.bp_processor_name_prefix()\n        return f"{prefix}Array_{alias_name}"', 'prefix = self.bp_processor_name_prefix()\n        return f"{prefix}Array{alias_name}"', ["F6b"]),
    ("enum-class-no-pass", "break", ["C10"], PC + "renderer/impls/py/renderer.py", '        if not self.d.fields():\n            # Python requires a class body, even for an enum without any field.\n            self.push("pass", indent=4)\n', "", ["F8"]),

    # =================================================================== benign twins
    ("benign-nbytes-idiom", "benign", ["C01", "C07"], PC + "_ast.py", "        if nbits % 8 == 0:\n            return int(nbits / 8)\n        return int(nbits / 8) + 1", "        return (nbits + 7) // 8", []),
    ("benign-py-mask-oneline", "benign", ["C01", "C02", "C14", "C19"], BP, "    if k == 0:\n        return (1 << c) - 1\n    return (1 << ((k + 1 + c) - 1)) - (1 << ((k + 1) - 1))", "    return ((1 << c) - 1) << k", []),
    ("benign-py-shift-ops", "benign", ["C01", "C02", "C14"], BP, "    rshift = int(j / 8) * 8\n    b = accessor.bp_get_byte(di, rshift)\n    shift = (j % 8) - (ctx.i % 8)\n    mask = get_mask(ctx.i % 8, c)", "    rshift = (j >> 3) << 3\n    b = accessor.bp_get_byte(di, rshift)\n    shift = (j & 7) - (ctx.i & 7)\n    mask = get_mask(ctx.i & 7, c)", []),
    ("benign-py-min-order", "benign", ["C01", "C14", "C19"], BP, "return min(n - j, 8 - (j % 8), 8 - (i % 8))", "return min(8 - (i % 8), min(8 - (j % 8), n - j))", []),
    ("benign-skip-guard-gt", "benign", ["C05", "C02"], BP, "                ito = i + 16 + ahead * element_nbits\n                if ito >= ctx.i:", "                ito = i + 16 + ahead * element_nbits\n                if ito > ctx.i:", []),
    ("benign-lookup-reversed", "benign", ["C11", "C08"], PC + "parser.py", "for scope in self.scope_stack_in_current_proto()[::-1]:", "for scope in reversed(self.scope_stack_in_current_proto()):", []),
    ("benign-uint-bounds", "benign", ["C08"], PC + "_ast.py", "        if not (0 < self.cap <= 64):\n            raise InvalidUintCap", "        if self.cap < 1 or self.cap > 64:\n            raise InvalidUintCap", []),
    ("benign-array-cap-le", "benign", ["C08"], PC + "_ast.py", "if not (0 < self.cap < 65536):", "if not (1 <= self.cap <= 65535):", []),
    ("benign-fields-branch-list", "benign", ["C01", "C02", "C12"], PC + "renderer/impls/py/renderer.py", "            BlockMessageMethodGetByteItem(field, indent=self.indent)\n            for field in self.d.sorted_fields()", "            BlockMessageMethodGetByteItem(field, indent=self.indent)\n            for field in self.d.fields()", []),
    ("benign-sign-skip-drop-64", "benign", ["C02", "C14"], PC + "renderer/impls/py/renderer.py", "        if n in {8, 16, 32, 64}:\n            # Although python", "        if n in {8, 16, 32}:\n            # Although python", []),
    ("benign-go-table-enum-pascal", "benign", ["C15"], PC + "renderer/impls/go/formatter.py", '                Alias: "pascal",\n                Constant: "upper",', '                Alias: "pascal",\n                Enum: "pascal",\n                Constant: "upper",', []),
    ("benign-comment-added", "benign", ["C08", "C09", "C13", "C20"], PC + "parser.py", "    def p_start(self, p: P) -> None:\n        p[0] = p[2]", "    def p_start(self, p: P) -> None:\n        # the global scope is the value of the start symbol\n\n        p[0] = p[2]", []),
    ("benign-c-comment", "benign", ["C03", "C06", "C14"], CC, "        // c is the number of bits to copy in this iteration.\n        int c = 0;", "        // chunk size of this iteration\n        // (set on every path below)\n        int c = 0;", []),
    ("benign-c-copier-threshold-form", "benign", ["C03", "C07", "C14"], CC, "if (bits >= 32) {", "if (bits > 31) {", []),
    ("benign-local-rename", "benign", ["C01", "C02"], BP, "    b = ctx.s[int(ctx.i / 8)]\n    shift = (ctx.i % 8) - (j % 8)\n    mask = get_mask(j % 8, c)\n    # Shift and then take mask to get bits to copy.\n    d = smart_shift(b, shift) & mask", "    byte_ = ctx.s[int(ctx.i / 8)]\n    delta = (ctx.i % 8) - (j % 8)\n    m = get_mask(j % 8, c)\n    d = smart_shift(byte_, delta) & m", []),
    ("be-decoder-no-memset", "break", ["C06"], PC + "renderer/impls/c/renderer_c.py", '            self.push("memset(m, 0, sizeof(*m));", indent=4)\n', "", ["F5"]),
    ("benign-sorted-attrgetter", "benign", ["C01", "C12"], PC + "_ast.py", "return sorted(self.fields(), key=lambda field: field.number)", "return sorted(self.fields(), key=lambda f: (f.number, 0))", []),
    ("benign-go-min-le", "benign", ["C19", "C14"], GO, "\tif a < b {\n\t\treturn a\n\n\t}\n\treturn b", "\tif a <= b {\n\t\treturn a\n\t}\n\treturn b", []),
]


def apply_variant(v: Tuple[str, str, List[str], str, str, str, List[str]], root: str) -> Optional[Repo]:
    vid, kind, props, rel, old, new, expect = v
    base = Repo(root)
    src = base.src(rel)
    if src.count(old) != 1:
        return None
    return Repo(root, overlay={rel: src.replace(old, new)})


def run_variant(args: Tuple[int, str, List[str]]) -> Dict[str, Any]:
    idx, root, only_props = args
    from . import registry  # noqa: F401
    from .core import all_rules
    from .props import PROPS

    v = V[idx]
    vid, kind, props, rel, old, new, expect = v
    out: Dict[str, Any] = {"id": vid, "kind": kind, "file": rel}
    try:
        repo = apply_variant(v, root)
        if repo is None:
            out["status"] = "STALE"  # the text to edit is not there (any more): variant needs maintenance
            return out
        rules = all_rules()
        rule_ids: List[str] = []
        for p in props:
            if only_props and p not in only_props:
                continue
            for r, _ in PROPS[p].rules:
                if r not in rule_ids:
                    rule_ids.append(r)
        reported = []
        unsure = []
        for r in rule_ids:
            res = rules[r](repo)
            if res.findings:
                reported.append(r)
            if res.inconclusive:
                unsure.append(r)
        out["reported_by"] = reported
        out["inconclusive_in"] = unsure
        if kind == "break":
            hit = [r for r in reported if (not expect or r in expect)]
            out["status"] = "DETECTED" if hit else ("INCONCLUSIVE-ONLY" if unsure else "MISSED")
        else:
            # baseline findings (known) are subtracted
            base_repo = Repo(root)
            base_reported = [r for r in rule_ids if rules[r](base_repo).findings]
            extra = [r for r in reported if r not in base_reported]
            base_unsure = [r for r in rule_ids if rules[r](base_repo).inconclusive]
            extra_u = [r for r in unsure if r not in base_unsure]
            out["status"] = "SILENT" if not extra and not extra_u else ("FALSE-ALARM" if extra else "INCONCLUSIVE")
            out["reported_by"] = extra
            out["inconclusive_in"] = extra_u
    except Exception as e:  # pragma: no cover
        out["status"] = "ERROR"
        out["error"] = repr(e)
    return out


def run_all(root: str, only_props: Optional[List[str]] = None, jobs: int = 16) -> List[Dict[str, Any]]:
    idxs = [i for i, v in enumerate(V) if not only_props or set(v[2]) & set(only_props)]
    with cf.ProcessPoolExecutor(max_workers=min(jobs, max(1, len(idxs)))) as ex:
        return list(ex.map(run_variant, [(i, root, only_props or []) for i in idxs]))


def run_for_property(repo: Repo, spec: PropSpec) -> Dict[str, Any]:
    results = run_all(str(repo.root), [spec.pid])
    bad = [r for r in results if r["status"] in ("MISSED", "FALSE-ALARM", "ERROR", "INCONCLUSIVE-ONLY", "INCONCLUSIVE", "STALE")]
    for r in results:
        print(f"SELFTEST-{r['status']} {r['id']} ({r['kind']}) reported_by={r.get('reported_by')} inconclusive_in={r.get('inconclusive_in')}")
    info: Dict[str, Any] = {
        "selftest": {
            "variants": len(results),
            "breaking_detected": sum(1 for r in results if r["status"] == "DETECTED"),
            "benign_silent": sum(1 for r in results if r["status"] == "SILENT"),
            "problems": bad,
        }
    }
    if bad:
        info["inconclusive"] = [f"selftest: variant {r['id']} -> {r['status']} (the checker, not bitproto, is at fault)" for r in bad]
    return info


if __name__ == "__main__":
    root = sys.argv[1] if len(sys.argv) > 1 else os.environ.get("VERIF_REPO", "/repo")
    res = run_all(root)
    from collections import Counter

    for r in res:
        print(f"SELFTEST-{r['status']:<18} {r['id']:<34} {r['kind']:<7} reported_by={r.get('reported_by')} unsure={r.get('inconclusive_in')} {r.get('error','')}")
    print(Counter(r["status"] for r in res))
    sys.exit(0 if all(r["status"] in ("DETECTED", "SILENT") for r in res) else 2)
