"""
F3 layout non-interference, F1 balance, F2 children first, F6 helper-name
injectivity, F7 file-name agreement.
"""

from __future__ import annotations

import ast
import re
from typing import Any, Dict, List, Optional, Set, Tuple

from .core import Finding, Inconclusive, Repo, RuleResult, rule, short, src_of
from .grammar import PARSER, get_grammar
from .pymodel import get_model
from .rules_b import _fstring_shape

NON_LAYOUT_ATTRS = {"name", "token", "comment_block", "lineno", "indent", "filepath", "token_col_start", "token_col_end", "scope_start_lineno", "scope_start_col", "scope_end_lineno", "scope_end_col", "references"}

# functions whose result is (part of) the wire layout
LAYOUT_FUNCS = [
    ("_ast.py", q) for q in (
        "Type.nbytes", "Bool.nbits", "Byte.nbits", "Uint.nbits", "Int.nbits", "Array.nbits", "Array.ahead_nbits", "Alias.nbits", "Enum.nbits",
        "Message.nbits", "Message.ahead_nbits", "Message.nfields", "Message.fields", "Message.sorted_fields", "Message.number_to_field_sorted",
    )
] + [
    ("renderer/formatter.py", q) for q in (
        "Formatter.get_nbits_of_integer", "Formatter.op_mode_get_mask", "Formatter.format_op_mode_encode_single_byte", "Formatter.format_op_mode_decode_single_byte",
        "Formatter.format_op_mode_endecode_single_type", "Formatter.format_op_mode_endecode_message_field", "Formatter.format_op_mode_endecode_array",
        "Formatter.format_op_mode_endecode_alias", "Formatter.format_op_mode_smart_shift",
    )
] + [
    ("impls/py/formatter.py", q) for q in ("PyFormatter.format_processor", "PyFormatter.format_processor_int", "PyFormatter.format_processor_uint", "PyFormatter.format_processor_array")
] + [
    ("impls/go/formatter.py", q) for q in ("GoFormatter.format_processor_int", "GoFormatter.format_processor_uint", "GoFormatter.format_processor_array")
] + [
    ("impls/c/formatter.py", q) for q in ("CFormatter.format_bp_int", "CFormatter.format_bp_uint", "CFormatter.format_bp_array_descriptor", "CFormatter.format_bp_message_descriptor")
]


@rule("F3", "layout-bearing computations read only layout attributes (numbers, widths, capacities, extensible flags, types), never names, comments or positions")
def f3(repo: Repo) -> RuleResult:
    res = RuleResult("F3", floor=25)
    m = get_model(repo)
    for relsfx, qual in LAYOUT_FUNCS:
        try:
            fi = m.func(relsfx, qual)
        except Inconclusive as e:
            res.unsure(f"F3: {e}")
            continue
        reads = sorted({n.attr for n in ast.walk(fi.node) if isinstance(n, ast.Attribute) and isinstance(n.ctx, ast.Load) and n.attr in NON_LAYOUT_ATTRS and not isinstance(getattr(n, "_parent", None), ast.Call)})
        calls_opt = [src_of(n) for n in ast.walk(fi.node) if isinstance(n, ast.Call) and isinstance(n.func, ast.Attribute) and n.func.attr.startswith("get_option")]
        res.inst(function=qual, non_layout_reads=reads, option_reads=calls_opt)
        if reads:
            res.bad(Finding("F3", fi.rel, fi.node.lineno, qual, str(reads), f"a layout-bearing computation reads {reads}: renaming / re-commenting / moving a definition could change the encoded bytes", witness="rename a field or a message and compare the encodings", tag=f"{qual}:reads"))
        if calls_opt and qual != "Message.nbits":
            res.bad(Finding("F3", fi.rel, fi.node.lineno, qual, str(calls_opt), "a layout-bearing computation depends on an option value", witness="setting c.name_prefix / max_bytes changes the encoded bytes", tag=f"{qual}:options"))
    # sort key only the number
    # comment / newline / semicolon actions build nothing
    g = get_grammar(repo)
    for nt in ("comment", "newline", "optional_semicolon"):
        act = g.action_of(nt)
        if act is None:
            res.unsure(f"F3: action of {nt} vanished")
            continue
        ctor = [src_of(n.func) for n in ast.walk(act.node) if isinstance(n, ast.Call) and isinstance(n.func, ast.Name) and n.func.id[:1].isupper()]
        push = [n for n in ast.walk(act.node) if isinstance(n, ast.Call) and isinstance(n.func, ast.Attribute) and n.func.attr in ("push_member", "push_scope")]
        res.inst(function=f"Parser.{act.name}", constructs=ctor, pushes=len(push))
        if ctor or push:
            res.bad(Finding("F3", PARSER, act.node.lineno, f"Parser.{act.name}", str(ctor), f"the action of `{nt}` constructs or pushes a definition: comments / blank lines / semicolons would change the schema", tag=f"{act.name}:builds"))
    return res


# --------------------------------------------------------------------------
# F1 balance
# --------------------------------------------------------------------------

PAIRS = [("{", "}"), ("(", ")"), ("[", "]")]


def _lit_text(e: ast.AST) -> str:
    """Literal pieces of a pushed string (holes dropped)."""
    if isinstance(e, ast.Constant) and isinstance(e.value, str):
        return e.value
    if isinstance(e, ast.JoinedStr):
        return "".join(v.value for v in e.values if isinstance(v, ast.Constant) and isinstance(v.value, str))
    if isinstance(e, ast.BinOp) and isinstance(e.op, ast.Add):
        return _lit_text(e.left) + _lit_text(e.right)
    return ""


def _strip_quoted(s: str) -> str:
    # brackets inside string/char literals or comments of the target language do not count
    s = re.sub(r'"(\\.|[^"\\])*"', '""', s)
    s = re.sub(r"'(\\.|[^'\\])*'", "''", s)
    s = re.sub(r"//.*$|#(?!\s*(if|ifdef|ifndef|endif|else|define|include)).*$", "", s)
    return s


def _vec(text: str, is_c: bool) -> Tuple[int, ...]:
    t = _strip_quoted(text) if True else text
    v = [t.count(a) - t.count(b) for a, b in PAIRS]
    ifs = len(re.findall(r"^\s*#\s*(if|ifdef|ifndef)\b", text, re.M)) - len(re.findall(r"^\s*#\s*endif\b", text, re.M))
    v.append(ifs)
    return tuple(v)


def _paths(stmts: List[ast.stmt], is_c: bool) -> Set[Tuple[int, ...]]:
    """Possible bracket-count vectors of the pushes along the paths of stmts."""
    zero = (0, 0, 0, 0)
    cur: Set[Tuple[int, ...]] = {zero}

    def add(a: Tuple[int, ...], b: Tuple[int, ...]) -> Tuple[int, ...]:
        return tuple(x + y for x, y in zip(a, b))

    for st in stmts:
        if isinstance(st, ast.Expr) and isinstance(st.value, ast.Call) and isinstance(st.value.func, ast.Attribute) and st.value.func.attr in ("push", "push_string", "push_comment") and st.value.args:
            if st.value.func.attr == "push_comment":
                continue
            v = _vec(_lit_text(st.value.args[0]), is_c)
            cur = {add(c, v) for c in cur}
        elif isinstance(st, ast.If):
            a = _paths(st.body, is_c)
            b = _paths(st.orelse, is_c) if st.orelse else {zero}
            cur = {add(c, x) for c in cur for x in (a | b)}
        elif isinstance(st, (ast.For, ast.While, ast.With, ast.Try)):
            inner = _paths(st.body, is_c)
            # pushes of holes only inside loops are neutral; literal brackets in a loop must be balanced per iteration
            if inner != {zero}:
                cur = {add(c, x) for c in cur for x in inner}
        if len(cur) > 64:
            break
    return cur


@rule("F1", "per block class, the brackets and #if/#endif it pushes balance on every path")
def f1(repo: Repo) -> RuleResult:
    from .emit import FORMATTERS, block_flow
    from .normal import V as _V
    from .normal import show as _show
    from .pyflow import tpl_shape

    res = RuleResult("F1", floor=60)
    m = get_model(repo)
    block = m.cls("Block", "renderer/block.py")
    zero = (0, 0, 0, 0)

    def add(a: Tuple[int, ...], b: Tuple[int, ...]) -> Tuple[int, ...]:
        return tuple(x + y for x, y in zip(a, b))

    def path_vec(p_: Any, is_c: bool) -> Tuple[int, ...]:
        v = zero
        for e in p_.effects:
            if e.kind == "call" and e.name in ("push", "push_string") and e.args:
                t = tpl_shape(e.args[0], lambda x: "")  # holes are other blocks' / formatters' business
                if t is not None:
                    v = add(v, _vec(t, is_c))
            elif e.kind == "loop":
                # literal brackets inside a loop must balance per iteration; an unbalanced body counts once
                for sp in e.sub or []:
                    sv = path_vec(sp, is_c)
                    if sv != zero:
                        v = add(v, sv)
        return v

    for mod in m.mods.values():
        if "/renderer/impls/" not in mod.rel:
            continue
        relsfx = mod.rel.split("/renderer/")[-1]
        if relsfx not in FORMATTERS:
            continue
        fcn, frel = FORMATTERS[relsfx]
        is_c = "/impls/c/" in mod.rel
        part = "c" if is_c else ("go" if "/impls/go/" in mod.rel else "py")
        fkeep = tuple(sorted({n for k_ in m.mro(m.cls(fcn, frel)) for n in k_.methods if n.startswith(("format_", "formart_"))}))
        for c in mod.classes.values():
            if not m.is_subclass(c, block):
                continue
            meths = [(meth, m.lookup(c, meth)) for meth in ("before", "render", "render_enum_type", "after", "defer")]
            meths = [(n_, f_) for n_, f_ in meths if f_ is not None and f_.cls is not None and "/renderer/impls/" in f_.cls.rel]
            if not any(n_ in ("before", "render", "after", "defer") for n_, _ in meths):
                continue
            # (guards, vector) per path and method; paths of different methods combine when their conditions agree
            combos: List[Tuple[Dict[str, bool], Tuple[int, ...]]] = [({}, zero)]
            try:
                flow = block_flow(repo, c.name, relsfx, fcn, frel, {}, keep=fkeep)
                for n_, f_ in meths:
                    if n_ == "render_enum_type" and any(isinstance(x, ast.Call) and isinstance(x.func, ast.Attribute) and x.func.attr == "render_enum_type" for mm_, ff_ in meths if mm_ != n_ for x in ast.walk(ff_.node)):
                        continue  # reached through render
                    ps = [p_ for p_ in flow.run(f_.node, {"self": _V("self")}) if p_.done != "raise"]
                    per = []
                    for p_ in ps:
                        g = {}
                        for k_, t_ in p_.guards:
                            g[str((k_[0],) + tuple(_show(x) if hasattr(x, "terms") else str(x) for x in k_[1:]))] = t_
                        per.append((g, path_vec(p_, is_c)))
                    if len({v_ for _, v_ in per}) <= 1:
                        per = [({}, per[0][1])] if per else []  # the conditions do not matter for the balance
                    nxt = []
                    for g0, v0 in combos:
                        for g1, v1 in per:
                            if any(k_ in g0 and g0[k_] != t_ for k_, t_ in g1.items()):
                                continue
                            gg = dict(g0)
                            gg.update(g1)
                            nxt.append((gg, add(v0, v1)))
                    # keep the table small: one entry per (vector, guards) is enough
                    seen_ = set()
                    combos = []
                    for gg, vv in nxt:
                        key = (tuple(sorted(gg.items())), vv)
                        if key not in seen_:
                            seen_.add(key)
                            combos.append((gg, vv))
                    if len(combos) > 400:
                        raise Inconclusive("too many path combinations")
            except Inconclusive as e:
                res.unsure(f"F1: {c.name}: {e}")
                continue
            total = {vv for _, vv in combos}
            res.inst(part=part, cls=c.name, vectors=sorted(total)[:4])
            if total != {zero}:
                worst = sorted(total, key=lambda v: sum(abs(x) for x in v))[-1]
                names = ["{ }", "( )", "[ ]", "#if/#endif"]
                what = ", ".join(f"{names[i]}: {worst[i]:+d}" for i in range(4) if worst[i])
                fd = Finding("F1", mod.rel, c.node.lineno, c.name, what, f"on some path this block pushes unbalanced brackets ({what})", witness="the generated file does not parse", tag=f"{c.name}:balance")
                fd.part = part
                res.bad(fd)
    # deferred endings close in the reverse order of the openings (include guard around extern "C" ...)
    try:
        bc = m.func("renderer/block.py", "BlockComposition.render")
        fnb = bc.node
        local: Dict[str, ast.AST] = {}
        for n in ast.walk(fnb):
            if isinstance(n, (ast.Assign, ast.AnnAssign)) and n.value is not None:
                for t_ in (n.targets if isinstance(n, ast.Assign) else [n.target]):
                    if isinstance(t_, ast.Name):
                        local.setdefault(t_.id, n.value)

        def iter_of(callee: str) -> Optional[ast.AST]:
            for n in ast.walk(fnb):
                if isinstance(n, ast.For) and any(isinstance(c_, ast.Call) and isinstance(c_.func, ast.Attribute) and c_.func.attr == callee for b_ in n.body for c_ in ast.walk(b_)):
                    return n.iter
                if isinstance(n, (ast.ListComp, ast.GeneratorExp)) and any(isinstance(c_, ast.Call) and isinstance(c_.func, ast.Attribute) and c_.func.attr == callee for c_ in ast.walk(n.elt)):
                    return n.generators[0].iter
            return None

        def source(e: Optional[ast.AST], depth: int = 0) -> Tuple[Optional[str], int, bool]:
            """(source sequence, number of reversals, known)"""
            if e is None or depth > 6:
                return None, 0, False
            if isinstance(e, ast.Name) and e.id in local:
                # a list the render loop fills in visiting order is in that order
                v = local[e.id]
                if isinstance(v, ast.List) and not v.elts:
                    apps = [n for n in ast.walk(fnb) if isinstance(n, ast.Call) and isinstance(n.func, ast.Attribute) and n.func.attr == "append" and isinstance(n.func.value, ast.Name) and n.func.value.id == e.id]
                    lp = [n for n in ast.walk(fnb) if isinstance(n, ast.For) and any(a_ in list(ast.walk(n)) for a_ in apps)]
                    if apps and len(lp) == 1:
                        return source(lp[0].iter, depth + 1)
                    return None, 0, False
                return source(v, depth + 1)
            if isinstance(e, ast.Call) and isinstance(e.func, ast.Name) and e.func.id == "reversed" and len(e.args) == 1:
                s_, r_, k_ = source(e.args[0], depth + 1)
                return s_, r_ + 1, k_
            if isinstance(e, ast.Subscript) and isinstance(e.slice, ast.Slice) and e.slice.lower is None and e.slice.upper is None and e.slice.step is not None and src_of(e.slice.step) == "-1":
                s_, r_, k_ = source(e.value, depth + 1)
                return s_, r_ + 1, k_
            if isinstance(e, ast.Call) and isinstance(e.func, ast.Name) and e.func.id in ("list", "tuple", "iter") and len(e.args) == 1:
                return source(e.args[0], depth + 1)
            if isinstance(e, (ast.ListComp, ast.GeneratorExp)) and len(e.generators) == 1 and isinstance(e.elt, ast.Name) and isinstance(e.generators[0].target, ast.Name) and e.elt.id == e.generators[0].target.id:
                return source(e.generators[0].iter, depth + 1)  # an order-preserving filter
            if isinstance(e, ast.Call) and isinstance(e.func, ast.Name) and e.func.id == "filter" and len(e.args) == 2:
                return source(e.args[1], depth + 1)
            return src_of(e), 0, True

        s1 = source(iter_of("_render_from_block"))
        s2 = source(iter_of("_defer_from_block"))
        res.inst(part="defer-order", render_over=s1[0], defer_over=s2[0], reversals=(s1[1], s2[1]))
        if not (s1[2] and s2[2]) or s1[0] != s2[0]:
            res.unsure("F1: BlockComposition.render: the render loop and the defer loop are not recognised as running over the same blocks")
        elif (s1[1] + s2[1]) % 2 != 1:
            fd = Finding("F1", bc.rel, fnb.lineno, bc.qual, f"render over {s1[0]} (x{s1[1]} reversed), defer over {s2[0]} (x{s2[1]} reversed)", "deferred block endings are not emitted in the reverse order of the blocks' openings: nested wrappers (include guard around extern \"C\") close in the wrong order", witness="a C header included twice from C++: the closing `}` of extern \"C\" lands outside the include guard", tag="BlockComposition.render:defer-order")
            fd.part = "common"
            res.bad(fd)
    except Inconclusive as e:
        res.unsure(f"F1: defer order: {e}")
    return res


# --------------------------------------------------------------------------
# F2 children first
# --------------------------------------------------------------------------


@rule("F2", "definitions are emitted children first, in declaration order, for the bound proto only")
def f2(repo: Repo) -> RuleResult:
    from .normal import V, show
    from .pyflow import PyFlow, single_atom

    res = RuleResult("F2", floor=2)
    m = get_model(repo)
    fl = m.func("_ast.py", "Scope.filter")
    flow = PyFlow(funcs={}, havoc_on=(), pure=("items", "cast"))
    try:
        top = flow.run(fl.node)
    except Inconclusive as e:
        top = []
        res.unsure(f"F2: Scope.filter: {e}")
    loops = [e for p_ in top for e in p_.effects if e.kind == "loop"]
    res.inst(function="Scope.filter", loops=len({id(e.node) for e in loops}))
    if len({id(e.node) for e in loops}) != 1 or "self.members" not in show(loops[0].args[0]):
        res.unsure("F2: Scope.filter is not a single loop over self.members")
    else:
        lp = loops[0]
        ret_list = [p_.ret for p_ in top if p_.done == "return" and p_.ret is not None]
        seen_both = False
        for sp in lp.sub or []:
            # the case of interest: recursion requested, the member is a scope and matches the type
            lits = {(k[0], show(k[1]) if len(k) > 1 and hasattr(k[1], "terms") else "", tuple(k[2]) if k[0] == "isinstance" else None): t for k, t in sp.guards}
            rec = lits.get(("truthy", "recursive", None))
            grow = [e for e in sp.effects if e.kind == "call" and e.name in ("extend", "append", "insert")]
            desc = [e for e in grow if e.name == "extend" and e.args and single_atom(e.args[0]) is not None and single_atom(e.args[0])[0] == "mcall" and single_atom(e.args[0])[1] == "filter"]
            own = [e for e in grow if e.name in ("append", "insert") and e.args and single_atom(e.args[-1]) is not None and single_atom(e.args[-1])[0] == "tuple" and len(single_atom(e.args[-1])[1]) == 2]
            if rec is False and desc:
                res.bad(Finding("F2", fl.rel, fl.node.lineno, "Scope.filter", "", "nested scopes are descended although recursive is false", tag="filter:descend"))
            if desc and own:
                seen_both = True
                if grow.index(desc[0]) > grow.index(own[0]):
                    res.bad(Finding("F2", fl.rel, fl.node.lineno, "Scope.filter", "", "a scope is emitted before the definitions nested in it: C structs / Python classes refer to nested types that are declared later", witness="message Outer { message Inner {} Inner i = 1 }", tag="filter:order"))
                a_ = single_atom(desc[0].args[0])
                args_ = [show(x) for x in a_[2][1:]]
                if not args_ or args_[0] != "t" or not any(x in ("recursive=recursive", "recursive=1", "recursive") for x in args_[1:]):
                    res.bad(Finding("F2", fl.rel, fl.node.lineno, "Scope.filter", str(args_), "nested scopes are not descended with the same type filter", tag="filter:descend"))
            for e in own:
                if e.name == "insert":
                    res.bad(Finding("F2", fl.rel, fl.node.lineno, "Scope.filter", repr(e), "matching members are not appended in iteration (declaration) order", tag="filter:append"))
        if not seen_both:
            if any(e.kind == "call" and e.name in ("append", "insert") for sp in lp.sub or [] for e in sp.effects):
                res.bad(Finding("F2", fl.rel, fl.node.lineno, "Scope.filter", "", "nested scopes are not descended with the same type filter (no path both descends into a scope and emits it)", tag="filter:descend"))
            else:
                res.unsure("F2: Scope.filter: recursive / own-member steps not recognised")
    # dispatcher: walk of the bound proto's definitions, dispatch of each, order kept
    dp = m.func("renderer/block.py", "BlockBoundDefinitionDispatcher.blocks")
    res.inst(function=dp.qual)
    try:
        dflow = PyFlow(funcs={}, havoc_on=(), pure=("filter",))
        paths = [p_ for p_ in dflow.run(dp.node) if p_.done == "return"]
        walk_ok = disp_ok = False
        reorder = None
        for p_ in paths:
            for e in p_.effects:
                if e.kind != "loop":
                    continue
                it = single_atom(e.args[0]) if e.args else None
                if it is not None and it[0] == "mcall" and it[1] == "filter":
                    args_ = [show(x) for x in it[2]]
                    if args_[:2] == ["self.bound", "BoundDefinition"] and "recursive=1" in args_ and "bound=self.bound" in args_:
                        walk_ok = True
                    for sp in e.sub or []:
                        for c_ in sp.effects:
                            if c_.kind == "call" and c_.name == "dispatch" and c_.args and show(c_.args[0]) == "d":
                                disp_ok = True
                            if c_.kind == "call" and c_.name == "insert":
                                reorder = repr(c_)
            txt = show(p_.ret) if p_.ret is not None else ""
            for w in ("reversed(", "sorted(", "[::-1]"):
                if w in txt or any(w in repr(e) for e in p_.effects):
                    reorder = w
        if not walk_ok:
            if any(e.kind == "loop" for p_ in paths for e in p_.effects):
                res.bad(Finding("F2", dp.rel, dp.node.lineno, dp.qual, "", "the dispatcher does not walk the bound proto's definitions recursively, restricted to that proto", witness="nested messages are not generated / imported definitions are generated twice", tag="dispatcher:filter"))
            else:
                res.unsure(f"F2: {dp.qual}: no iteration found")
        elif not disp_ok or reorder is not None:
            res.bad(Finding("F2", dp.rel, dp.node.lineno, dp.qual, reorder or "", "dispatched blocks are not collected in walk order", tag="dispatcher:collect"))
    except Inconclusive as e:
        res.unsure(f"F2: {dp.qual}: {e}")
    return res


# --------------------------------------------------------------------------
# F6 helper-name injectivity / F7 file-name agreement
# --------------------------------------------------------------------------


def c_name_templates(repo: Repo) -> List[Tuple[str, list]]:
    """(method, segments) for every text a CFormatter helper-name method can return, from the path
    engine: segments are ('lit', text) | ('name', provenance) | ('num', provenance); private helpers and
    the constant prefixes are seen through, `format_*` calls stay holes."""
    from .emit import formatter_returns

    m = get_model(repo)
    cf = m.cls("CFormatter", "impls/c/formatter.py")
    out: List[Tuple[str, list]] = []
    for name in sorted(cf.methods):
        if not (name.startswith("format_bp_") and name.endswith(("_name", "_name_from_message_field", "_name_from_alias", "_initer"))):
            continue
        for text in formatter_returns(repo, "impls/c/formatter.py", "CFormatter", name, braces=True, inline=lambda n_: n_.startswith(("format_bp_", "bp_")) or not n_.startswith("format_")):
            segs: list = []
            i = 0
            while i < len(text):
                if text[i] == "{":
                    depth, j = 1, i + 1
                    while j < len(text) and depth:
                        depth += {"{": 1, "}": -1}.get(text[j], 0)
                        j += 1
                    hole = text[i + 1 : j - 1]
                    segs.append(("num" if hole.endswith(".number") or "number" in hole.split(".")[-1] else "name", hole))
                    i = j
                else:
                    j = text.find("{", i)
                    j = len(text) if j < 0 else j
                    segs.append(("lit", text[i:j]))
                    i = j
            if (name, segs) not in out:
                out.append((name, segs))
    return out


@rule("F6", "internal helper-name templates are uniquely decodable: adjacent variable parts are separated")
def f6(repo: Repo) -> RuleResult:
    res = RuleResult("F6", floor=4)
    m = get_model(repo)
    cf = m.cls("CFormatter", "impls/c/formatter.py")
    try:
        templates = c_name_templates(repo)
    except Inconclusive as e:
        res.unsure(f"F6: {e}")
        return res
    for name, segs in templates:
        f = cf.methods[name]
        shape = "".join(v if k == "lit" else "{" + v + "}" for k, v in segs)
        holes = [(segs[i][1], segs[i + 1][1]) for i in range(len(segs) - 1) if segs[i][0] != "lit" and segs[i + 1][0] != "lit"]
        res.inst(function=f"CFormatter.{name}", template=shape, adjacent=holes)
        for a, b in holes:
            # a name followed directly by a number or another name: names may end in digits
            res.bad(Finding("F6", f.rel, f.node.lineno, f"CFormatter.{name}", shape, f"`{a}` and `{b}` are concatenated without a separator: two different (name, number) pairs can give the same C function name", witness="message M1 { byte[2] a = 1 } and message M { byte[2] a = 11 }", tag=f"{name}:adjacent"))
    # Python / Go: per-definition helper functions are named with the definition's generated name as it is;
    # a case conversion on top of it is not injective (Link_State and LinkState both give link_state)
    from .emit import formatter_returns as _fr

    for cls_, rel_ in (("PyFormatter", "impls/py/formatter.py"), ("GoFormatter", "impls/go/formatter.py")):
        c_ = m.cls(cls_, rel_)
        for name in sorted({n_ for k_ in m.mro(c_) for n_ in k_.methods}):
            if not (name.startswith("format_processor_name") or name in ("formart_default_factory_alias", "formart_default_factory_message")):
                continue
            fdef = m.lookup(c_, name)
            if fdef is None or "raise NotImplementedError" in src_of(fdef.node):
                continue
            try:
                texts = _fr(repo, rel_, cls_, name, braces=True, inline=lambda x: not x.startswith("format_") or x in ("format_name_related_to_definition", "format_processor_name"))
            except Inconclusive:
                continue  # not a name template (returns another formatter's text)
            for t_ in texts:
                holes = re.findall(r"\{((?:[^{}]|\{[^{}]*\})*)\}", t_)
                conv = [h_ for h_ in holes if re.match(r"(snake_case|upper_case|pascal_case|keep_case)\(", h_) or re.search(r"\.(lower|upper|title|capitalize|casefold)\(\)$", h_)]
                res.inst(function=f"{cls_}.{name}", template=t_[:160], converted=conv)
                for h_ in conv:
                    if "format_definition_name" in h_ or "_name(" in h_:
                        res.bad(Finding("F6", fdef.rel, fdef.node.lineno, f"{cls_}.{name}", t_[:200], f"the helper function's name applies `{h_.split('(')[0] if '(' in h_.split('.')[0] else h_.rsplit('.', 1)[-1]}` to the definition's generated name: two different definitions (a nested Link.State, flattened to Link_State, and a top-level LinkState) get the same function name and the later definition silently replaces the earlier", witness="message Link { enum State : uint2 {} }  enum LinkState : uint8 {}", tag=f"{name}:converted-name"))
    return res


def _segments(shape: str) -> list:
    """f-string shape -> [('lit', text) | ('hole', expr)]"""
    out = []
    i = 0
    while i < len(shape):
        if shape[i] == "{":
            j = shape.index("}", i)
            out.append(("hole", shape[i + 1 : j]))
            i = j + 1
        else:
            j = shape.find("{", i)
            j = len(shape) if j < 0 else j
            out.append(("lit", shape[i:j]))
            i = j
    return out


@rule("F6b", "helper-name templates of one C namespace have pairwise disjoint languages")
def f6b(repo: Repo) -> RuleResult:
    res = RuleResult("F6b", floor=6)
    m = get_model(repo)
    cf = m.cls("CFormatter", "impls/c/formatter.py")
    try:
        raw = c_name_templates(repo)
    except Inconclusive as e:
        res.unsure(f"F6b: {e}")
        return res
    templates = []
    for name, segs in raw:
        merged: list = []
        for sg in segs:
            if merged and sg[0] == "lit" and merged[-1][0] == "lit":
                merged[-1] = ("lit", merged[-1][1] + sg[1])
            else:
                merged.append(sg)
        if (name, merged) not in templates:
            templates.append((name, merged))
    res.note("templates: " + "; ".join(f"{n}: {''.join(v if k == 'lit' else '<' + k + '>' for k, v in t)}" for n, t in templates))
    NAME_ALPHA = re.compile(r"^[A-Za-z0-9]*$")  # C definition names are pascal cased: no underscore

    def ambiguous(a: list, b: list) -> Optional[str]:
        """A name hole can swallow any pascal-alphabet literal that follows in the other template."""
        i = j = 0
        a, b = list(a), list(b)
        while i < len(a) and j < len(b):
            ka, va = a[i]
            kb, vb = b[j]
            if ka == "lit" and kb == "lit":
                n = min(len(va), len(vb))
                if va[:n] != vb[:n]:
                    return None
                if len(va) == len(vb):
                    i += 1
                    j += 1
                elif len(va) > len(vb):
                    a[i] = ("lit", va[n:])
                    j += 1
                else:
                    b[j] = ("lit", vb[n:])
                    i += 1
            elif ka == "name" and kb == "lit":
                return f"the name can begin with the literal `{vb}`" if NAME_ALPHA.match(vb) else None
            elif kb == "name" and ka == "lit":
                return f"the name can begin with the literal `{va}`" if NAME_ALPHA.match(va) else None
            elif ka == "name" and kb == "name":
                i += 1
                j += 1
            else:
                return None
        if i == len(a) and j == len(b):
            return "same shape"
        return None

    for x in range(len(templates)):
        for y in range(x + 1, len(templates)):
            (n1, t1), (n2, t2) = templates[x], templates[y]
            if [k for k, _ in t1] == [k for k, _ in t2] and [v for k, v in t1 if k == "lit"] == [v for k, v in t2 if k == "lit"]:
                continue  # identical shapes: messages and aliases share one namespace of definition names
            why = ambiguous(t1, t2)
            res.inst(pair=f"{n1} / {n2}", overlap=why)
            if why and why != "same shape":
                s1 = "".join(v if k == "lit" else "<" + k + ">" for k, v in t1)
                s2 = "".join(v if k == "lit" else "<" + k + ">" for k, v in t2)
                res.bad(Finding("F6b", cf.rel, 0, f"CFormatter.{n1} / {n2}", f"{s1}  vs  {s2}", f"two helper-name templates can produce the same C function name ({why})", witness="type Foo = byte[3] next to message ArrayFoo: BpXXXProcessArrayFoo is defined twice", tag=f"{n1}~{n2}"))
    return res


@rule("F7", "an import/include names the file the compiler generates for the imported schema")
def f7(repo: Repo) -> RuleResult:
    res = RuleResult("F7", floor=3)
    m = get_model(repo)
    for lang, relsfx, cn in (("c", "impls/c/formatter.py", "CFormatter"), ("py", "impls/py/formatter.py", "PyFormatter"), ("go", "impls/go/formatter.py", "GoFormatter")):
        f = m.func(relsfx, f"{cn}.format_import_statement")
        t = src_of(f.node)
        uses_out = "format_out_filename(" in t
        uses_name = "t.name" in t
        res.inst(part=lang, function=f.qual, uses_format_out_filename=uses_out, uses_proto_name=uses_name)
        if lang == "go":
            # Go imports a package path, not a file: only the override option is checked
            if "go.package_path" not in t:
                fd = Finding("F7", f.rel, f.node.lineno, f.qual, "", "the go.package_path option is not honoured", tag="go:import:option")
                fd.part = lang
                res.bad(fd)
            continue
        if uses_name and not uses_out:
            fd = Finding("F7", f.rel, f.node.lineno, f.qual, short(t, 160), "the imported file is named after the *proto* name, while output files are named after the *schema file* (format_out_filename): they differ whenever a file declares another proto name than its base name", witness="shared_file.bitproto declaring `proto shared`, imported by main.bitproto: main_bp.h includes shared_bp.h but shared_file_bp.h is generated", tag=f"{lang}:import:name")
            fd.part = lang
            res.bad(fd)
        elif not uses_out:
            res.unsure(f"F7: {f.qual}: import target not recognised")
        if lang == "py" and "py.module_name" not in t:
            fd = Finding("F7", f.rel, f.node.lineno, f.qual, "", "the py.module_name option is not honoured", tag="py:import:option")
            fd.part = lang
            res.bad(fd)
    # the including side uses format_out_filename of the bound proto for its own header
    inc = m.func("impls/c/renderer_c.py", "BlockInclude.render")
    res.inst(part="c", function=inc.qual)
    from .emit import class_emissions as _ce

    own = [l_ for l_ in _ce(repo, "impls/c/renderer_c.py", named="plain").get("BlockInclude", []) if l_.startswith("#include")]
    res.inst(part="c", function=inc.qual, includes=own)
    if not any(re.fullmatch(r"#include \"self\.formatter\.format_out_filename\(self\.bound, (extension=)?'\.h'\)\"", l_) for l_ in own):
        fd = Finding("F7", inc.rel, inc.node.lineno, inc.qual, "", "the C source does not include its own header by the generated file name", tag="c:own-header")
        fd.part = "c"
        res.bad(fd)
    return res


# --------------------------------------------------------------------------
# F8 Python output: defaults denote existing members; suites are never empty
# --------------------------------------------------------------------------


def _any_guarded(fn: ast.AST, ret_node: Optional[ast.AST]) -> bool:
    """`if any(E for x in I): return [... for x in I if E]`: the filtered list is
    not empty on that branch."""
    if ret_node is None:
        return False
    for n in ast.walk(fn):
        if not (isinstance(n, ast.If) and isinstance(n.test, ast.Call) and isinstance(n.test.func, ast.Name) and n.test.func.id == "any" and len(n.test.args) == 1):
            continue
        g = n.test.args[0]
        if not isinstance(g, (ast.GeneratorExp, ast.ListComp)) or len(g.generators) != 1:
            continue
        inside = any(x is ret_node for b in n.body for x in ast.walk(b))
        if not inside:
            continue
        want_iter, want_if = src_of(g.generators[0].iter), src_of(g.elt).strip("()")
        v = ret_node.value if isinstance(ret_node, ast.Return) else None
        if isinstance(v, ast.Name):
            for b in n.body:
                for x in ast.walk(b):
                    if isinstance(x, (ast.Assign, ast.AnnAssign)) and src_of(x.targets[0] if isinstance(x, ast.Assign) else x.target) == v.id and x.value is not None:
                        v = x.value
        if isinstance(v, ast.ListComp) and len(v.generators) == 1 and src_of(v.generators[0].iter) == want_iter and [src_of(i).strip("()") for i in v.generators[0].ifs] == [want_if]:
            return True
    return False


@rule("F8", "generated Python: an enum default names a declared member; every opened suite gets a statement even for empty collections")
def f8(repo: Repo) -> RuleResult:
    res = RuleResult("F8", floor=2)
    m = get_model(repo)
    pf = m.cls("PyFormatter", "impls/py/formatter.py")
    fe = pf.methods.get("format_default_value_enum")
    if fe is None:
        res.unsure("F8: PyFormatter.format_default_value_enum vanished")
    else:
        from .rules_d3 import _ret_shapes

        try:
            shapes = _ret_shapes(repo, "PyFormatter", "impls/py/formatter.py", "format_default_value_enum", primitives=("format_enum_name", "format_enum_field_name", "format_definition_name", "format_type", "format_enum_type", "format_int_value"))
        except Inconclusive as e:
            shapes = []
            res.unsure(f"F8: {e}")
        for shape in shapes:
            res.inst(function="PyFormatter.format_default_value_enum", template=shape)
            by_member = "format_enum_field_name(" in shape
            by_number = bool(re.search(r"\}\(\s*\d+\s*\)", shape)) or bool(re.search(r"\(\s*\d+\s*\)$", shape)) or bool(re.search(r"\}\(\{self\.format_int_value\(\d+\)\}\)", shape))
            if by_number and not by_member:
                res.bad(Finding("F8", pf.rel, fe.node.lineno, "PyFormatter.format_default_value_enum", shape, "the enum default is constructed from a number (`Enum(0)`): the compiler accepts enums without that value (only the linter warns), for which the generated module raises ValueError at import / instantiation", witness="enum Gear : uint3 { GEAR_ONE = 1 }  message M { Gear g = 1 }  ->  import of the generated module fails", tag="enum-default:by-number"))
            elif not by_member:
                res.unsure(f"F8: enum default template `{shape}` is neither a member reference nor a numeric construction")
    # suites: a wrapper whose before() opens a suite and whose wrapped list can be empty
    from .emit import block_flow, pushed
    from .fold import by_name, lit_value
    from .normal import V
    from .pyflow import single_atom
    from .rules_d3 import _atoms_deep

    pm = m.mod("impls/py/renderer.py")
    wrapper = m.cls("BlockWrapper", "renderer/block.py")
    empty = by_name({}, {"nfields": 0, "fields": 0, "sorted_fields": 0, "len": 0})
    for c in pm.classes.values():
        if not m.is_subclass(c, wrapper):
            continue
        bf = m.lookup(c, "before")
        wr = c.methods.get("wraps")
        if bf is None or wr is None or bf.cls is wrapper:
            continue
        try:
            flow = block_flow(repo, c.name, "impls/py/renderer.py", "PyFormatter", "impls/py/formatter.py", {}, keep=("format_comment", "format_docstring", "format_message_name", "format_enum_name", "format_definition_name"))
            paths = flow.run(bf.node, {"self": V("self")})
        except Inconclusive as e:
            res.unsure(f"F8: {c.name}.before: {e}")
            continue
        open_when_empty = []
        opens_any = None
        for p_ in paths:
            if p_.done == "raise":
                continue
            lines = [t.split("{self.formatter.format_comment(")[0].rstrip() for _, t in pushed(p_)]
            if not lines or not lines[-1].rstrip().endswith(":"):
                continue
            opens_any = lines[-1]
            if all(lit_value(k, t, empty) is not False for k, t in p_.guards):
                open_when_empty.append(lines[-1])
        if opens_any is None:
            continue
        # wrapped class
        wrapped = None
        for n in ast.walk(wr.node):
            if isinstance(n, ast.Return) and isinstance(n.value, ast.Call) and isinstance(n.value.func, ast.Name):
                wrapped = pm.classes.get(n.value.func.id)
        if wrapped is None:
            continue
        bl = m.lookup(wrapped, "blocks")
        nonempty = False
        known = False
        if bl is not None and bl.cls is not None and bl.cls.rel.endswith("impls/py/renderer.py"):
            try:
                bflow = block_flow(repo, wrapped.name, "impls/py/renderer.py", "PyFormatter", "impls/py/formatter.py", {})
                bpaths = [q for q in bflow.run(bl.node, {"self": V("self")}) if q.done == "return" and q.ret is not None]
                known = bool(bpaths)
                nonempty = known
                for q in bpaths:
                    if _any_guarded(bl.node, q.ret_node):
                        continue
                    ra = single_atom(q.ret)
                    if ra is not None and ra[0] == "comp" and any(k_[0] == "truthy" and t_ and k_[1] == ra[3] for k_, t_ in q.guards):
                        continue  # an unfiltered comprehension over an iterable the path knows to be non-empty
                    if any(k_[0] == "truthy" and t_ and k_[1] == q.ret for k_, t_ in q.guards):
                        continue  # the returned list itself was tested non-empty on this path
                    fixed = any(a[0] == "tuple" and len(a[1]) > 0 for a in _atoms_deep(q.ret))
                    grown = any(e.kind == "call" and e.name in ("append", "insert", "extend") and e.recv is not None and e.recv == q.ret for e in q.effects)
                    if not (fixed or grown):
                        nonempty = False
            except Inconclusive:
                known = False
        res.inst(wrapper=c.name, opens=opens_any, wrapped=wrapped.name, never_empty=nonempty, opens_when_empty=bool(open_when_empty))
        if not known:
            continue
        if open_when_empty and not nonempty:
            res.bad(Finding("F8", pm.rel, c.node.lineno, c.name, open_when_empty[-1], f"`{open_when_empty[-1]}` opens a suite whose body is the list of {wrapped.name}; for a definition without members the body is empty and the generated module does not parse", witness="enum E : uint3 {}  ->  `class E(IntEnum):` followed by nothing: IndentationError on import", tag=f"{c.name}:empty-suite"))
    return res


# --------------------------------------------------------------------------
# F9 generated Python: names used by the templates are imported on every path
# --------------------------------------------------------------------------

PY_IMPORTABLE = {
    "typing": {"ClassVar", "Dict", "List", "Union", "Optional", "Tuple", "Any", "Set"},
    "enum": {"IntEnum", "unique", "Enum"},
    "dataclasses": {"dataclass", "field"},
}


@rule("F9", "generated Python: every library name a template uses is imported by the general import block on every path")
def f9(repo: Repo) -> RuleResult:
    from .emit import block_flow, pushed
    from .normal import V

    res = RuleResult("F9", floor=1)
    m = get_model(repo)
    universe = {n for s_ in PY_IMPORTABLE.values() for n in s_}
    used: Dict[str, str] = {}
    for relsfx in ("impls/py/renderer.py", "impls/py/formatter.py"):
        mod = m.mod(relsfx)
        for n in ast.walk(mod.tree):
            if isinstance(n, ast.Constant) and isinstance(n.value, str):
                for mm in re.finditer(r"(?<![\w.])(@?)([A-Za-z_]\w*)(\s*[\[(]|\b)", n.value):
                    name = mm.group(2)
                    if name in universe and (mm.group(1) == "@" or mm.group(3).strip() in ("[", "(") or re.search(r"\(" + name + r"\)", n.value)):
                        used.setdefault(name, f"{mod.rel}:{n.lineno}")
    try:
        c = m.cls("BlockGeneralImports", "impls/py/renderer.py")
        rfn = m.lookup(c, "render")
        if rfn is None:
            raise Inconclusive("BlockGeneralImports.render not found")
        flow = block_flow(repo, "BlockGeneralImports", "impls/py/renderer.py", "PyFormatter", "impls/py/formatter.py", {})
        paths = [p_ for p_ in flow.run(rfn.node, {"self": V("self")}) if p_.done != "raise"]
    except Inconclusive as e:
        res.unsure(f"F9: {e}")
        return res
    res.inst(used=sorted(used), paths=len(paths))
    if len(used) < 4:
        res.unsure(f"F9: only {sorted(used)} found in the Python templates (ClassVar, Dict, List, Union, IntEnum, dataclass, field confirmed by hand)")
    for p_ in paths:
        imported = set()
        for _, t in pushed(p_):
            mm = re.match(r"\s*from\s+([\w.]+)\s+import\s+(.+)$", t)
            if mm:
                imported |= {x.strip().split(" as ")[0] for x in mm.group(2).split(",")}
            mm = re.match(r"\s*import\s+(.+)$", t)
            if mm:
                imported |= {x.strip().split(" as ")[0] for x in mm.group(1).split(",")}
        missing = sorted(n for n in used if n not in imported)
        if missing:
            res.bad(Finding("F9", m.mod("impls/py/renderer.py").rel, c.node.lineno, "BlockGeneralImports.render", f"path under {p_.guard_text()}: imports {sorted(imported & universe)}", f"the generated module uses {missing} (e.g. {used[missing[0]]}) but the import block does not import {'it' if len(missing) == 1 else 'them'} on the path under {p_.guard_text() or ['<always>']}: templates elsewhere emit these names under their own conditions", witness="a file that declares no enum itself but uses an imported enum as a field type: NameError: name 'Union' is not defined on import", tag=f"py-imports:{','.join(missing)}"))
            break
    return res


# --------------------------------------------------------------------------
# F10 generated Python helper functions: defined for every definition they are called for
# --------------------------------------------------------------------------


@rule("F10", "generated Python: a per-definition helper function is defined for every kind of definition whose uses call it")
def f10(repo: Repo) -> RuleResult:
    from .emit import block_flow, class_decider, class_emissions
    from .flows import compiler_flow
    from .normal import V as _V
    from .normal import show as _show
    from .pyflow import single_atom as _sa
    from .rules_a import type_domains
    from .rules_d3 import _atoms_deep

    res = RuleResult("F10", floor=4)
    m = get_model(repo)
    pm = m.mod("impls/py/renderer.py")
    em = class_emissions(repo, "impls/py/renderer.py", named="plain")
    # helper-naming formatter methods and the block classes whose emission defines `def <that name>(`
    definers: Dict[str, List[str]] = {}
    for cn, lines in em.items():
        for l_ in lines:
            mm = re.match(r"\s*def self\.formatter\.(\w+)\(self\.d\)\(", l_)
            if mm:
                definers.setdefault(mm.group(1), []).append(cn)
    res.inst(part="py", definers={k: v for k, v in definers.items()})
    doms = type_domains(repo)
    CASES = (("formart_default_factory_alias", "BlockAlias", "Alias", "AliasTarget"),)
    for namer, owner_block, owner_kind, dom in CASES:
        dcls = definers.get(namer)
        if not dcls:
            res.unsure(f"F10: no block defines `def {namer}(self.d)(`")
            continue
        ob = pm.classes.get(owner_block)
        bl = m.lookup(ob, "blocks") if ob is not None else None
        if bl is None:
            res.unsure(f"F10: {owner_block}.blocks vanished")
            continue
        pf = m.cls("PyFormatter", "impls/py/formatter.py")
        users = [n_ for k_ in m.mro(pf) for n_, f_ in k_.methods.items() if n_ != namer and any(isinstance(c_, ast.Call) and isinstance(c_.func, ast.Attribute) and c_.func.attr == namer for c_ in ast.walk(f_.node))]
        for K in doms[dom]:
            try:
                # (1) is the defining block part of the alias's blocks when the target is a K?
                flow = block_flow(repo, owner_block, "impls/py/renderer.py", "PyFormatter", "impls/py/formatter.py", {"self.d.type": K.name})
                defined = None
                for p_ in flow.run(bl.node, {"self": _V("self")}):
                    if p_.done != "return" or p_.ret is None:
                        continue
                    names = {a_[1] for a_ in _atoms_deep(p_.ret) if a_[0] in ("call", "new")}
                    names |= {(_sa(x) or ("", ""))[1] for e in p_.effects if e.kind == "call" and e.name in ("append", "extend", "insert") for x in e.args if hasattr(x, "terms")}
                    has = any(d_ in names for d_ in dcls)
                    defined = has if defined is None else (defined and has)
                # (2) do the uses call the helper for an alias whose target is a K?
                used_by = []
                for un in sorted(set(users)):
                    uf = m.lookup(pf, un)
                    prm = [a_.arg for a_ in uf.node.args.args]
                    if len(prm) < 2:
                        continue
                    fl2 = compiler_flow(repo, "PyFormatter", "impls/py/formatter.py", inline=lambda n_, f_: False, decide=class_decider(repo, {f"{prm[1]}.type": K.name}))
                    for p_ in fl2.run(uf.node, {prm[0]: _V("self"), prm[1]: _V(prm[1])}):
                        if p_.done == "return" and p_.ret is not None and f"{namer}(" in _show(p_.ret):
                            used_by.append(un)
                            break
                res.inst(part="py", helper=namer, target=K.name, defined=defined, used_by=used_by)
                if used_by and defined is False:
                    fd = Finding("F10", pm.rel, bl.node.lineno, f"{owner_block}.blocks", f"{K.name}: used by {used_by}", f"for an alias of a {K.name} the generated module calls `{namer}(...)` (from {used_by}) but the block that defines that function ({dcls}) is not emitted: NameError when the message is instantiated", witness="type Stamp = uint32; message M { Stamp[3] at = 1 }", tag=f"{namer}:{K.name}")
                    fd.part = "py"
                    res.bad(fd)
                elif defined is None:
                    res.unsure(f"F10: {owner_block}.blocks: no return path for target {K.name}")
            except Inconclusive as e:
                res.unsure(f"F10: {namer} / {K.name}: {e}")
    return res


# --------------------------------------------------------------------------
# F11 definition-kind dispatchers of the renderers
# --------------------------------------------------------------------------

DEF_KINDS = ("Alias", "Constant", "Enum", "Message")


def dispatch_tables(repo: Repo) -> Dict[Tuple[str, str], Dict[str, List[Tuple[str, Tuple[str, ...]]]]]:
    """(renderer module, dispatcher class) -> definition kind -> [(block class or 'None', conditions)],
    from the paths of `dispatch(self, d)` with the class of d fixed by the scenario."""
    from .emit import FORMATTERS, block_flow
    from .normal import V, show
    from .pyflow import show_lit, single_atom
    from .pymodel import get_model

    m = get_model(repo)
    out: Dict[Tuple[str, str], Dict[str, List[Tuple[str, Tuple[str, ...]]]]] = {}
    for sfx, (fcn, frel) in FORMATTERS.items():
        mod = m.mod(sfx)
        for ci in mod.classes.values():
            fi = m.lookup(ci, "dispatch")
            if fi is None or fi.cls is None or fi.cls.rel.endswith("renderer/block.py") or len(fi.node.args.args) < 2:
                continue
            if any(isinstance(b_, ast.Raise) and "NotImplementedError" in src_of(b_) for b_ in fi.node.body):
                continue
            # abstract intermediate dispatchers (their subclasses are the dispatchers that are used)
            if any(o is not ci and m.is_subclass(o, ci) for mo_ in m.mods.values() for o in mo_.classes.values()):
                continue
            dn = fi.node.args.args[1].arg
            row: Dict[str, List[Tuple[str, Tuple[str, ...]]]] = {}
            for K in DEF_KINDS:
                flow = block_flow(repo, ci.name, sfx, fcn, frel, {dn: K}, inline_props=True)
                outs = set()
                # `type(d).__mro__` / `d.__class__.__mro__` of the scenario's class, written out
                fn_k = fi.node
                if any(isinstance(x_, ast.Attribute) and x_.attr == "__mro__" for x_ in ast.walk(fn_k)):
                    import copy as _copy

                    kc = m.cls(K, "_ast.py")
                    mro_names = [c_.name for c_ in m.mro(kc)] + ["object"]

                    class _T(ast.NodeTransformer):
                        def visit_Attribute(self, n_: ast.Attribute) -> Any:
                            if n_.attr == "__mro__" and src_of(n_.value).replace(" ", "") in (f"type({dn})", f"{dn}.__class__"):
                                return ast.copy_location(ast.Tuple(elts=[ast.Name(id=x_, ctx=ast.Load()) for x_ in mro_names], ctx=ast.Load()), n_)
                            return self.generic_visit(n_)

                    fn_k = _T().visit(_copy.deepcopy(fi.node))
                    ast.fix_missing_locations(fn_k)
                for p in flow.run(fn_k, {"self": V("self"), dn: V(dn)}):
                    if p.done != "return":
                        continue
                    a = single_atom(p.ret) if p.ret is not None else None
                    nm = "None" if (a is None or a[0] == "none") else (a[1] if a[0] in ("new", "call") and isinstance(a[1], str) else show(p.ret)[:40])
                    conds = tuple(show_lit(k, t) for k, t in p.guards if "_ctx is None" not in show_lit(k, t))
                    outs.add((nm, conds))
                row[K] = sorted(outs)
            out[(sfx, ci.name)] = row
    return out


@rule("F11", "renderers: every kind of definition reaches its block in every mode; declarations and definitions cover the same kinds; only -F makes a block conditional")
def f11(repo: Repo) -> RuleResult:
    res = RuleResult("F11", floor=6)
    try:
        T = dispatch_tables(repo)
    except Inconclusive as e:
        res.unsure(f"F11: {e}")
        return res

    def kinds_of(row: Dict[str, Any]) -> Set[str]:
        return {K for K, outs in row.items() if any(nm != "None" for nm, _ in outs)}

    langs = {"impls/c/renderer_c.py": "c", "impls/c/renderer_h.py": "c", "impls/go/renderer.py": "go", "impls/py/renderer.py": "py"}
    dn_of: Dict[Tuple[str, str], str] = {}
    for (sfx, cname), row in sorted(T.items()):
        res.inst(part=langs.get(sfx, "?"), module=sfx.split("/")[-1], dispatcher=cname, kinds=sorted(kinds_of(row)))
        rel = "compiler/bitproto/renderer/" + sfx
        for K, outs in row.items():
            blocks = {nm for nm, _ in outs if nm != "None"}
            if not blocks:
                continue
            if len(blocks) > 1:
                res.unsure(f"F11: {cname}.dispatch: {K} reaches {sorted(blocks)}")
                continue
            # the only thing that may keep a definition from its block is the -F filter naming other messages
            for nm, conds in outs:
                if nm != "None":
                    continue
                other = [c for c in conds if "optimization_mode_filter_messages" not in c and "filter_messages" not in c]
                # a condition the engine did not see through (a lookup, a search) says nothing yet: inconclusive
                import re as _re11

                opaque = [c for c in other if not _re11.fullmatch(r"(not\()?\(?'?[\w\s,'()]*\b" + _re11.escape(dn_of.get((sfx, cname), "d")) + r"\.[\w.]+(\(\))?[^A-Za-z]*\)?", c)]
                if other and opaque:
                    res.unsure(f"F11: {cname}.dispatch: condition(s) {opaque[:2]} for {K} not understood")
                    continue
                if other or not conds:
                    f = Finding("F11", rel, 0, f"{cname}.dispatch", "; ".join(conds), f"a {K} definition gets no block on the path under {list(conds) or 'no condition'} although other {K} definitions get {sorted(blocks)[0]}: what the other files of the output declare / call for it is missing", witness="message Ping {} with -O: EncodePing is declared in the header and defined nowhere", tag=f"{cname}:{K}:conditional")
                    f.part = langs.get(sfx, "?")
                    res.bad(f)
        # a dispatcher that emits constants emits the data structures: all four kinds
        if "Constant" in kinds_of(row) and kinds_of(row) != set(DEF_KINDS):
            missing = sorted(set(DEF_KINDS) - kinds_of(row))
            f = Finding("F11", rel, 0, f"{cname}.dispatch", str(sorted(kinds_of(row))), f"the dispatcher of the declarations handles {sorted(kinds_of(row))} but not {missing}: definitions of that kind vanish from the output", witness="const N = 4 / enum / alias / message missing in the generated file", tag=f"{cname}:kinds")
            f.part = langs.get(sfx, "?")
            res.bad(f)
    # per module: the optimization-mode dispatcher of the declarations covers what the standard one covers
    for sfx in sorted({s_ for s_, _ in T}):
        data = {c_: kinds_of(r_) for (s_, c_), r_ in T.items() if s_ == sfx}
        std_data = [c_ for c_, k_ in data.items() if "Constant" in k_ and not c_.endswith("OpMode")]
        has_opmode = any(c_.endswith("OpMode") for c_ in data)
        op_data = [c_ for c_, k_ in data.items() if "Constant" in k_ and c_.endswith("OpMode")]
        if std_data and has_opmode and not op_data and sfx != "impls/c/renderer_c.py" and any(c_ == std_data[0] + "OpMode" for c_ in data):
            f = Finding("F11", "compiler/bitproto/renderer/" + sfx, 0, std_data[0] + "OpMode.dispatch", str(data.get(std_data[0] + "OpMode")), f"in optimization mode the declarations dispatcher does not handle constants although {std_data[0]} does: -O drops them from the output", witness="const N = 4 compiled with -O", tag=f"{sfx}:opmode-constants")
            f.part = langs.get(sfx, "?")
            res.bad(f)
    # C: what the source defines functions for, the header declares functions for (standard and -O separately)
    src = {c_: r_ for (s_, c_), r_ in T.items() if s_ == "impls/c/renderer_c.py"}
    hdr = {c_: r_ for (s_, c_), r_ in T.items() if s_ == "impls/c/renderer_h.py" and "Constant" not in kinds_of(r_)}
    for opmode in (False, True):
        defined: Set[str] = set()
        declared: Set[str] = set()
        for c_, r_ in src.items():
            if c_.endswith("OpMode") == opmode:
                defined |= kinds_of(r_)
        for c_, r_ in hdr.items():
            if c_.endswith("OpMode") == opmode:
                declared |= kinds_of(r_)
        res.inst(part="c", mode="-O" if opmode else "standard", defined=sorted(defined), declared=sorted(declared))
        if not src or not hdr:
            res.unsure("F11: C dispatchers of source / header not found")
            break
        if defined - declared:
            f = Finding("F11", "compiler/bitproto/renderer/impls/c/renderer_h.py", 0, "function declarations", f"declared {sorted(declared)}, defined {sorted(defined)}", f"the C source defines functions for {sorted(defined)} definitions ({'-O' if opmode else 'standard mode'}) but the header declares functions only for {sorted(declared)}: an importing file that uses a {sorted(defined - declared)[0]} of this file calls an undeclared function", witness="app.bitproto imports units.bitproto and has a field of an alias type declared there: app_bp.c does not compile", tag=f"c:{'opmode' if opmode else 'std'}:undeclared")
            f.part = "c"
            res.bad(f)
        if declared - defined:
            f = Finding("F11", "compiler/bitproto/renderer/impls/c/renderer_c.py", 0, "function definitions", f"declared {sorted(declared)}, defined {sorted(defined)}", f"the header declares functions for {sorted(declared - defined)} definitions that the C source does not define ({'-O' if opmode else 'standard mode'}): calling the documented function fails to link", tag=f"c:{'opmode' if opmode else 'std'}:undefined")
            f.part = "c"
            res.bad(f)
    return res
